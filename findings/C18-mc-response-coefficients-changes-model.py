"""C18: mc.response_coefficients(model, variables=...) leaves the caller's model with the custom variable values as its initial values.
Exit 1 when the model's initial values differ before/after the call."""
import sys
import pandas as pd
from mxlpy import Model, mc
def const(k): return k
def prop(k, x): return k * x
m = (Model().add_parameters({"kin": 1.0, "kout": 2.0}).add_variables({"x": 1.0})
     .add_reaction("vin", const, args=["kin"], stoichiometry={"x": 1})
     .add_reaction("vout", prop, args=["kout", "x"], stoichiometry={"x": -1}))
before = m.get_initial_conditions()
mc.response_coefficients(m, mc_to_scan=pd.DataFrame({"kin": [1.0, 1.5]}), to_scan=["kout"], variables={"x": 5.0}, max_workers=1, disable_tqdm=True)
after = m.get_initial_conditions()
print("initial values before:", before, "after:", after)
sys.exit(1 if before != after else 0)
