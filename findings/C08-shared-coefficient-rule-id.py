import tempfile, pathlib
from mxlpy import Model, Derived, fns, sbml
def two(k): return 2*k
def three(k): return 3*k
def const(k): return k
m=(Model().add_parameters({"k":1.0,"a":1.0}).add_variables({"x":1.0})
   .add_reaction("v1", const, args=["a"], stoichiometry={"x": Derived(fn=two, args=["k"])})
   .add_reaction("v2", const, args=["a"], stoichiometry={"x": Derived(fn=three, args=["k"])}))
print("orig rhs", dict(m.get_right_hand_side()))
d=pathlib.Path(tempfile.mkdtemp())
f=d/"m.xml"
sbml.write(m, f)
txt=f.read_text()
import re
print(re.findall(r'assignmentRule[^>]*>', txt))
print(re.findall(r'speciesReference[^>]*>', txt))
try:
    m2=sbml.read(f)
    print("reimported rhs", dict(m2.get_right_hand_side()))
except Exception as e:
    print("import failed:", type(e).__name__, str(e)[:200])
