import tempfile, pathlib, numpy as np, math
from mxlpy import Model, sbml
def r(k, x): return k*np.log10(x)
def r2(k, x): return k*math.log10(x)
for fn in (r, r2):
    m=(Model().add_parameters({"k":1.0}).add_variables({"x":100.0}).add_reaction("v", fn, args=["k","x"], stoichiometry={"x":-1}))
    d=pathlib.Path(tempfile.mkdtemp()); f=d/"m.xml"
    try:
        sbml.write(m,f)
        import re; print(re.findall(r"<kineticLaw>.*?</kineticLaw>", f.read_text(), flags=re.S)[0][:400].replace("\n"," "))
        m2=sbml.read(f); print(fn.__name__, dict(m.get_right_hand_side()), dict(m2.get_right_hand_side()))
    except Exception as e:
        print(fn.__name__, "FAILED", type(e).__name__, str(e)[:200])
