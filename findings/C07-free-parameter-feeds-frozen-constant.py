"""C07: a parameter computed by an initial assignment from a FREE parameter is emitted as a constant resolved at the default value.
The generated function called with another value of the free parameter disagrees with the model updated to that value.
Exit 1 when generated code and model disagree (or 0 when they agree / generation raises)."""
import sys
from mxlpy import Model, InitialAssignment
from mxlpy.meta import generate_model_code_py

def double(p): return 2 * p
def rate(q, x): return q * x

m = (Model().add_parameter("p", 1.0)
     .add_parameter("q", InitialAssignment(fn=double, args=["p"]))
     .add_variable("x", 1.0)
     .add_reaction("v", rate, args=["q", "x"], stoichiometry={"x": -1}))
try:
    src = generate_model_code_py(m, free_parameters=["p"])
except NotImplementedError as e:
    print("generation raises:", e); sys.exit(0)
ns = {}
exec(src, ns)
got = ns["model"](0.0, [1.0], 3.0)
m.update_parameter("p", 3.0)
want = m.get_right_hand_side({"x": 1.0})["x"]
print(src); print("generated:", got, "model:", want)
sys.exit(0 if abs(list(got)[0] - want) < 1e-12 else 1)
