import tempfile, pathlib
import pandas as pd
from mxlpy import Model, fns, scan
from mxlpy.parallel import Cache
def const(k): return k
def prop(k,x): return k*x
m=(Model().add_parameters({"kin":1.0,"kout":1.0}).add_variables({"x":1.0})
   .add_reaction("vin", const, args=["kin"], stoichiometry={"x":1})
   .add_reaction("vout", prop, args=["kout","x"], stoichiometry={"x":-1}))
d=pathlib.Path(tempfile.mkdtemp())
c=Cache(tmp_dir=d)
A=pd.DataFrame({"kin":[1.0,2.0]})
B=pd.DataFrame({"kin":[5.0,6.0]})
ra=scan.steady_state(m, to_scan=A, cache=c, parallel=False)
rb=scan.steady_state(m, to_scan=B, cache=c, parallel=False)
rb0=scan.steady_state(m, to_scan=B, parallel=False)
print("with cache  :", rb.variables["x"].round(3).tolist())
print("without     :", rb0.variables["x"].round(3).tolist())
