"""C09: the NaN placeholder that scan.protocol returns for a failing row has another number of time points (and other time values) than a
successful row, so it does not line up with the other rows.  The failing row is produced through the integrator's own failure channel
(an integrator that reports IntegrationFailure when the initial derivative is large).  Exit 1 when the time axes differ."""
import sys
import numpy as np
import pandas as pd
from mxlpy import Model, make_protocol, scan
from mxlpy.integrators.int_scipy import Scipy
from mxlpy.types import IntegrationFailure, Result


class Picky(Scipy):
    def integrate_time_course(self, *, time_points):
        if abs(self.rhs(self.t0, self.y0)[0]) > 50:
            return Result(IntegrationFailure())
        return super().integrate_time_course(time_points=time_points)


def influx(k): return k
def efflux(k, x): return k * x

m = (Model().add_parameters({"kin": 1.0, "kout": 2.0}).add_variable("x", 1.0)
     .add_reaction("vin", influx, args=["kin"], stoichiometry={"x": 1})
     .add_reaction("vout", efflux, args=["kout", "x"], stoichiometry={"x": -1}))
prot = make_protocol([(1, {"kin": 1.0}), (2, {"kin": 2.0})])
res = scan.protocol(m, to_scan=pd.DataFrame({"kout": [2.0, 500.0]}), protocol=prot, time_points_per_step=4, parallel=False, integrator=Picky)
rr = res.raw_results
ok, bad = (r.variables for r in (rr.values() if isinstance(rr, dict) else rr))
print("successful row:", len(ok), "time points", [round(float(t), 3) for t in ok.index])
print("failed row    :", len(bad), "time points", [round(float(t), 3) for t in bad.index], "| all NaN:", bool(bad.isna().all().all()))
sys.exit(0 if list(ok.index) == list(bad.index) else 1)
