"""Run the checks against every kept seeded (property-breaking) change (by hand; not a registered check).

For each /verif/seeded/<id>/patch.diff: the patch is applied in a scratch git worktree of /repo's HEAD created under a temporary
directory (never in /repo itself), every checker's quick rules are run with `--repo <worktree>` (no evidence written), and the
worktree is reset.  The worktrees are removed at the end.  Writes /verif/seeded/<id>/result.json and prints one line per seed.
(The same can be done by hand in /repo: `git -C /repo apply <patch>`, run the checks, `git -C /repo checkout -- .`.)
usage: /venv/bin/python tools/run_seeds.py [id-prefix ...] [-j N]
"""
import json
import subprocess
import sys
import tempfile
import threading
from concurrent.futures import ThreadPoolExecutor
from pathlib import Path

V = Path("/verif")
ALL = [f"C{i:02d}" for i in range(1, 21)]


def sh(cmd, **kw):
    return subprocess.run(cmd, capture_output=True, text=True, **kw)


args = sys.argv[1:]
jobs = 5
if "-j" in args:
    jobs = int(args[args.index("-j") + 1])
    del args[args.index("-j"): args.index("-j") + 2]
sel = args
head = sh(["git", "-C", "/repo", "rev-parse", "HEAD"]).stdout.strip()
tmp = Path(tempfile.mkdtemp(prefix="mxverif-seeds-"))
pool = []
for i in range(jobs):
    wt = tmp / f"w{i}"
    r = sh(["git", "-C", "/repo", "worktree", "add", "-q", "--detach", str(wt), head])
    assert r.returncode == 0, r.stderr
    pool.append(wt)
lock = threading.Lock()


def one(d: Path):
    with lock:
        wt = pool.pop()
    try:
        sh(["git", "-C", str(wt), "reset", "-q", "--hard"])
        sh(["git", "-C", str(wt), "clean", "-fdq", "src"])
        pid = d.parent.name.split("-")[0]
        ap = sh(["git", "-C", str(wt), "apply", str(d)])
        if ap.returncode != 0:
            ap = sh(["git", "-C", str(wt), "apply", "-3", str(d)])  # cut against an earlier HEAD: three-way
            if ap.returncode == 0 and sh(["git", "-C", str(wt), "grep", "-l", "-e", "^<<<<<<< ", "--", "src"]).stdout.strip():
                ap.returncode = 1
                ap.stderr = "three-way merge left conflicts"
        res = {"seed": d.parent.name, "property": pid, "applies": ap.returncode == 0, "evaluated_at_repo_commit": head}
        if ap.returncode == 0:
            det = {}
            for c in ALL:
                v = sh(["./vcheck", c, "--repo", str(wt), "--no-evidence", "--no-selftest"], cwd=str(V))
                if v.returncode != 0:
                    det[c] = {"exit": v.returncode, "reports": [l.strip()[:220] for l in v.stdout.splitlines() if l.startswith(("  [", "ANALYSIS-ERROR"))][:5]}
            res["detected_by"] = det
            res["own_check_exit"] = det.get(pid, {}).get("exit", 0)
        else:
            res["note"] = ap.stderr.strip()[:200]
        (d.parent / "result.json").write_text(json.dumps(res, indent=1))
        return d.parent.name, res
    finally:
        sh(["git", "-C", str(wt), "reset", "-q", "--hard"])
        sh(["git", "-C", str(wt), "clean", "-fdq", "src"])
        with lock:
            pool.append(wt)


try:
    diffs = [d for d in sorted((V / "seeded").glob("*/patch.diff")) if not sel or any(d.parent.name.startswith(s) for s in sel)]
    with ThreadPoolExecutor(jobs) as ex:
        for name, res in ex.map(one, diffs):
            pid = res["property"]
            others = {k: v["exit"] for k, v in res.get("detected_by", {}).items() if k != pid}
            first = (res.get("detected_by", {}).get(pid, {}).get("reports") or [""])[0]
            print(f"{name:46s} applies={res['applies']} own={res.get('own_check_exit')} others={others} {first[:100]}")
finally:
    for wt in list(tmp.glob("w*")):
        sh(["git", "-C", "/repo", "worktree", "remove", "--force", str(wt)])
    sh(["rm", "-rf", str(tmp)])
