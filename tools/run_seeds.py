"""Run the checks against every kept seeded change (by hand; not a registered check).

For each /verif/seeded/<id>/patch.diff: /repo must be clean; the patch is applied with `git -C /repo apply`, every checker's
quick rules are run (no evidence written), and the patch is undone straight afterwards (`git -C /repo checkout -- .`).
Writes /verif/seeded/<id>/result.json and prints one line per seed.
usage: /venv/bin/python tools/run_seeds.py [id-prefix ...]
"""
import json
import subprocess
import sys
from pathlib import Path

V = Path("/verif")
ALL = [f"C{i:02d}" for i in range(1, 21)]


def sh(cmd, **kw):
    return subprocess.run(cmd, capture_output=True, text=True, **kw)


assert sh(["git", "-C", "/repo", "status", "--porcelain"]).stdout.strip() == "", "/repo is not clean"
sel = sys.argv[1:]
rows = []
for d in sorted((V / "seeded").iterdir()):
    if not (d / "patch.diff").exists() or (sel and not any(d.name.startswith(s) for s in sel)):
        continue
    pid = d.name.split("-")[0]
    res = {"seed": d.name, "property": pid}
    ap = sh(["git", "-C", "/repo", "apply", str(d / "patch.diff")])
    if ap.returncode != 0:
        res["applies"] = False
        res["note"] = ap.stderr.strip()[:200]
    else:
        res["applies"] = True
        try:
            det = {}
            for c in ALL:
                v = sh(["./vcheck", c, "--no-evidence", "--no-selftest"], cwd=str(V))
                if v.returncode != 0:
                    det[c] = {"exit": v.returncode,
                              "reports": [l.strip()[:220] for l in v.stdout.splitlines() if l.startswith(("  [", "ANALYSIS-ERROR"))][:5]}
            res["detected_by"] = det
            res["own_check_exit"] = det.get(pid, {}).get("exit", 0)
        finally:
            sh(["git", "-C", "/repo", "checkout", "--", "."])
    (d / "result.json").write_text(json.dumps(res, indent=1))
    rows.append(res)
    own = res.get("own_check_exit")
    others = {k: v["exit"] for k, v in res.get("detected_by", {}).items() if k != pid}
    first = (res.get("detected_by", {}).get(pid, {}).get("reports") or [""])[0]
    print(f"{d.name:42s} applies={res['applies']} own={own} others={others} {first[:110]}")
assert sh(["git", "-C", "/repo", "status", "--porcelain"]).stdout.strip() == "", "/repo left dirty!"
