"""Regenerate the generated blocks of /verif/DESIGN.md (between `<!-- GENERATED:<name>:begin -->` and `<!-- GENERATED:<name>:end -->`):

  rules      the rule tables of all twenty checkers (from the checkers' own `rules` / `floors` / `decided` / `undecided`)
  seeded     the kept independent property-breaking changes and which check reports them (from /verif/seeded/*/meta.json, result.json)
  refactors  the kept behaviour-preserving refactors and the checks' verdict on them (from /verif/refactors/results.json)
usage: /venv/bin/python tools/gen_design_tables.py
"""
import importlib
import json
import re
import sys
from pathlib import Path

V = Path("/verif")
sys.path.insert(0, str(V))
from mxverif.core import Check  # noqa: E402


def rules_block() -> str:
    out = []
    for i in range(1, 21):
        pid = f"C{i:02d}"
        mod = importlib.import_module(f"mxverif.checks.{pid.lower()}")
        cls = next(v for v in vars(mod).values() if isinstance(v, type) and issubclass(v, Check) and v is not Check and getattr(v, "pid", "") == pid)
        out.append(f"**{pid} - {cls.title}**  (floors: {cls.floors})\n")
        for rid in sorted(cls.rules, key=lambda r: (re.sub(r"\d+", "", r), int(re.sub(r"\D", "", r) or 0))):
            out.append(f"* `{rid}` {cls.rules[rid]}")
        if cls.undecided:
            out.append("\n  *Not decided:* " + "; ".join(cls.undecided))
        out.append("")
    return "\n".join(out)


def seeded_block() -> str:
    rows = ["| seed | needs, to show | own check | first report | also reported by |", "|---|---|---|---|---|"]
    n = caught = 0
    for d in sorted((V / "seeded").iterdir()):
        if not (d / "meta.json").exists():
            continue
        meta = json.loads((d / "meta.json").read_text())
        res = json.loads((d / "result.json").read_text()) if (d / "result.json").exists() else {}
        pid = meta["property"]
        det = res.get("detected_by", {})
        own = det.get(pid, {})
        n += 1
        first = (own.get("reports") or [""])[0]
        m = re.match(r"\[(\w+)\] (\S+) in (\S+?): (.*)", first)
        rep = f"`{m.group(1)}` {m.group(3)}: {m.group(4)[:60]}" if m else ("-" if not own else first[:70])
        ex = own.get("exit", 0)
        caught += 1 if ex == 1 else 0
        others = ", ".join(sorted(k for k in det if k != pid)) or "-"
        status = {1: "VIOLATION (exit 1)", 2: "refused (exit 2)", 0: "**silent**"}[ex] if res.get("applies", True) else "patch does not apply"
        rows.append(f"| {d.name} | {meta.get('needs_to_manifest', '')[:90]} | {status} | {rep} | {others} |")
    rows.append("")
    rows.append(f"{caught} of {n} kept changes are reported as a violation by the check of the property they were written against.")
    return "\n".join(rows)


def refactors_block() -> str:
    p = V / "refactors" / "results.json"
    if not p.exists():
        return "(not evaluated yet)"
    res = json.loads(p.read_text())
    commit = res.pop("_evaluated_at_repo_commit", "?")
    rows = ["| refactor | files touched | verdict of the twenty checks |", "|---|---|---|"]
    ok = 0
    for rid in sorted(res):
        r = res[rid]
        if not r.get("applies"):
            verdict = "diff does not apply to the current tree"
        elif not r["alarms"]:
            verdict = "all exit 0"
            ok += 1
        else:
            verdict = "; ".join(f"{c}: exit {a['exit']}" for c, a in sorted(r["alarms"].items()))
        rows.append(f"| {rid} | {', '.join(f.replace('src/mxlpy/', '') for f in r.get('files', []))} | {verdict} |")
    rows.append("")
    rows.append(f"{ok} of {len(res)} refactors pass all twenty checks (evaluated against /repo commit {commit[:7]}).")
    return "\n".join(rows)


text = (V / "DESIGN.md").read_text()
for name, fn in (("rules", rules_block), ("seeded", seeded_block), ("refactors", refactors_block)):
    b, e = f"<!-- GENERATED:{name}:begin -->", f"<!-- GENERATED:{name}:end -->"
    if b in text and e in text:
        i, j = text.index(b) + len(b), text.index(e)
        text = text[:i] + "\n" + fn() + "\n" + text[j:]
    else:
        print(f"marker for {name} missing", file=sys.stderr)
(V / "DESIGN.md").write_text(text)
print("DESIGN.md regenerated")
