"""Copy a confirmed sub-agent mutation (rounds 3 and 4) into /verif/seeded/<prop>-<slug>/ (patch.diff, demo.py, meta.json).
usage: keep_mutation.py Mxx <patch index> Cyy <slug> "<what it needs to manifest>" [round] [base commit note] """
import json, shutil, sys
from pathlib import Path
mid, idx, pid, slug, needs = sys.argv[1:6]
rnd = int(sys.argv[6]) if len(sys.argv) > 6 else 3
base = sys.argv[7] if len(sys.argv) > 7 else "d70e85f (the /repo HEAD of round 3)"
src = Path(f"/tmp/wt/out/{mid}")
ev = json.loads((src / "eval.json").read_text())
e = [r for r in ev if r["patch"].endswith(f"patch{idx}.diff")][0]
assert e.get("demo_with_change") == 1 and e.get("demo_without_change") == 0, e
assert e.get("baseline_exit") == 0, e.get("baseline_regressions")
dst = Path(f"/verif/seeded/{pid}-{slug}")
dst.mkdir(parents=True, exist_ok=True)
shutil.copy(src / f"patch{idx}.diff", dst / "patch.diff")
shutil.copy(src / f"demo{idx}.py", dst / "demo.py")
for extra in src.glob("_*.py"):
    shutil.copy(extra, dst / extra.name)
meta = {
    "property": pid,
    "round": rnd,
    "origin": "independent sub-agent given only two property texts and a scratch worktree of /repo (nothing from /verif)",
    "needs_to_manifest": needs,
    "confirmed_by_me": {
        "in": f"scratch worktree /tmp/wt/{mid} (removed afterwards)",
        "demo_exit_with_change": e["demo_with_change"],
        "demo_exit_without_change": e["demo_without_change"],
        "baseline_with_change": e["baseline_regressions"],
        "commands": [f"git -C /tmp/wt/{mid} apply patch.diff", f"PYTHONPATH=/tmp/wt/{mid}/src /venv/bin/python demo.py",
                     f"/venv/bin/python /tmp/wt/tools/run_baseline.py /tmp/wt/{mid} -n 8", f"git -C /tmp/wt/{mid} checkout -- ."],
    },
    "base_commit_of_patch": base,
}
(dst / "meta.json").write_text(json.dumps(meta, indent=1))
print("kept", dst)
