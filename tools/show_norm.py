"""Print a function as the rules see it (after normalisation). usage: show_norm.py <repo> <module rel to src/mxlpy> <qualname>"""
import ast, sys
sys.path.insert(0, "/verif")
from mxverif.core import Program
prog = Program(sys.argv[1])
mod = prog.module(sys.argv[2])
fn = mod.func(sys.argv[3])
print(ast.unparse(fn))
