"""Copy a confirmed sub-agent mutation into /verif/seeded/<id>/ (patch.diff, demo.py, meta.json).
usage: keep_seed.py Cxx <patch index> <slug> "<what it needs to manifest>" """
import json, shutil, sys
from pathlib import Path
pid, idx, slug, needs = sys.argv[1:5]
src = Path(f"/tmp/wt/out/{pid}")
ev = json.loads((src / "eval.json").read_text())
e = [r for r in ev if r["patch"].endswith(f"patch{idx}.diff")][0]
assert e.get("demo_with_change") == 1 and e.get("demo_without_change") == 0, e
assert e.get("baseline_exit") == 0, e.get("baseline_regressions")
dst = Path(f"/verif/seeded/{pid}-{slug}")
dst.mkdir(parents=True, exist_ok=True)
shutil.copy(src / f"patch{idx}.diff", dst / "patch.diff")
shutil.copy(src / f"demo{idx}.py", dst / "demo.py")
meta = {
    "property": pid,
    "origin": "independent sub-agent given only the property text and a scratch worktree of /repo",
    "needs_to_manifest": needs,
    "confirmed_by_me": {
        "in": f"scratch worktree /tmp/wt/{pid} (removed afterwards)",
        "demo_exit_with_change": e["demo_with_change"],
        "demo_exit_without_change": e["demo_without_change"],
        "baseline_with_change": e["baseline_regressions"],
        "commands": [f"git -C /tmp/wt/{pid} apply patch.diff", f"PYTHONPATH=/tmp/wt/{pid}/src /venv/bin/python demo.py",
                     f"/venv/bin/python /tmp/wt/tools/run_baseline.py /tmp/wt/{pid} -n 8", f"git -C /tmp/wt/{pid} checkout -- ."],
    },
    "base_commit_of_patch": "see DESIGN.md section 10 (patches were cut against the /repo HEAD of their round)",
}
(dst / "meta.json").write_text(json.dumps(meta, indent=1))
print("kept", dst)
