"""Run every checker against behaviour-preserving refactors produced by independent agents (by hand; not a registered check).

For each /tmp/wt/out/Rxx/refactor<k>.diff: apply it in the scratch worktree /tmp/wt/Rxx, run all 20 checkers' quick rules with
--repo pointing at the worktree, revert. Any exit != 0 is a false alarm (1) or a refusal (2) to be fixed in the checkers.
usage: /venv/bin/python tools/eval_refactors.py [Rxx ...]
"""
import json
import subprocess
import sys
from concurrent.futures import ThreadPoolExecutor
from pathlib import Path

V = Path("/verif")
OUT = Path("/tmp/wt/out")
ALL = [f"C{i:02d}" for i in range(1, 21)]


def sh(cmd, **kw):
    return subprocess.run(cmd, capture_output=True, text=True, **kw)


import itertools
import threading

_pool = [Path(f"/tmp/wt/E{i}") for i in range(1, 6)]   # evaluation worktrees (never the authors' own worktrees: they may still be in use)
_lock = threading.Lock()


def one(rdir: Path):
    with _lock:
        wt = _pool.pop()
    try:
        return _one(rdir, wt)
    finally:
        with _lock:
            _pool.append(wt)


def _one(rdir: Path, wt: Path):
    rows = []
    for d in sorted(rdir.glob("refactor*.diff")):
        sh(["git", "-C", str(wt), "checkout", "--", "."])
        sh(["git", "-C", str(wt), "clean", "-fdq", "src"])
        ap = sh(["git", "-C", str(wt), "apply", str(d)])
        row = {"refactor": f"{rdir.name}/{d.name}", "applies": ap.returncode == 0, "alarms": {}}
        if ap.returncode == 0:
            for c in ALL:
                v = sh(["./vcheck", c, "--repo", str(wt), "--no-evidence", "--no-selftest"], cwd=str(V))
                if v.returncode != 0:
                    row["alarms"][c] = {"exit": v.returncode, "reports": [l.strip()[:260] for l in v.stdout.splitlines() if l.startswith(("  [", "ANALYSIS-ERROR"))][:6]}
        else:
            row["note"] = ap.stderr.strip()[:200]
        sh(["git", "-C", str(wt), "checkout", "--", "."])
        sh(["git", "-C", str(wt), "clean", "-fdq", "src"])
        rows.append(row)
    return rows


sel = sys.argv[1:] or sorted(p.name for p in OUT.glob("R[0-9][0-9]"))
with ThreadPoolExecutor(5) as ex:
    res = [r for rows in ex.map(one, [OUT / s for s in sel]) for r in rows]
for r in res:
    print(f"{r['refactor']:28s} applies={r['applies']} alarms={ {k: v['exit'] for k, v in r['alarms'].items()} }")
    for k, v in r["alarms"].items():
        for rep in v["reports"]:
            print("      ", k, rep)
(OUT / f"refactor_eval_{'_'.join(sel)[:40]}.json").write_text(json.dumps(res, indent=1))
