# pid -> (technique, level text, level note, design_ref); exec'd by gen_manifest.py
CLAIMS["C03"] = (
    "path-enumerating abstract interpretation of every public Model mutator (membership facts + cache typestate, self-calls and decorators inlined)",
    "Decides, for every public Model method that writes a field the cache builder reads (set computed from _create_cache), on every path: "
    "(I1) the memoised cache is None or rebuilt after the last write at each normal exit; (I2/I2b) no rejection point that can still fire follows a write; "
    "(I3) container stores/removals are paired with the shared name-space update. These are necessary conditions of 'answers depend only on current content' "
    "and 'a rejected edit changes nothing' for ALL edit histories, which the one-mutator-on-a-fresh-model tests never reach. It does not decide that a fresh cache computes correct numbers.",
    "Assumes the class invariant keys(content) <= keys(_ids) at method entry, that dataclass constructors/logging do not raise, and that content is only edited through Model's public mutators. "
    "Residual genuine defects (bulk edits apply partially; add/update_surrogate and make_parameter_dynamic reject after writing) are listed in known_findings.json.",
    "DESIGN.md section 4 C03, Appendix A.1",
)
CLAIMS["C02"] = (
    "structural dominance + path enumeration over the sorter (guard-dominates-emit, exit classification, counter/cap on every iteration path) and symbolic cap-adequacy (sympy polynomial in len(elements))",
    "Decides the shape of the resolution algorithm for ALL graphs and declaration orders: (R1) a component is emitted only under `required <= available` and then extends `available`; "
    "(R2) the loop is left only on queue exhaustion or by raising the circular-dependency error; (R3) every iteration path counts against the cap (termination); "
    "(R4) the cap, as a polynomial in n, dominates the n(n+1)/2 worst case so no resolvable graph is rejected; (R5) the missing-name check with payload sorted(required - providable) dominates the loop; "
    "(R6) no handler on the query->sorter chains swallows the errors; (R7) all component classes reach the sorter unfiltered and evaluation follows its order. "
    "Together these are the algorithmic content of the property; numeric equality of evaluated values is not checked.",
    "Trusts set.issubset/difference and SimpleQueue FIFO semantics; sorter located by role (callee of _create_cache that raises the circular error). Unknown loop/termination shapes give exit 2, not a violation.",
    "DESIGN.md section 4 C02",
)
CLAIMS["C04"] = (
    "qualifier dataflow (ABS/REL/SHIFT/DUR time typing) over Simulator's entry points by path-enumerating abstract interpretation, plus typestate checks of integrator continuation, result bookkeeping, override restart and reset",
    "Decides, for every call order and every time value: (T1) no comparison/mask/arithmetic in simulate, simulate_time_course, update_variables or the result handler mixes absolute with integrator-relative time, integrator arguments are relative and stored frames absolute; "
    "(T2) Scipy's integrate* methods start from the current (t0,y0) and leave it at the last returned row; (T3) frames and parameter records are appended together, failures only to the error list, the boundary row dropped exactly for continuing calls; "
    "(T4) override restart = last row | overrides at the last absolute time, integrator re-initialised after; (T5) clear_results resets the whole result group; (T6) refusal iff requested end <= reached. "
    "These are the bookkeeping clauses of the property (increasing absolute axis, correct continuation point, exact refusal); trajectories and solver output points are not decided.",
    "Trusts the declared qualifier sources (public times absolute, TimeCourse.time relative) and the conversion idiom; sibling back ends Diffrax/Assimulo are reported as INFO only (optional dependencies not installed, unconfirmed).",
    "DESIGN.md section 4 C04, Appendix A.2",
)
CLAIMS["C14"] = (
    "structural ordering checks on make_protocol and the two protocol runners + the ABS/REL/DUR time-qualifier dataflow shared with C04",
    "Decides for every protocol layout and time grid: (Q1) steps are keyed by the cumulative time including the step; (Q2) each loop iteration applies the row's values unconditionally before simulating it, t_start is taken once and all time arithmetic type-checks; "
    "(Q3) the time-course form shifts the index to absolute time, applies the relative flag only to requested points, outer-joins boundaries and selects the half-open interval (t_start, t_end] before advancing. "
    "These fix which parameter values govern which absolute interval; the dynamics inside a step are not decided.",
    "Trusts pandas Index.join(how='outer') and iterrows order; continuing after update_variables inherits C04's T1 (now fixed).",
    "DESIGN.md section 4 C14",
)
CLAIMS["C19"] = (
    "publish-idiom classification of the cache's default save function (direct write vs temp+replace) against the load path's protection, plus key/path agreement and cache-forwarding call-site checks",
    "Decides the crash-consistency idiom for EVERY kill instant at once: the path whose existence means 'result available' is only written by write-to-temporary then atomic replace (or the load treats a failed read as a miss) - which fault injection would need one run per byte offset to explore; "
    "and the transparency plumbing: hit test, load and save use one path, the miss path returns exactly what it saves, hit and miss return the input key, the cache directory exists before workers run, and every scan/mc entry forwards its cache argument.",
    "Trusts os.replace/Path.replace atomicity on POSIX; does not execute a kill, does not decide fsync durability or key->filename injectivity.",
    "DESIGN.md section 4 C19",
)
CLAIMS["C10"] = (
    "must-depend dataflow (path-enumerating, with control dependence) on the normaliser, symbolic execution of its row-window arithmetic (sympy), and dominance/shape checks of segment binding, stacking, sign selection and the lazy filler",
    "Decides for every result and every argument shape: (V1) each branch of the normaliser returns a value that depends on the data and the factors, and the per-row branch walks consecutive windows for symbolic segment lengths; "
    "(V2) every model evaluation inside Simulation is preceded by update_parameters of that segment's own parameter record; (V3) concatenated views are pd.concat(list, axis=0) in order; "
    "(V4) producers/consumers select strictly positive/negative coefficients and scale by (minus) the coefficient; (V5) views go through one fill-at-most-once filler with one table per segment. "
    "These are the structural halves of 'values under the segment's parameters', 'concat = stack' and 'normalisation divides by what was supplied'; the numerical identities are not decided.",
    "Trusts pandas broadcasting in the divisions and that Model.update_parameters invalidates the model cache (C03).",
    "DESIGN.md section 4 C10",
)
CLAIMS["C18"] = (
    "saved/perturbed/restored typestate by path-enumerating abstract interpretation (with None-correlation) over every routine of mca.py that takes the model, plus sympy canonicalisation of the extracted difference quotients",
    "Decides for all inputs: (M1) on every normal exit of variable_elasticities, parameter_elasticities, the response-coefficient worker and response_coefficients every write to the caller's model has been undone with a value saved before the perturbation (or was made on a private copy); "
    "(M2) each coefficient expression equals (f(x(1+d)) - f(x(1-d)))/(2 d x) after canonicalisation, upper/lower are evaluated at the +/- displacement, and the scaled variant multiplies by x/f(unperturbed) under the flag; "
    "(M3) one worker partial serves both execution modes with every option forwarded and results keyed by parameter. The 'model left untouched' and 'sequential = parallel' clauses are thereby decided structurally; numeric agreement with analytic sensitivities is not.",
    "Trusts Model.update_variables to restore Variable objects; exceptional exits (a failing steady state raising) are not required to restore.",
    "DESIGN.md section 4 C18",
)
CLAIMS["C16"] = (
    "index-role classification (gather vs scatter) of the two label-map readers, located by role, plus sympy canonicalisation of the per-position transfer terms",
    "Decides the direction clause the statement itself names, for ALL maps at once: the function LinearLabelMapper.build_model applies to the substrate positions and LabelMapper's reader both use map elements as load indices into the substrate sequence (gather = the documented reading), "
    "which identity/reversal-map tests cannot distinguish from the inverse; additionally the shape of the per-position label transfer (rate = label*flux, -1/pool and +1/pool coefficients, EXT padding at the end). "
    "It does not decide the equality of the two models' rates of change, stationarity of uniform enrichment or absence of spontaneous label.",
    "Documented direction taken from docs/label-models.ipynb; readers with unrecognised shapes give exit 2.",
    "DESIGN.md section 4 C16, Appendix A.4",
)
CLAIMS["C05"] = (
    "dominance and loop-shape checks on the isotopomer reaction generator, index-role classification of its map reader, unit-step check of the stoichiometry repacker",
    "A deliberately thin structural slice: (L1) the short-map rejection dominates reaction creation; (L2) the pattern loop ranges over the full {0,1}^n product with exactly one uniquely named add_reaction per pattern and no filter; "
    "(L3) the map is read as gather; (L4) each substrate/product occurrence changes its coefficient by -1/+1; (L5) external positions are appended, labelled, before mapping. These are necessary conditions of 'exactly one isotopomer reaction per pattern', "
    "'one isotopomer per unit of base stoichiometry', 'position i gets the label of the position the map names' and 'a short map is rejected'. The algebraic identities (totals, atom conservation, collapse to the base dynamics) are NOT decided - no structural surrogate exists for them.",
    "Trusts itertools.product; initial label placement and derived totals in LabelMapper.build_model are not analysed.",
    "DESIGN.md section 4 C05",
)
CLAIMS["C20"] = (
    "abstract interpretation of every exported loss over the domain (sign, zero-at-equality, growth in the prediction), plus structural checks of the copy discipline of all 17 fit routines, the three residuals and the standard-scaling map",
    "Decides: (L1) for all prediction/data pairs at once, which shipped losses are provably >= 0 and 0 at prediction == data (5 of 7) and which provably are not (mean: signed, unbounded below; cosine_similarity: -|pred||true| rewards size) - both recorded as known findings; "
    "(L2) as_deepcopy defaults to True in every public fit routine and the model reaching the residual settings is the copy (or the flag is forwarded); (L3) residuals apply the candidate values before simulating, evaluate the loss on the data's columns, and map failure to +inf; "
    "(L4) standard scaling applies the same affine map to data and prediction. Optimiser outcomes ('never worse than the start', reported = recomputed loss) are not decided.",
    "Abstract transfer functions assume numpy semantics; a loss outside the domain is reported as INFO without a verdict.",
    "DESIGN.md section 4 C20, Appendix A.5",
)
CLAIMS["C09"] = (
    "escape/mutation analysis of the row wrapper (located by role as the callable every scan and Monte-Carlo entry partial-s into parallelise), call-site shape checks of all 13 entries, order analysis of both execution paths, worker exit-shape check",
    "Decides schedule-independence structurally instead of by sampling schedules: (P1) the wrapper that applies a row's values mutates only a private deep copy made before the first mutation, so the lazily evaluated result of row i can never observe row j's values - in sequential mode, where all rows otherwise share one object, or any other; "
    "(P1b) every scan.* / mc.* entry routes rows through that wrapper over list(table.iterrows()); (P2) both paths of parallelise consume results in input order and containers are built in row order; (P3) the consumer appends one result per input and no entry passes a timeout (the only dropping path); "
    "(P4) every worker exits through Result.default(NaN Simulation). Equality with an independent simulation and the placeholder's full shape are not decided.",
    "Trusts pebble.ProcessPool.map ordering and deepcopy independence.",
    "DESIGN.md section 4 C09",
)
CLAIMS["C15"] = (
    "guard-dominates-return and exit-shape checks on integrate_to_steady_state, plus error-channel plumbing checks (handler, get_result order, Result.default, exception classes)",
    "Decides the failure half of the property for all models: (Z1) a course is returned as steady state only under the dominating test norm(change between consecutive iterates) < tolerance, the iterate and time advance every step, and exhausting the step budget ends in Result(NoSteadyState()); "
    "(Z2) that failure value reaches Simulator._errors, get_result returns the first error before any frame, Result.default substitutes exactly for exception values, and the failure values are exceptions. "
    "So absence of a steady state can never be presented as a state. That the criterion implies stationarity, and agreement with analytic steady states, are not decided.",
    "Sibling back ends Diffrax/Assimulo are analysed in the thorough tier and reported as INFO (not installed, unconfirmed).",
    "DESIGN.md section 4 C15",
)
CLAIMS["C13"] = (
    "shape and provenance checks of the cache builder's single evaluation pass and of its static/dynamic classification loop (order provenance from the sorter, quantifier of the closure predicate), plus the complementary partition and the simulator default",
    "Decides for all models: (N1) initial assignments of variables and parameters are sorted and evaluated in exactly one pass, in the sorter's order, over plain parameters | plain initial values | data | time = 0.0, and initial conditions are read from that pass; "
    "(N2) classification follows the sorter's order, a derived quantity is static iff ALL arguments are in the growing parameter closure, reactions/surrogates are always dynamic, assignment-defined values static, and computed coefficients are frozen by the same predicate; "
    "(N3) frozen values = plain parameters + statics from that pass and queries recompute exactly the dynamic order; (N4) derived parameters/variables are complementary; (N5) Simulator defaults to the resolved initial conditions. Values themselves are not decided.",
    "Relies on the sorter returning a topological order (C02). Several rules match the cache builder's statement shapes; an unrecognised refactoring is reported rather than silently passed.",
    "DESIGN.md section 4 C13",
)
CLAIMS["C01"] = (
    "extraction and normal-form comparison of the accumulation terms of the two right-hand-side assemblers (sibling agreement against a specification), order/length provenance checks, must-depend dataflow and call-graph reachability of the query entry points",
    "Decides the assembly STRUCTURE for all models and states, not the numbers: (A1) Model.__call__ and Model._get_right_hand_side both accumulate dxdt[cpd] += coef*values[flux] over the static table and over the dynamic table with the coefficient evaluated on the same value mapping that holds the fluxes, into a zero vector over all variables, at the supplied state and time; "
    "(A2) the returned vector, the positional pairing, the integrator's y0 tuple and output column labels follow the declaration order of the variables with full length; (A3) _get_args builds frozen parameters | variables | data with the supplied time and evaluates every dynamic name in cached order; "
    "(A4) the stoichiometry tables are filled from every reaction and surrogate entry; (A5) flux queries request the same classes, every entry point evaluates through _get_args, component classes compute fn(*(values[a] for a in args)). Hence all entry points compute the same sum by construction; numerical equality and user-function semantics are not decided.",
    "Assumes the cached evaluation order is topological (C02/C13) and dict/zip(strict) semantics.",
    "DESIGN.md section 4 C01",
)
CLAIMS["C06"] = (
    "dispatcher/handler extraction over the translator (isinstance chains and match statements: handled kinds, what the default branch does, which node fields are consumed), alias analysis of the context argument across branch translations, table vetting against a reference, and None-visibility analysis of all fn_to_sympy call sites",
    "Decides the translator's refusal discipline and structural soundness conditions for ALL function bodies: (S1) every dispatcher default (statements, expressions, operators, callee shapes, comparison operators) refuses, only effect-free statements are passed over; (S2) list-valued node fields (comparison links, call keywords/starred, assignment targets, tuple targets) are consumed or refused; "
    "(S3) ==/!= build sympy.Eq/Ne; (S4) alternative branches get distinct fresh symbol tables; (S5) a non-returning branch continues into the following statements and the last-assignment fallback never supplies a branch value; (S6) argument renaming is simultaneous; (S7) 90 table entries vetted against a reference; "
    "(S8) only declared refusal exceptions become None and every claimed call site tests for None; (S9) tuple assignment evaluates before binding. Semantic equality of the handled constructs (Piecewise/Mod/// vs CPython, boundaries) is not decided.",
    "Reference table of Python->sympy meanings is the trusted base (one reason per non-obvious entry); unknown keys are INFO, never alarms. Name resolution through runtime introspection is not analysed.",
    "DESIGN.md section 4 C06",
)
CLAIMS["C12"] = (
    "order-provenance check of the symbol-defining loop, call-site/signature agreement for all 21 fn_to_sympy calls (resolved over the whole package), lookup-totality and order check of the equation list, typed structure check of the lambdify contract using the Model's field and return annotations, and subset check of the shipped rate-law library against the kinds extracted from the translator",
    "Decides for all models and declaration orders: (Y1) symbols consumed by later iterations are defined while iterating the cached topological order, reactions included; (Y2) every fn_to_sympy call matches its signature (catches the misplaced parenthesis); (Y3) one equation per variable in declaration order with a total lookup; "
    "(Y4) the Jacobian differentiates by the variable symbols in that order; (Y5) the lambdified Jacobian is called with (t, x, values) where names and values come from the same dict[str, float] mapping; (Y6) conversion failure in the simulator warns and falls back; (Y7) all 20 shipped rate laws lie in the translator's handled subset; (Y8) untranslatable pieces raise. "
    "Numerical agreement of symbolic and numeric right-hand sides / trajectories is not decided.",
    "Builds on C06 for the translator; parameters defined by initial assignments are outside the symbolic export (conversion raises).",
    "DESIGN.md section 4 C12",
)
CLAIMS["C07"] = (
    "order-provenance check of the emission loop, coverage check of the emitted parameter classes, filter detection on the return list, string.Formatter field analysis of every back end's templates, ast-parse of the instantiated Python templates, None-visibility at the translation call sites, sibling agreement of the four back ends on free parameters",
    "Decides for all models: (G1) assignments for derived quantities and reactions are emitted in one pass over the cached dependency order, sums after them; (G2) initial-assignment parameters are emitted; (G3) whether the returned list has one entry per variable in declaration order - it does not (variables without reactions are dropped; '()' for no reactions): known findings frozen by golden-string tests; "
    "(G4) each template consumes the fields it is given - the Julia assignment template drops {k}: known finding; (G5) Python unpack/return templates are tuple patterns for n = 1; (G6) untranslatable functions raise; (G7) all four back ends forward and declare free parameters. "
    "Numeric equivalence of the generated code and syntax of the TS/Rust/Julia output beyond template fields are not decided (no parser for those languages in this family).",
    "Trusts sympy's code printers. Three genuine defects remain as known findings because the repository's own golden tests pin the defective output.",
    "DESIGN.md section 4 C07",
)
CLAIMS["C11"] = (
    "key-uniqueness dependence analysis of every store into the emitted-definitions table (collision guard or component-dependent key), parsing of the emitted f-string templates (placeholders substituted) against the real builder/dataclass signatures, None-visibility at the translation call site, emission-completeness checks",
    "Decides for all models and all assignments of functions to components: (K1) a definition is stored only behind a collision test that keeps it when it is the same function up to argument names and otherwise renames it, and every emitted builder call interpolates the registered name - so same-named different functions cannot overwrite each other; "
    "(K2) every emitted builder/constructor call uses keyword names the real signature has and the header imports the constructors used; (K3) an untranslatable function raises; (K4) all four component kinds are translated and emitted unfiltered. Behavioural equality of the rebuilt model is not decided.",
    "Unit expressions printed by sympy may contain names the header does not import (not decidable statically from the templates).",
    "DESIGN.md section 4 C11, Appendix A.6",
)
CLAIMS["C08"] = (
    "dispatcher/handler extraction over the AST->MathML converters, typestate check of created ASTNodes (payload before return), taint-style identifier discipline on all id sinks, sign analysis of the reactant/product choice, operator-table vetting against a MathML reference, and API-existence checks against libsbml's class dictionary (read as a type environment only)",
    "Decides the EXPORTER half structurally for all models and expression trees: (E1) every converter default raises, comparison chains/call arity/keywords are consumed or refused, multi-statement bodies are refused; (E2) name/real nodes get their payload and no nameless generic function node exists; (E3) every id reaching setId/setSpecies/setSymbol/setVariable passes the converter with the prefix of the entity it denotes; "
    "(E4) numeric coefficients are reactants iff negative with abs(), computed ones go to the value-preserving side; (E5) 27 operator-table and 14 operator-case entries carry their MathML meaning and arity; (E6) 60+ libsbml method calls exist on the class their factory returns. "
    "What pysbml reads back, name un-escaping on import and numeric fidelity are not decided. One known finding remains: names inside formulas are not converted like the ids they refer to.",
    "libsbml is imported only to read its class dictionary; no MxlPy code runs. Reference table of MathML meanings is the trusted base.",
    "DESIGN.md section 4 C08",
)
CLAIMS["C17"] = (
    "key-uniqueness dependence analysis of the generated module's name and file path (expansion through local definitions back to the document path/content), agreement check of definition and call argument lists across the import/codegen boundary, exhaustiveness of the stoichiometry transform, write-before-import ordering",
    "A thin structural slice of the import path: (U1) the module key and file name depend on the document's resolved path/content, so two documents read in one session cannot overwrite each other's generated source - the 'do not interfere' clause; (U2) every generated function is defined and called with the same argument-list expression (free symbols of its own expression; def parameters = that list); "
    "(U4) every stoichiometry shape (number, symbol, expression) is carried over; (U5) the source is written and closed before the module is executed and the model comes from that module. Fidelity of the equations to the document rests on pysbml and is NOT decided; silently skipped initial assignments on other targets are reported as INFO only.",
    "pysbml's transformation is outside the analysed code; digest injectivity is assumed.",
    "DESIGN.md section 4 C17, Appendix A.6",
)
