# pid -> (technique, level text, level note, design_ref); exec'd by gen_manifest.py
CLAIMS["C03"] = (
    "path-enumerating abstract interpretation of every public Model mutator (membership facts + cache typestate, self-calls and decorators inlined)",
    "Decides, for every public Model method that writes a field the cache builder reads (set computed from _create_cache), on every path: "
    "(I1) the memoised cache is None or rebuilt after the last write at each normal exit; (I2/I2b) no rejection point that can still fire follows a write; "
    "(I3) container stores/removals are paired with the shared name-space update. These are necessary conditions of 'answers depend only on current content' "
    "and 'a rejected edit changes nothing' for ALL edit histories, which the one-mutator-on-a-fresh-model tests never reach. It does not decide that a fresh cache computes correct numbers.",
    "Assumes the class invariant keys(content) <= keys(_ids) at method entry, that dataclass constructors/logging do not raise, and that content is only edited through Model's public mutators. "
    "Residual genuine defects (bulk edits apply partially; add/update_surrogate and make_parameter_dynamic reject after writing) are listed in known_findings.json.",
    "DESIGN.md section 4 C03, Appendix A.1",
)
