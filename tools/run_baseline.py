"""Run the baseline suite inside a scratch worktree and compare with /root/.vp/BASELINE.json stable_pass.

usage: /venv/bin/python tools/run_baseline.py <worktree> [-n JOBS]
Prints "regressions=<n> ..." first; exit 0 iff every stable_pass test passed in the worktree.
"""
import json, subprocess, sys, tempfile, os, xml.etree.ElementTree as ET
wt = sys.argv[1]
jobs = sys.argv[3] if sys.argv[2:3] == ["-n"] else "8"
want = set(json.load(open("/root/.vp/BASELINE.json"))["stable_pass"])
with tempfile.TemporaryDirectory() as d:
    xml = os.path.join(d, "j.xml")
    cmd = ["/venv/bin/python", "-m", "pytest", "-q", "-p", "no:cacheprovider", "--timeout=900",
           "--continue-on-collection-errors", f"--junitxml={xml}", "-n", jobs]
    r = subprocess.run(cmd, cwd=wt, capture_output=True, text=True, env=dict(os.environ, PYTHONPATH=os.path.join(wt, "src")))
    passed = set()
    for tc in ET.parse(xml).getroot().iter("testcase"):
        if not any(c.tag in ("failure", "error", "skipped") for c in tc):
            passed.add(f"{tc.get('classname')}::{tc.get('name')}")
missing = sorted(want - passed)
print(f"regressions={len(missing)} stable_pass={len(want)} passed_of_those={len(want & passed)}")
for m in missing[:20]:
    print("  REGRESSION", m)
sys.exit(1 if missing else 0)
