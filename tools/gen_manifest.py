"""Regenerate /verif/MANIFEST.json from the table below (run by hand after adding a check)."""
import json
import sys
from pathlib import Path

V = Path(__file__).resolve().parent.parent
sys.path.insert(0, str(V))
ids = [json.loads(l)["id"] for l in open(V / "properties.jsonl")]

# pid -> (technique, level text, level note, design_ref)
CLAIMS: dict[str, tuple[str, str, str, str]] = {}
NA: dict[str, str] = {}

exec(open(V / "tools" / "claims.py").read())

checks = []
for pid in ids:
    if pid not in CLAIMS:
        continue
    tech, text, note, ref = CLAIMS[pid]
    checks.append(
        {
            "property_id": pid,
            "quick_cmd": f"./vcheck {pid} --tier quick",
            "thorough_cmd": f"./vcheck {pid} --tier thorough",
            "evidence_file": f"/verif/evidence/{pid}.json",
            "replay_cmd_template": f"./vcheck {pid} --replay {{path}}",
            "engine": "mxverif",
            "level_claimed": {"category": "other", "text": text, "design_ref": ref},
            "level_note": note,
            "technique": tech,
        }
    )
m = {
    "version": 1,
    "setup_cmd": "./setup.sh",
    "hooks": {
        "guard": "MXLPY_VERIF",
        "enable": "none needed: every check is a static analysis of /repo's working tree; no hook or instrumentation exists in /repo",
        "baseline_off_cmd": "cd /repo && /venv/bin/python -m pytest -ra -q -p no:cacheprovider --timeout=900 --continue-on-collection-errors",
        "source_commits": [],
        "add_only": True,
    },
    "engines": [
        {
            "name": "mxverif",
            "path": "/verif/mxverif",
            "serves_properties": [c["property_id"] for c in checks],
            "kind_free_text": "repository-specific static analysers over Python ASTs: program index, path-enumerating "
            "abstract interpreter, qualifier dataflow, dispatcher/handler extraction, expression canonicalisation; "
            "in-memory seeded-variant sweep validates each checker",
        }
    ],
    "checks": checks,
    "notes": "All checks are static (ast-level) analyses run under /venv/bin/python (3.12, needed to parse PEP 695 syntax). "
    "Exit 0/1/2 = holds-or-known / new violation / analysis error. Known findings: /verif/known_findings.json. See DESIGN.md.",
    "not_applicable": [
        {"property_id": p, "reason": NA.get(p, "check not yet built (under construction, see DESIGN.md section 8); no claim made")}
        for p in ids
        if p not in CLAIMS
    ],
}
(V / "MANIFEST.json").write_text(json.dumps(m, indent=1) + "\n")
import jsonschema

jsonschema.validate(m, json.load(open("/root/.vp/MANIFEST.schema.json")))
print("claimed", [c["property_id"] for c in checks], "n/a", [e["property_id"] for e in m["not_applicable"]])
