"""Regenerate /verif/MANIFEST.json from the table below (run by hand after adding a check)."""
import json
import sys
from pathlib import Path

V = Path(__file__).resolve().parent.parent
sys.path.insert(0, str(V))
ids = [json.loads(l)["id"] for l in open(V / "properties.jsonl")]

# pid -> (technique, level text, level note, design_ref)
CLAIMS: dict[str, tuple[str, str, str, str]] = {}
NA: dict[str, str] = {}

exec(open(V / "tools" / "claims.py").read())

import importlib
import re

from mxverif.core import Check

ROBUST = (" Rules are evaluated on a semantics-preserving normal form of the source (helpers that are new relative to the pinned tree are "
          "inlined, read-only aliases propagated, no-ops dropped) and mostly on per-path summaries (forward expression propagation), so that "
          "renaming, re-staging, extracting helpers, match/isinstance/table dispatch and loop/comprehension variants read alike "
          "(DESIGN.md section 11; 204 independent behaviour-preserving refactors pass). A shape outside what a rule recognises yields "
          "exit 2 naming the function; an exotic equivalent formulation can still draw a false alarm (section 11.3).")

checks = []
for pid in ids:
    if pid not in CLAIMS:
        continue
    tech, text, note, ref = CLAIMS[pid]
    mod = importlib.import_module(f"mxverif.checks.{pid.lower()}")
    cls = next(v for v in vars(mod).values() if isinstance(v, type) and issubclass(v, Check) and v is not Check and getattr(v, "pid", "") == pid)
    rule_ids = sorted(cls.rules, key=lambda r: (re.sub(r"\d+", "", r), int(re.sub(r"\D", "", r) or 0)))
    text = text + " Rule identifiers in this check: " + ", ".join(rule_ids) + " (each stated in DESIGN.md section 9 and in the evidence file; rules added after this summary was written are listed there)."
    note = note + ROBUST
    ref = ref + ", sections 9-11"
    checks.append(
        {
            "property_id": pid,
            "quick_cmd": f"./vcheck {pid} --tier quick",
            "thorough_cmd": f"./vcheck {pid} --tier thorough",
            "evidence_file": f"/verif/evidence/{pid}.json",
            "replay_cmd_template": f"./vcheck {pid} --replay {{path}}",
            "engine": "mxverif",
            "level_claimed": {"category": "other", "text": text, "design_ref": ref},
            "level_note": note,
            "technique": tech,
        }
    )
m = {
    "version": 1,
    "setup_cmd": "./setup.sh",
    "hooks": {
        "guard": "MXLPY_VERIF",
        "enable": "none needed: every check is a static analysis of /repo's working tree; no hook or instrumentation exists in /repo",
        "baseline_off_cmd": "cd /repo && /venv/bin/python -m pytest -ra -q -p no:cacheprovider --timeout=900 --continue-on-collection-errors",
        "source_commits": [],
        "add_only": True,
    },
    "engines": [
        {
            "name": "mxverif",
            "path": "/verif/mxverif",
            "serves_properties": [c["property_id"] for c in checks],
            "kind_free_text": "repository-specific static analysers over Python ASTs: program index, semantics-preserving normal form "
            "(new-helper inlining, alias propagation), path-enumerating abstract interpreter with per-path summaries (forward expression "
            "propagation, no solver), qualifier dataflow, block abstraction, dispatcher/operator-table extraction, canonicalisation of "
            "extracted arithmetic with sympy; an in-memory seeded-variant sweep validates each checker on every run",
        }
    ],
    "checks": checks,
    "notes": "All checks are static (ast-level) analyses run under /venv/bin/python (3.12, needed to parse PEP 695 syntax). "
    "Exit 0/1/2 = holds-or-known / new violation / analysis error. Known findings: /verif/known_findings.json. See DESIGN.md.",
    "not_applicable": [
        {"property_id": p, "reason": NA.get(p, "check not yet built (under construction, see DESIGN.md section 8); no claim made")}
        for p in ids
        if p not in CLAIMS
    ],
}
(V / "MANIFEST.json").write_text(json.dumps(m, indent=1) + "\n")
import jsonschema

jsonschema.validate(m, json.load(open("/root/.vp/MANIFEST.schema.json")))
print("claimed", [c["property_id"] for c in checks], "n/a", [e["property_id"] for e in m["not_applicable"]])
