"""Syntactic mutation sweep over the functions a checker analyses (by hand; gap finding, not a registered check).

For property Cxx: take the functions named in the checker's obligations (module:function), generate first-order mutants of the RAW
source of each function (comparison flips, arithmetic swaps, boolean negation of tests, constant tweaks, statement deletion,
argument swaps), and run the checker's quick rules on each mutant IN MEMORY (Program overrides; /repo is not touched).
Outcome per mutant: killed (new violation), refused (new undecided / analysis error), survived.
Survivors are the interesting ones: with --tests the focused test files given are run against each survivor in a scratch worktree
to drop those the repository's own tests already catch.  What remains has to be read by a human: equivalent mutant, irrelevant to
the property, or a rule gap.
usage: /venv/bin/python tools/mutation_sweep.py Cxx [--max N] [--only module:function] [--out FILE]
"""
from __future__ import annotations

import ast
import copy
import importlib
import json
import sys
from concurrent.futures import ProcessPoolExecutor
from pathlib import Path

V = Path("/verif")
sys.path.insert(0, str(V))
from mxverif.core import UNDECIDED, VIOLATED, AnalysisError, Check, Program  # noqa: E402

CMP = {ast.Lt: ast.LtE, ast.LtE: ast.Lt, ast.Gt: ast.GtE, ast.GtE: ast.Gt, ast.Eq: ast.NotEq, ast.NotEq: ast.Eq, ast.In: ast.NotIn, ast.NotIn: ast.In,
       ast.Is: ast.IsNot, ast.IsNot: ast.Is}
BIN = {ast.Add: ast.Sub, ast.Sub: ast.Add, ast.Mult: ast.Div, ast.Div: ast.Mult, ast.BitOr: ast.BitAnd}


def checker(pid: str):
    mod = importlib.import_module(f"mxverif.checks.{pid.lower()}")
    return next(v for v in vars(mod).values() if isinstance(v, type) and issubclass(v, Check) and v is not Check and getattr(v, "pid", "") == pid)


def find_fn(tree: ast.Module, qual: str):
    parts = qual.split(".")
    body = tree.body
    node = None
    for p in parts:
        node = None
        stack = list(body)
        while stack:
            n = stack.pop(0)
            if isinstance(n, (ast.FunctionDef, ast.ClassDef, ast.AsyncFunctionDef)) and n.name == p:
                node = n
                break
            if isinstance(n, ast.If):
                stack = list(n.body) + list(n.orelse) + stack
        if node is None:
            return None
        body = node.body
    return node if isinstance(node, (ast.FunctionDef, ast.AsyncFunctionDef)) else None


def mutants(fn: ast.FunctionDef):
    """Yield (description, mutated function AST)."""
    nodes = list(ast.walk(fn))
    ann = set()  # annotations are not behaviour
    for n in nodes:
        roots = []
        if isinstance(n, ast.arg) and n.annotation is not None:
            roots.append(n.annotation)
        if isinstance(n, (ast.FunctionDef, ast.AsyncFunctionDef)) and n.returns is not None:
            roots.append(n.returns)
        if isinstance(n, ast.AnnAssign):
            roots.append(n.annotation)
        if isinstance(n, ast.Call) and isinstance(n.func, ast.Name) and n.func.id == "cast" and n.args:
            roots.append(n.args[0])
        for r in roots:
            ann.update(id(x) for x in ast.walk(r))
    for i, n in enumerate(nodes):
        if id(n) in ann or (isinstance(n, ast.Call) and isinstance(n.func, ast.Name) and n.func.id == "cast"):
            continue
        if isinstance(n, ast.Compare) and len(n.ops) == 1 and type(n.ops[0]) in CMP:
            m = copy.deepcopy(fn)
            t = list(ast.walk(m))[i]
            t.ops = [CMP[type(n.ops[0])]()]
            yield f"L{n.lineno} cmp {type(n.ops[0]).__name__}->{CMP[type(n.ops[0])].__name__}: {ast.unparse(n)[:60]}", m
        if isinstance(n, ast.BinOp) and type(n.op) in BIN:
            m = copy.deepcopy(fn)
            t = list(ast.walk(m))[i]
            t.op = BIN[type(n.op)]()
            yield f"L{n.lineno} binop {type(n.op).__name__}->{BIN[type(n.op)].__name__}: {ast.unparse(n)[:60]}", m
        if isinstance(n, ast.AugAssign) and type(n.op) in BIN:
            m = copy.deepcopy(fn)
            t = list(ast.walk(m))[i]
            t.op = BIN[type(n.op)]()
            yield f"L{n.lineno} augop {type(n.op).__name__}->{BIN[type(n.op)].__name__}: {ast.unparse(n)[:60]}", m
        if isinstance(n, (ast.If, ast.While, ast.IfExp)) and not isinstance(n.test, ast.Constant):
            m = copy.deepcopy(fn)
            t = list(ast.walk(m))[i]
            t.test = ast.UnaryOp(op=ast.Not(), operand=t.test)
            yield f"L{n.lineno} negate test: {ast.unparse(n.test)[:60]}", m
        if isinstance(n, ast.Constant) and isinstance(n.value, bool):
            m = copy.deepcopy(fn)
            t = list(ast.walk(m))[i]
            t.value = not n.value
            yield f"L{n.lineno} const {n.value}->{not n.value}", m
        if isinstance(n, ast.Constant) and isinstance(n.value, int) and not isinstance(n.value, bool) and n.value in (0, 1, -1, 2):
            m = copy.deepcopy(fn)
            t = list(ast.walk(m))[i]
            t.value = n.value + 1
            yield f"L{n.lineno} const {n.value}->{n.value + 1}", m
        if isinstance(n, ast.Call) and len(n.args) == 2 and not n.keywords and not any(isinstance(a, ast.Starred) for a in n.args):
            m = copy.deepcopy(fn)
            t = list(ast.walk(m))[i]
            t.args = [t.args[1], t.args[0]]
            yield f"L{n.lineno} swap args: {ast.unparse(n)[:60]}", m
        if isinstance(n, ast.Subscript) and isinstance(n.slice, ast.UnaryOp) and isinstance(n.slice.op, ast.USub) and isinstance(n.slice.operand, ast.Constant) and n.slice.operand.value == 1:
            m = copy.deepcopy(fn)
            t = list(ast.walk(m))[i]
            t.slice = ast.Constant(value=0)
            yield f"L{n.lineno} index -1->0: {ast.unparse(n)[:60]}", m
    # statement deletion
    def blocks(node):
        for fld in ("body", "orelse", "finalbody"):
            b = getattr(node, fld, None)
            if isinstance(b, list) and b and isinstance(b[0], ast.stmt):
                yield node, fld, b
                for s in b:
                    if not isinstance(s, (ast.FunctionDef, ast.ClassDef)):
                        yield from blocks(s)
        for h in getattr(node, "handlers", []) or []:
            yield from blocks(h)
        for c in getattr(node, "cases", []) or []:
            yield from blocks(c)
    paths = []
    for owner, fld, b in blocks(fn):
        for j, s in enumerate(b):
            if isinstance(s, (ast.Expr, ast.Assign, ast.AugAssign, ast.Raise, ast.Continue, ast.Break)) and not (isinstance(s, ast.Expr) and isinstance(s.value, ast.Constant)):
                paths.append((id(owner), fld, j, s))
    for oid, fld, j, s in paths:
        m = copy.deepcopy(fn)
        # locate the same block in the copy by walking in parallel
        orig_nodes = list(ast.walk(fn))
        new_nodes = list(ast.walk(m))
        k = next(i for i, n in enumerate(orig_nodes) if id(n) == oid)
        b = getattr(new_nodes[k], fld)
        if len(b) == 1:
            b[j] = ast.Pass()
        else:
            del b[j]
        yield f"L{s.lineno} delete: {ast.unparse(s)[:60]}", m


def signature(cls, prog):
    chk = cls(prog, "quick")
    chk.run()
    return ({o.key for o in chk.obs if o.verdict == VIOLATED}, {o.key for o in chk.obs if o.verdict == UNDECIDED})


def run_one(args):
    pid, rel, new_src, base_v, base_u = args
    cls = checker(pid)
    try:
        prog = Program(None, overrides={rel: new_src})
        v, u = signature(cls, prog)
    except AnalysisError as e:
        return "refused", str(e)[:100]
    except Exception as e:  # noqa: BLE001
        return "refused", f"{type(e).__name__}: {e}"[:100]
    nv = v - base_v
    if nv:
        return "killed", sorted(nv)[0][:100]
    if u - base_u:
        return "refused", sorted(u - base_u)[0][:100]
    return "survived", ""


def main():
    pid = sys.argv[1]
    args = sys.argv[2:]
    mx = int(args[args.index("--max") + 1]) if "--max" in args else 100000
    only = args[args.index("--only") + 1] if "--only" in args else None
    out = args[args.index("--out") + 1] if "--out" in args else f"/tmp/w/mutsweep_{pid}.json"
    cls = checker(pid)
    prog = Program(None)
    chk = cls(prog, "quick")
    chk.run()
    base_v = {o.key for o in chk.obs if o.verdict == VIOLATED}
    base_u = {o.key for o in chk.obs if o.verdict == UNDECIDED}
    targets = sorted({(o.module, o.function.split(".<")[0]) for o in chk.obs if o.module.endswith(".py")})
    jobs = []
    meta = []
    for rel, qual in targets:
        if only and f"{rel}:{qual}" != only:
            continue
        if rel not in prog.sources:
            continue
        src = prog.sources[rel]
        tree = ast.parse(src)
        fn = find_fn(tree, qual)
        if fn is None:
            continue
        lines = src.splitlines(keepends=True)
        first = min([fn.lineno] + [d.lineno for d in fn.decorator_list]) - 1
        last = fn.end_lineno
        indent = " " * fn.col_offset
        import textwrap
        n = 0
        for desc, m in mutants(fn):
            if n >= mx:
                break
            try:
                ast.fix_missing_locations(m)
                text = ast.unparse(m)
                ast.parse(text)
            except Exception:  # noqa: BLE001
                continue
            new_src = "".join(lines[:first]) + textwrap.indent(text, indent) + "\n" + "".join(lines[last:])
            jobs.append((pid, rel, new_src, base_v, base_u))
            meta.append((rel, qual, desc, first, last, textwrap.indent(text, indent) + "\n"))
            n += 1
    with ProcessPoolExecutor(14) as ex:
        res = list(ex.map(run_one, jobs, chunksize=4))
    rows = [{"module": m[0], "function": m[1], "mutant": m[2], "outcome": r[0], "detail": r[1], "first": m[3], "last": m[4], "text": m[5]} for m, r in zip(meta, res)]
    if "--all" in args:
        # survivors are shown to every other checker as well (a defect may belong to a sibling property)
        others = [f"C{i:02d}" for i in range(1, 21) if f"C{i:02d}" != pid]
        base = {}
        for o in others:
            try:
                base[o] = signature(checker(o), prog)
            except Exception:  # noqa: BLE001
                base[o] = None
        sj = []
        idx = []
        for i, (r, j) in enumerate(zip(rows, jobs)):
            if r["outcome"] == "survived":
                for o in others:
                    if base[o] is not None:
                        sj.append((o, j[1], j[2], base[o][0], base[o][1]))
                        idx.append((i, o))
        with ProcessPoolExecutor(14) as ex:
            res2 = list(ex.map(run_one, sj, chunksize=4))
        for (i, o), r2 in zip(idx, res2):
            if r2[0] == "killed":
                rows[i].setdefault("killed_by_sibling", []).append(o)
        for r in rows:
            if r["outcome"] == "survived" and r.get("killed_by_sibling"):
                r["outcome"] = "sibling"
    Path(out).parent.mkdir(parents=True, exist_ok=True)
    Path(out).write_text(json.dumps(rows, indent=1))
    tot = len(rows)
    k = sum(1 for r in rows if r["outcome"] == "killed")
    rf = sum(1 for r in rows if r["outcome"] == "refused")
    sb = sum(1 for r in rows if r["outcome"] == "sibling")
    print(f"{pid}: mutants={tot} killed={k} refused={rf} killed-by-sibling-only={sb} survived={tot - k - rf - sb}  -> {out}")
    by = {}
    for r in rows:
        key = f"{r['module']}:{r['function']}"
        by.setdefault(key, [0, 0, 0, 0])
        by[key][{"killed": 0, "refused": 1, "survived": 2, "sibling": 3}[r["outcome"]]] += 1
    for key, (a, b, c, d_) in sorted(by.items()):
        print(f"   {key:70s} killed={a:3d} refused={b:3d} sibling={d_:3d} survived={c:3d}")


if __name__ == "__main__":
    main()
