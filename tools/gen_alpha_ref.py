"""Regenerate mxverif/alpha_ref.json from /repo's current sources (run by hand after the rules were (re)written)."""
import ast, json, sys
sys.path.insert(0, "/verif")
from pathlib import Path
from mxverif.normalise import Cleaner, alpha_hash, walk_functions, REF_PATH
root = Path("/repo/src/mxlpy")
out = {}
for p in sorted(root.rglob("*.py")):
    rel = str(p.relative_to(root))
    tree = Cleaner().visit(ast.parse(p.read_text()))
    ast.fix_missing_locations(tree)
    d = {}
    for qual, fn in walk_functions(tree):
        h, names = alpha_hash(fn)
        if names:
            d[qual] = {"hash": h, "locals": names}
    if d:
        out[rel] = d
REF_PATH.write_text(json.dumps(out, indent=0, sort_keys=True))
print("functions with locals:", sum(len(v) for v in out.values()))
