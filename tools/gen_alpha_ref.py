"""Regenerate mxverif/alpha_ref.json from /repo's current sources (run by hand after the rules were (re)written).

Per module: every function's alpha-hash and local names (for the rename-back step) and `__functions__`, the list of all
function / method names of the reference tree (a private function not in that list is a new helper and is inlined)."""
import ast, json, sys
sys.path.insert(0, "/verif")
from pathlib import Path
from mxverif.normalise import pre_normalise, alpha_hash, walk_functions, REF_PATH
root = Path("/repo/src/mxlpy")
out = {}
for p in sorted(root.rglob("*.py")):
    rel = str(p.relative_to(root))
    tree = pre_normalise(ast.parse(p.read_text()), rel, use_ref=False)
    d = {}
    allf = []
    for qual, fn in walk_functions(tree):
        allf.append(qual)
        h, names = alpha_hash(fn)
        d[qual] = {"hash": h, "locals": names, "decorators": sorted(ast.unparse(x) for x in fn.decorator_list)}
    d["__functions__"] = sorted(allf)
    import hashlib
    d["__module_hash__"] = hashlib.sha1(ast.dump(tree, include_attributes=False).encode()).hexdigest()[:16]
    out[rel] = d
REF_PATH.write_text(json.dumps(out, indent=0, sort_keys=True))
print("functions:", sum(len(v["__functions__"]) for v in out.values()), "with locals:", sum(len(v) - 1 for v in out.values()))
