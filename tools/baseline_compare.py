"""Run the repository's baseline suite and compare with /root/.vp/BASELINE.json stable_pass.

usage: /venv/bin/python tools/baseline_compare.py [-n JOBS] [pytest-select-args...]
Exit 0 iff every stable_pass test (that was selected) passed.
"""
import json, subprocess, sys, tempfile, os, xml.etree.ElementTree as ET
jobs = "16"
args = sys.argv[1:]
if args[:1] == ["-n"]:
    jobs = args[1]; args = args[2:]
base = json.load(open("/root/.vp/BASELINE.json"))
want = set(base["stable_pass"])
with tempfile.TemporaryDirectory() as d:
    xml = os.path.join(d, "j.xml")
    cmd = ["/venv/bin/python", "-m", "pytest", "-q", "-p", "no:cacheprovider", "--timeout=900",
           "--continue-on-collection-errors", f"--junitxml={xml}", "-n", jobs, *args]
    r = subprocess.run(cmd, cwd="/repo", capture_output=True, text=True)
    print(r.stdout[-600:])
    passed = set(); seen = set()
    for tc in ET.parse(xml).getroot().iter("testcase"):
        name = f"{tc.get('classname')}::{tc.get('name')}"
        seen.add(name)
        if not any(c.tag in ("failure", "error", "skipped") for c in tc):
            passed.add(name)
sel = want & seen if args else want
missing = sorted(sel - passed)
print(f"stable_pass={len(want)} selected={len(sel)} passed_of_those={len(sel & passed)} regressions={len(missing)}")
for m in missing[:40]:
    print("  REGRESSION", m)
sys.exit(1 if missing else 0)
