"""Robustness sweep (checker validation, not a registered check).

For every function a checker looked at, apply generic behaviour-preserving rewrites in memory and re-run the checker:
  rename   - every local variable (assigned name / loop target / walrus / comprehension variable, not parameters) gets a suffix
  logging  - a `pass`-like no-op statement (`_ = None`) is inserted as first statement and before every return
  annassign- `x = e` (single Name target) becomes `x: object = e`
A rewrite that produces a NEW violation is a false alarm; one that produces an analysis error / undecided obligation is a refusal.

usage: PYTHONPATH=/verif /venv/bin/python tools/robustness.py [Cxx ...] [--kinds rename,logging,annassign]
"""
from __future__ import annotations

import ast
import builtins
import importlib
import sys
import textwrap
from concurrent.futures import ProcessPoolExecutor

sys.path.insert(0, "/verif")
from mxverif.core import UNDECIDED, VIOLATED, AnalysisError, Program, evaluate  # noqa: E402

ALL = [f"C{i:02d}" for i in range(1, 21)]


class Renamer(ast.NodeTransformer):
    def __init__(self, names):
        self.names = names

    def visit_Name(self, node):
        if node.id in self.names:
            return ast.copy_location(ast.Name(id=node.id + "_rn", ctx=node.ctx), node)
        return node

    def visit_MatchAs(self, node):
        self.generic_visit(node)
        if node.name in self.names:
            node.name = node.name + "_rn"
        return node

    def visit_FunctionDef(self, node):  # do not descend into nested defs (closures share names: rename consistently anyway)
        self.generic_visit(node)
        return node


def local_names(fn: ast.FunctionDef) -> set[str]:
    params = {a.arg for a in fn.args.posonlyargs + fn.args.args + fn.args.kwonlyargs}
    if fn.args.vararg:
        params.add(fn.args.vararg.arg)
    if fn.args.kwarg:
        params.add(fn.args.kwarg.arg)
    out = set()
    for n in ast.walk(fn):
        if isinstance(n, (ast.Lambda, ast.FunctionDef)) and n is not fn:
            params |= {a.arg for a in n.args.posonlyargs + n.args.args + n.args.kwonlyargs}
        if isinstance(n, ast.Name) and isinstance(n.ctx, ast.Store):
            out.add(n.id)
        if isinstance(n, ast.MatchAs) and n.name:
            out.add(n.name)
        if isinstance(n, (ast.Global, ast.Nonlocal)):
            params |= set(n.names)
    return {n for n in out - params if not hasattr(builtins, n) and n != "_"}


def rewrite(fn: ast.FunctionDef, kind: str) -> ast.FunctionDef | None:
    fn = ast.parse(ast.unparse(fn)).body[0]
    if kind == "rename":
        names = local_names(fn)
        if not names:
            return None
        fn = Renamer(names).visit(fn)
    elif kind == "logging":
        noop = ast.parse("_ = None").body[0]

        class Ins(ast.NodeTransformer):
            def visit_Return(self, node):
                return [noop, node]

        fn = Ins().visit(fn)
        body = fn.body
        i = 1 if body and isinstance(body[0], ast.Expr) and isinstance(body[0].value, ast.Constant) and isinstance(body[0].value.value, str) else 0
        body.insert(i, noop)
    elif kind == "annassign":
        changed = False

        class Ann(ast.NodeTransformer):
            def visit_Assign(self, node):
                nonlocal changed
                if len(node.targets) == 1 and isinstance(node.targets[0], ast.Name):
                    changed = True
                    return ast.AnnAssign(target=node.targets[0], annotation=ast.Name(id="object", ctx=ast.Load()), value=node.value, simple=1)
                return node

        fn = Ann().visit(fn)
        if not changed:
            return None
    ast.fix_missing_locations(fn)
    return fn


def splice(prog: Program, rel: str, qual: str, newfn: ast.FunctionDef) -> Program:
    mod = prog.module(rel)
    fn = mod.func(qual)
    lines = mod.source.splitlines(keepends=True)
    first = min([fn.lineno] + [d.lineno for d in fn.decorator_list]) - 1
    last = fn.end_lineno
    text = textwrap.indent(ast.unparse(newfn), " " * fn.col_offset) + "\n"
    return prog.with_override(rel, "".join(lines[:first]) + text + "".join(lines[last:]))


def signature(cls, prog):
    chk = cls(prog, "quick")
    evaluate(chk)
    return ({o.key for o in chk.obs if o.verdict == VIOLATED}, {o.key for o in chk.obs if o.verdict == UNDECIDED}, sorted(chk.functions_analysed))


def one(args):
    pid, rel, qual, kind, base_v, base_u = args
    cls = importlib.import_module(f"mxverif.checks.{pid.lower()}").CHECK
    try:
        prog = Program()
        mod = prog.module(rel)
        if not mod.has_func(qual):
            return (pid, rel, qual, kind, "n/a", "")
        new = rewrite(mod.func(qual), kind)
        if new is None:
            return (pid, rel, qual, kind, "n/a", "")
        p2 = splice(prog, rel, qual, new)
        try:
            v, u, _ = signature(cls, p2)
        except AnalysisError as e:
            return (pid, rel, qual, kind, "REFUSED", str(e)[:150])
        if v - base_v:
            return (pid, rel, qual, kind, "FALSE-ALARM", str(sorted(v - base_v))[:200])
        if u - base_u:
            return (pid, rel, qual, kind, "REFUSED", "undecided: " + str(sorted(u - base_u))[:150])
        return (pid, rel, qual, kind, "ok", "")
    except Exception as e:  # noqa: BLE001
        return (pid, rel, qual, kind, "ERROR", f"{type(e).__name__}: {e}"[:200])


def main():
    args = [a for a in sys.argv[1:] if not a.startswith("--")]
    kinds = ["rename", "logging", "annassign"]
    for a in sys.argv[1:]:
        if a.startswith("--kinds"):
            kinds = a.split("=", 1)[1].split(",")
    pids = args or ALL
    jobs = []
    for pid in pids:
        cls = importlib.import_module(f"mxverif.checks.{pid.lower()}").CHECK
        v, u, fns = signature(cls, Program())
        for f in fns:
            rel, qual = f.split(":", 1)
            for k in kinds:
                jobs.append((pid, rel, qual, k, v, u))
    with ProcessPoolExecutor(max_workers=6) as ex:
        res = list(ex.map(one, jobs, chunksize=4))
    tally = {}
    for r in res:
        tally[(r[0], r[3], r[4])] = tally.get((r[0], r[3], r[4]), 0) + 1
        if r[4] not in ("ok", "n/a"):
            print(f"{r[4]:12s} {r[0]} {r[3]:9s} {r[1]}:{r[2]}  {r[5]}")
    print("---- summary (property, rewrite, outcome): count")
    for k in sorted(tally):
        print(" ", k, tally[k])


if __name__ == "__main__":
    main()
