"""Second stage of the mutation sweep (by hand; gap finding, not a registered check): which surviving mutants do the repository's
own tests catch?

Reads /tmp/w/mutsweep_<Cxx>.json written by tools/mutation_sweep.py, takes the rows no checker reported (outcome "survived"),
writes each mutant into a scratch git worktree of /repo (under a temporary directory, removed afterwards), runs the stable part of the
repository's test suite against it (tests/sbml/test_import.py only for mutants of the sbml package - it is four minutes of CPU), and
marks the row "tests" when a stable_pass test of /root/.vp/BASELINE.json no longer passes.  What is left ("alive") compiles, passes
the stable tests and is silent in all twenty checkers: an equivalent mutant, a change no property speaks about, or a rule gap - to be
read by a human.  This is the only tool in /verif that runs repository code, and it is not part of any check.
usage: /venv/bin/python tools/mutation_tests.py Cxx [-j N]
"""
import json
import os
import subprocess
import sys
import tempfile
import threading
import xml.etree.ElementTree as ET
from concurrent.futures import ThreadPoolExecutor
from pathlib import Path


def sh(cmd, **kw):
    return subprocess.run(cmd, capture_output=True, text=True, **kw)


pid = sys.argv[1]
jobs = int(sys.argv[sys.argv.index("-j") + 1]) if "-j" in sys.argv else 4
path = Path(f"/tmp/w/mutsweep_{pid}.json")
rows = json.loads(path.read_text())
_base = json.load(open("/root/.vp/BASELINE.json"))
stable = set(_base["stable_pass"])
ALWAYS_FAIL_OUTSIDE_IMPORT = [t for t in _base["always_fail"] if "test_import" not in t]
CACHE = Path("/tmp/w/muttests_cache.json")
cache = json.loads(CACHE.read_text()) if CACHE.exists() else {}
head = sh(["git", "-C", "/repo", "rev-parse", "HEAD"]).stdout.strip()
tmp = Path(tempfile.mkdtemp(prefix="mxverif-muttests-"))
pool = []
for i in range(jobs):
    wt = tmp / f"w{i}"
    r = sh(["git", "-C", "/repo", "worktree", "add", "-q", "--detach", str(wt), head])
    assert r.returncode == 0, r.stderr
    pool.append(wt)
lock = threading.Lock()


def one(i):
    r = rows[i]
    import hashlib

    key = hashlib.sha1((r["module"] + "|" + r["function"] + "|" + r["text"]).encode()).hexdigest()
    if key in cache:
        return i, cache[key][0], cache[key][1]
    res = _one(i)
    with lock:
        cache[key] = [res[1], res[2]]
    return res


def _one(i):
    r = rows[i]
    with lock:
        wt = pool.pop()
    try:
        rel = "src/mxlpy/" + r["module"]
        src = (Path("/repo") / rel).read_text().splitlines(keepends=True)
        (wt / rel).write_text("".join(src[: r["first"]]) + r["text"] + "".join(src[r["last"]:]))
        xml = wt / "junit.xml"
        if "/sbml/" in rel:
            sel = ["tests"]
        else:
            # outside the sbml package the always-failing tests are known (5 round-trip tests): deselect them and stop at the first failure
            sel = ["tests", "--ignore=tests/sbml/test_import.py", "-x"] + [f"--deselect=tests/sbml/test_roundtrip.py::{t.split('::')[1]}" for t in ALWAYS_FAIL_OUTSIDE_IMPORT]
        cmd = ["/venv/bin/python", "-m", "pytest", "-q", "-p", "no:cacheprovider", "--timeout=300", "--continue-on-collection-errors", f"--junitxml={xml}",
               "-n", "4", *sel]
        try:
            subprocess.run(cmd, cwd=str(wt), capture_output=True, text=True, env=dict(os.environ, PYTHONPATH=str(wt / "src")), timeout=1500)
        except subprocess.TimeoutExpired:
            return i, "tests", "timeout"
        passed, seen = set(), set()
        try:
            for tc in ET.parse(xml).getroot().iter("testcase"):
                name = f"{tc.get('classname')}::{tc.get('name')}"
                seen.add(name)
                if not any(c.tag in ("failure", "error", "skipped") for c in tc):
                    passed.add(name)
        except Exception:  # noqa: BLE001
            return i, "tests", "no junit (collection crashed)"
        want = {t for t in stable if "/sbml/" in rel or not t.startswith("tests.sbml.test_import::")}
        if "-x" in sel:
            # stopped at the first failure: only what was run can be judged
            missing = sorted((want & seen) - passed)
            if not missing and len(seen & want) < 0.95 * len(want):
                missing = ["(run stopped early without a stable test failing: collection error)"]
        else:
            missing = sorted(want - passed)
        return (i, "tests", f"{len(missing)} stable tests fail, e.g. {missing[0]}") if missing else (i, "alive", "")
    finally:
        sh(["git", "-C", str(wt), "reset", "-q", "--hard"])
        sh(["git", "-C", str(wt), "clean", "-fdq"])
        with lock:
            pool.append(wt)


try:
    todo = [i for i, r in enumerate(rows) if r["outcome"] == "survived" and "text" in r]
    print(f"{pid}: {len(todo)} surviving mutants to run the stable tests against")
    with ThreadPoolExecutor(jobs) as ex:
        for i, outcome, detail in ex.map(one, todo):
            rows[i]["outcome"] = outcome
            rows[i]["detail"] = detail
    path.write_text(json.dumps(rows, indent=1))
    CACHE.parent.mkdir(parents=True, exist_ok=True)
    CACHE.write_text(json.dumps(cache))
    alive = [r for r in rows if r["outcome"] == "alive"]
    print(f"{pid}: caught by tests={sum(1 for r in rows if r['outcome'] == 'tests')} alive={len(alive)}")
    for r in alive:
        print(f"   ALIVE {r['module']}:{r['function']} | {r['mutant']}")
finally:
    for wt in list(tmp.glob("w*")):
        sh(["git", "-C", "/repo", "worktree", "remove", "--force", str(wt)])
    sh(["rm", "-rf", str(tmp)])
