"""Run every checker against the kept behaviour-preserving refactors (by hand; not a registered check).

/verif/refactors/<Rxx>/refactor<k>.diff were produced by independent sub-agents that saw only property texts and a scratch worktree
(each verified by its author: own check script, focused tests, 1378/1378 stable baseline).  This tool creates a few scratch git
worktrees of /repo's HEAD under a temporary directory, applies each diff there, runs all twenty quick checks with `--repo <worktree>`
(no evidence written), and removes the worktrees again.  /repo's working tree is never touched.  Any exit code != 0 is a false
alarm (1) or a refusal (2).  Writes /verif/refactors/results.json.
usage: /venv/bin/python tools/run_refactors.py [Rxx ...] [-j N] [--checks Cxx,Cyy]
"""
import json
import subprocess
import sys
import tempfile
import threading
from concurrent.futures import ThreadPoolExecutor
from pathlib import Path

V = Path("/verif")
ALL = [f"C{i:02d}" for i in range(1, 21)]


def sh(cmd, **kw):
    return subprocess.run(cmd, capture_output=True, text=True, **kw)


args = sys.argv[1:]
jobs = 5
if "-j" in args:
    jobs = int(args[args.index("-j") + 1])
    del args[args.index("-j"): args.index("-j") + 2]
only_checks = None
if "--checks" in args:
    only_checks = args[args.index("--checks") + 1].split(",")
    del args[args.index("--checks"): args.index("--checks") + 2]
sel = args
head = sh(["git", "-C", "/repo", "rev-parse", "HEAD"]).stdout.strip()
tmp = Path(tempfile.mkdtemp(prefix="mxverif-refactors-"))
pool = []
for i in range(jobs):
    wt = tmp / f"w{i}"
    r = sh(["git", "-C", "/repo", "worktree", "add", "-q", "--detach", str(wt), head])
    assert r.returncode == 0, r.stderr
    pool.append(wt)
lock = threading.Lock()


def one(d: Path):
    with lock:
        wt = pool.pop()
    try:
        sh(["git", "-C", str(wt), "reset", "-q", "--hard"])
        sh(["git", "-C", str(wt), "clean", "-fdq", "src"])
        ap = sh(["git", "-C", str(wt), "apply", str(d)])
        if ap.returncode != 0:
            ap = sh(["git", "-C", str(wt), "apply", "-3", str(d)])  # cut against an earlier HEAD: three-way
            if ap.returncode == 0 and sh(["git", "-C", str(wt), "grep", "-l", "-e", "^<<<<<<< ", "--", "src"]).stdout.strip():
                ap.returncode = 1
                ap.stderr = "three-way merge left conflicts"
        row = {"applies": ap.returncode == 0, "alarms": {}, "files": sorted({l[6:].strip() for l in d.read_text().splitlines() if l.startswith("+++ b/")})}
        if ap.returncode == 0:
            if only_checks is not None:
                # re-evaluate only some checks: the verdicts of the others are carried over from the previous evaluation
                prev_ = json.loads((V / "refactors" / "results.json").read_text()).get(f"{d.parent.name}/{d.stem}", {}).get("alarms", {})
                row["alarms"] = {k: v for k, v in prev_.items() if k not in only_checks}
            for c in (ALL if only_checks is None else only_checks):
                v = sh(["./vcheck", c, "--repo", str(wt), "--no-evidence", "--no-selftest"], cwd=str(V))
                if v.returncode != 0:
                    row["alarms"][c] = {"exit": v.returncode, "reports": [l.strip()[:200] for l in v.stdout.splitlines() if l.startswith(("  [", "ANALYSIS-ERROR"))][:4]}
        else:
            row["note"] = ap.stderr.strip()[:200]
        return f"{d.parent.name}/{d.stem}", row
    finally:
        sh(["git", "-C", str(wt), "reset", "-q", "--hard"])
        sh(["git", "-C", str(wt), "clean", "-fdq", "src"])
        with lock:
            pool.append(wt)


try:
    diffs = [d for d in sorted((V / "refactors").glob("R*/refactor*.diff")) if not sel or any(d.parent.name == s for s in sel)]
    res_path = V / "refactors" / "results.json"
    results = json.loads(res_path.read_text()) if res_path.exists() else {}
    with ThreadPoolExecutor(jobs) as ex:
        for rid, row in ex.map(one, diffs):
            results[rid] = row
            print(f"{rid:24s} applies={row['applies']} alarms={ {k: v['exit'] for k, v in row['alarms'].items()} }")
    results["_evaluated_at_repo_commit"] = head
    res_path.write_text(json.dumps(results, indent=1, sort_keys=True))
finally:
    for wt in list(tmp.glob("w*")):
        sh(["git", "-C", "/repo", "worktree", "remove", "--force", str(wt)])
    sh(["rm", "-rf", str(tmp)])
