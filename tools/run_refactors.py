"""Run every checker against the kept behaviour-preserving refactors (by hand; not a registered check).

/verif/refactors/<Rxx>/refactor<k>.diff were produced by independent sub-agents that saw only property texts and a scratch worktree
(each verified by its author: own check script, focused tests, 1378/1378 stable baseline).  For each diff: /repo must be clean; the
diff is applied with `git -C /repo apply`, all twenty quick checks run (no evidence written), and the diff is undone
(`git -C /repo checkout -- .`).  Any exit code != 0 is a false alarm (1) or a refusal (2).  Writes /verif/refactors/results.json.
usage: /venv/bin/python tools/run_refactors.py [Rxx ...]
"""
import json
import subprocess
import sys
from pathlib import Path

V = Path("/verif")
ALL = [f"C{i:02d}" for i in range(1, 21)]


def sh(cmd, **kw):
    return subprocess.run(cmd, capture_output=True, text=True, **kw)


assert sh(["git", "-C", "/repo", "status", "--porcelain"]).stdout.strip() == "", "/repo is not clean"
sel = sys.argv[1:]
res_path = V / "refactors" / "results.json"
results = json.loads(res_path.read_text()) if res_path.exists() else {}
for d in sorted((V / "refactors").glob("R*/refactor*.diff")):
    rid = f"{d.parent.name}/{d.stem}"
    if sel and not any(rid.startswith(s) for s in sel):
        continue
    ap = sh(["git", "-C", "/repo", "apply", str(d)])
    row = {"applies": ap.returncode == 0, "alarms": {}}
    if ap.returncode == 0:
        try:
            for c in ALL:
                v = sh(["./vcheck", c, "--no-evidence", "--no-selftest"], cwd=str(V))
                if v.returncode != 0:
                    row["alarms"][c] = {"exit": v.returncode, "reports": [l.strip()[:200] for l in v.stdout.splitlines() if l.startswith(("  [", "ANALYSIS-ERROR"))][:4]}
        finally:
            sh(["git", "-C", "/repo", "checkout", "--", "."])
            sh(["git", "-C", "/repo", "clean", "-fdq", "src"])
    else:
        row["note"] = ap.stderr.strip()[:200]
    files = sorted({l[6:].strip() for l in d.read_text().splitlines() if l.startswith("+++ b/")})
    row["files"] = files
    results[rid] = row
    print(f"{rid:24s} applies={row['applies']} alarms={ {k: v['exit'] for k, v in row['alarms'].items()} }")
res_path.write_text(json.dumps(results, indent=1, sort_keys=True))
assert sh(["git", "-C", "/repo", "status", "--porcelain"]).stdout.strip() == "", "/repo left dirty!"
