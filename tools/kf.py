"""Maintain known_findings.json by hand-driven commands (never used at check run time).

  kf.py add <property> <rule> <module> <function> <construct> <what_fails> <witness>
  kf.py fixed <property> <commit> <what failed>
"""
import json, sys
from pathlib import Path
P = Path(__file__).resolve().parent.parent / "known_findings.json"
d = json.loads(P.read_text()) if P.exists() else {"findings": [], "fixed": []}
cmd = sys.argv[1]
if cmd == "add":
    prop, rule, module, function, construct, what, witness = sys.argv[2:9]
    key = (prop, rule, module, function, construct)
    d["findings"] = [e for e in d["findings"] if (e["property"], e["rule"], e["module"], e["function"], e["construct"]) != key]
    d["findings"].append({"property": prop, "rule": rule, "module": module, "function": function,
                          "construct": construct, "status": "known", "what_fails": what, "witness": witness})
elif cmd == "fixed":
    prop, commit, what = sys.argv[2:5]
    line = f"fixed: property={prop} {commit} {what}"
    if line not in d["fixed"]:
        d["fixed"].append(line)
d["findings"].sort(key=lambda e: (e["property"], e["rule"], e["function"], e["construct"]))
P.write_text(json.dumps(d, indent=1) + "\n")
