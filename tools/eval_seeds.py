"""Confirm and evaluate sub-agent mutations (by hand; not a registered check).

usage: /venv/bin/python tools/eval_seeds.py Cxx [--no-baseline]
For every /tmp/wt/out/Cxx/patch<i>.diff: in the scratch worktree /tmp/wt/Cxx
  - apply the patch, run demo<i>.py (expect exit 1), run every checker against the worktree (--repo), optionally the baseline suite,
  - revert, run demo<i>.py again (expect exit 0).
Writes /tmp/wt/out/Cxx/eval.json and prints a summary.
"""
import json
import os
import subprocess
import sys
from pathlib import Path

pid = sys.argv[1]
do_base = "--no-baseline" not in sys.argv
wt = Path(f"/tmp/wt/{pid}")
out = Path(f"/tmp/wt/out/{pid}")
ALL = [f"C{i:02d}" for i in range(1, 21)]
env = dict(os.environ, PYTHONPATH=str(wt / "src"))


def sh(cmd, **kw):
    return subprocess.run(cmd, capture_output=True, text=True, **kw)


res = []
sh(["git", "-C", str(wt), "checkout", "--", "."])
for patch in sorted(out.glob("patch*.diff")):
    i = patch.stem.replace("patch", "")
    demo = out / f"demo{i}.py"
    r = {"patch": str(patch), "demo": str(demo)}
    ap = sh(["git", "-C", str(wt), "apply", str(patch)])
    if ap.returncode != 0:
        r["error"] = "patch does not apply: " + ap.stderr[:200]
        res.append(r)
        continue
    d1 = sh(["/venv/bin/python", str(demo)], env=env, cwd=str(out), timeout=900)
    r["demo_with_change"] = d1.returncode
    det = {}
    for c in ALL:
        v = sh(["./vcheck", c, "--repo", str(wt), "--no-evidence", "--no-selftest"], cwd="/verif")
        lines = [l for l in v.stdout.splitlines() if l.startswith(("  [", "ANALYSIS-ERROR"))]
        if v.returncode != 0:
            det[c] = {"exit": v.returncode, "lines": [l.strip()[:200] for l in lines][:6]}
    r["detected_by"] = det
    if do_base:
        b = sh(["/venv/bin/python", "/tmp/wt/tools/run_baseline.py", str(wt), "-n", "8"])
        r["baseline_regressions"] = b.stdout.strip().splitlines()[0] if b.stdout.strip() else b.stderr[-200:]
        r["baseline_exit"] = b.returncode
    sh(["git", "-C", str(wt), "checkout", "--", "."])
    d0 = sh(["/venv/bin/python", str(demo)], env=env, cwd=str(out), timeout=900)
    r["demo_without_change"] = d0.returncode
    res.append(r)
(out / "eval.json").write_text(json.dumps(res, indent=1))
for r in res:
    print(Path(r["patch"]).name, "demo with/without:", r.get("demo_with_change"), r.get("demo_without_change"),
          "| baseline:", r.get("baseline_regressions", "-"), "| detected:", {k: v["exit"] for k, v in r.get("detected_by", {}).items()} or r.get("error"))
    for k, v in r.get("detected_by", {}).items():
        for l in v["lines"][:3]:
            print("     ", k, l[:180])
