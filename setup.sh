#!/bin/sh
# Offline setup: nothing to build or install. Verify the interpreter and that the analysers import.
set -e
cd "$(dirname "$0")"
/venv/bin/python -c 'import sys; assert sys.version_info >= (3, 12), sys.version'
PYTHONDONTWRITEBYTECODE=1 PYTHONPATH="$PWD" /venv/bin/python -c 'import mxverif.core, mxverif.interp, mxverif.variants, mxverif.cli; print("mxverif ok")'
