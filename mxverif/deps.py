"""Must-/may-depend dataflow: which function parameters a value can depend on, per path.

State: frozenset of (variable, frozenset(sources)).  Sources are parameter names (or any seed the
caller puts into the entry state).  A rebinding kills the old sources of a name; `x.append(e)`,
`x.update(e)`, `x[k] = e`, `x += e` add sources.  Values built inside a loop also depend on the
loop's iterable (control dependence through the loop variable is explicit; the empty-iteration
path keeps the pre-loop value)."""

from __future__ import annotations

import ast
from dataclasses import dataclass

from .interp import PathInterp

ADDERS = {"append", "extend", "update", "add", "insert", "setdefault"}


@dataclass(frozen=True)
class DepSt:
    deps: frozenset = frozenset()
    loops_entered: int = 0
    iterated: bool = False

    def get(self, name: str) -> frozenset:
        for n, s in self.deps:
            if n == name:
                return s
        return frozenset()

    def set(self, name: str, srcs: frozenset) -> "DepSt":
        return DepSt(frozenset({(n, s) for n, s in self.deps if n != name} | {(name, frozenset(srcs))}),
                     self.loops_entered, self.iterated)


class DepInterp(PathInterp):
    loop_unroll = 2

    def __init__(self) -> None:
        self.returns: list[tuple[ast.Return, frozenset, DepSt]] = []
        self.loop_ctx: list[frozenset] = []

    def expr_deps(self, e: ast.AST | None, st: DepSt) -> frozenset:
        if e is None:
            return frozenset()
        out: set = set()
        bound: set[str] = set()
        for n in ast.walk(e):
            if isinstance(n, ast.comprehension):
                for t in ast.walk(n.target):
                    if isinstance(t, ast.Name):
                        bound.add(t.id)
        for n in ast.walk(e):
            if isinstance(n, ast.Name) and isinstance(n.ctx, ast.Load) and n.id not in bound:
                out |= st.get(n.id)
        return frozenset(out)

    def assign(self, target: ast.AST, srcs: frozenset, st: DepSt, add: bool = False) -> DepSt:
        if isinstance(target, ast.Name):
            return st.set(target.id, (st.get(target.id) | srcs) if add else srcs)
        if isinstance(target, (ast.Tuple, ast.List)):
            for t in target.elts:
                st = self.assign(t, srcs, st, add)
            return st
        if isinstance(target, (ast.Subscript, ast.Attribute)):
            base = target
            while isinstance(base, (ast.Subscript, ast.Attribute)):
                base = base.value
            if isinstance(base, ast.Name):
                extra = self.expr_deps(target.slice, st) if isinstance(target, ast.Subscript) else frozenset()
                return st.set(base.id, st.get(base.id) | srcs | extra)
        return st

    def simple(self, stmt, st: DepSt):
        if isinstance(stmt, ast.Assign):
            s = self.expr_deps(stmt.value, st)
            st = self.walrus(stmt.value, st)
            for t in stmt.targets:
                st = self.assign(t, s, st)
        elif isinstance(stmt, ast.AnnAssign) and stmt.value is not None:
            st = self.assign(stmt.target, self.expr_deps(stmt.value, st), self.walrus(stmt.value, st))
        elif isinstance(stmt, ast.AugAssign):
            st = self.assign(stmt.target, self.expr_deps(stmt.value, st), st, add=True)
        elif isinstance(stmt, ast.Expr):
            st = self.walrus(stmt.value, st)
            for c in ast.walk(stmt.value):
                if isinstance(c, ast.Call) and isinstance(c.func, ast.Attribute) and c.func.attr in ADDERS:
                    base = c.func.value
                    while isinstance(base, (ast.Subscript, ast.Attribute)):
                        base = base.value
                    if isinstance(base, ast.Name):
                        s = frozenset().union(*[self.expr_deps(a, st) for a in c.args] + [self.expr_deps(k.value, st) for k in c.keywords]) \
                            if (c.args or c.keywords) else frozenset()
                        st = st.set(base.id, st.get(base.id) | s)
        elif isinstance(stmt, ast.Return):
            s = self.expr_deps(stmt.value, st)
            self.returns.append((stmt, s, st))
            yield ("return", st)
            return
        elif isinstance(stmt, ast.Raise):
            yield ("raise", st, self.raise_name(stmt))
            return
        yield ("normal", st)

    def walrus(self, e: ast.AST | None, st: DepSt) -> DepSt:
        if e is None:
            return st
        for n in ast.walk(e):
            if isinstance(n, ast.NamedExpr) and isinstance(n.target, ast.Name):
                st = st.set(n.target.id, self.expr_deps(n.value, st))
        return st

    def cond(self, test, st: DepSt):
        st = self.walrus(test, st)
        return [st], [st]

    def enter_loop(self, node, st: DepSt):
        """Control dependence: whatever the body writes depends on the iterable (did the body run?)."""
        st = DepSt(st.deps, st.loops_entered + 1, st.iterated)
        if isinstance(node, ast.For):
            ctl = self.expr_deps(node.iter, st)
            written: set[str] = set()
            for n in ast.walk(ast.Module(body=node.body, type_ignores=[])):
                if isinstance(n, ast.Name) and isinstance(n.ctx, ast.Store):
                    written.add(n.id)
                if isinstance(n, ast.Call) and isinstance(n.func, ast.Attribute) and n.func.attr in ADDERS:
                    b = n.func.value
                    while isinstance(b, (ast.Subscript, ast.Attribute)):
                        b = b.value
                    if isinstance(b, ast.Name):
                        written.add(b.id)
            for w in written:
                st = st.set(w, st.get(w) | ctl)
        return st

    def bind_loop(self, node, st: DepSt, i: int):
        st = DepSt(st.deps, st.loops_entered, True)
        if isinstance(node, ast.For):
            st = self.assign(node.target, self.expr_deps(node.iter, st), st)
        return st
