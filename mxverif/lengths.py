"""Length abstraction for small array-building expressions (C09 `P4`: the time grid of the NaN placeholder of a protocol scan).

`length(expr)` is a sympy expression over the symbols the caller supplies for the lengths / integers it knows (number of protocol
steps `n`, points per step `s`).  Modelled: list / tuple displays with starred parts, `np.linspace(a, b, k)`, `np.arange(k)`,
`np.array` / `list` / `tuple` / `np.asarray` (length-preserving), slices with constant bounds, `np.concatenate([..])`, `np.append`,
`np.insert` of one value, `zip` (strict or not: the shorter), `itertools.pairwise`, `itertools.accumulate` (with `initial=`),
generator expressions / comprehensions over one sequence (length of the sequence; when the comprehension is starred into a
concatenation every element's length is multiplied in), `x.index`, `x.iterrows()`, `len(x)`, `+` of lists, `*` of a list by an integer,
`np.unique`-free.  Anything else raises AnalysisError.  No code is executed.
"""

from __future__ import annotations

import ast

from .core import AnalysisError, norm


class Lengths:
    def __init__(self, known: dict[str, object], ints: dict[str, object], defs: dict[str, ast.AST]):
        """known: text of an expression -> its length; ints: text of an integer expression -> its value; defs: local single definitions."""
        import sympy

        self.sp = sympy
        self.known = known
        self.ints = ints
        self.defs = defs
        self.loop_len: dict[str, object] = {}

    def integer(self, e: ast.AST):
        sp = self.sp
        t = norm(e)
        if t in self.ints:
            return self.ints[t]
        if isinstance(e, ast.Constant) and isinstance(e.value, int) and not isinstance(e.value, bool):
            return sp.Integer(e.value)
        if isinstance(e, ast.Name) and e.id in self.defs:
            return self.integer(self.defs[e.id])
        if isinstance(e, ast.BinOp) and isinstance(e.op, (ast.Add, ast.Sub, ast.Mult)):
            a, b = self.integer(e.left), self.integer(e.right)
            return a + b if isinstance(e.op, ast.Add) else a - b if isinstance(e.op, ast.Sub) else a * b
        if isinstance(e, ast.Call) and norm(e.func) == "len" and len(e.args) == 1:
            return self.length(e.args[0])
        if isinstance(e, ast.Call) and norm(e.func) in ("int",) and len(e.args) == 1:
            return self.integer(e.args[0])
        raise AnalysisError(f"integer `{t[:50]}` not derivable")

    def length(self, e: ast.AST):
        sp = self.sp
        t = norm(e)
        if t in self.known:
            return self.known[t]
        if isinstance(e, ast.Name):
            if e.id in self.defs:
                return self.length(self.defs[e.id])
            raise AnalysisError(f"length of `{e.id}` not derivable")
        if isinstance(e, (ast.List, ast.Tuple)):
            total = sp.Integer(0)
            for x in e.elts:
                total += self.length(x.value) if isinstance(x, ast.Starred) else 1
            return total
        if isinstance(e, ast.Attribute) and e.attr in ("index", "values", "T"):
            return self.length(e.value)
        if isinstance(e, ast.Subscript) and isinstance(e.slice, ast.Slice):
            n = self.length(e.value)
            lo = 0 if e.slice.lower is None else self._const(e.slice.lower)
            hi = None if e.slice.upper is None else self._const(e.slice.upper)
            if e.slice.step is not None:
                raise AnalysisError("stepped slice")
            # lengths are assumed large enough for constant bounds (n >= |bound|)
            start = lo if lo >= 0 else n + lo
            stop = n if hi is None else (hi if hi >= 0 else n + hi)
            return stop - start
        if isinstance(e, ast.BinOp) and isinstance(e.op, ast.Add):
            return self.length(e.left) + self.length(e.right)
        if isinstance(e, ast.BinOp) and isinstance(e.op, ast.Mult):
            try:
                return self.length(e.left) * self.integer(e.right)
            except AnalysisError:
                return self.integer(e.left) * self.length(e.right)
        if isinstance(e, (ast.GeneratorExp, ast.ListComp)) and len(e.generators) == 1 and not e.generators[0].ifs:
            return self.length(e.generators[0].iter)
        if isinstance(e, ast.Call):
            f = norm(e.func)
            last = f.split(".")[-1]
            kw = {k.arg: k.value for k in e.keywords}
            if last == "linspace":
                n_ = e.args[2] if len(e.args) > 2 else kw.get("num")
                if n_ is None:
                    return sp.Integer(50)
                return self.integer(n_)
            if last == "arange" and len(e.args) == 1:
                return self.integer(e.args[0])
            if last in ("array", "asarray", "list", "tuple", "sorted", "reversed", "cumsum", "Index", "Series", "iter") and e.args:
                return self.length(e.args[0])
            if last in ("items", "iterrows", "keys", "total_seconds", "to_numpy", "tolist", "copy", "astype") and isinstance(e.func, ast.Attribute):
                return self.length(e.func.value)
            if last == "concatenate" and e.args:
                seq = e.args[0]
                if not isinstance(seq, (ast.List, ast.Tuple)):
                    raise AnalysisError("np.concatenate of a non-display")
                total = sp.Integer(0)
                for x in seq.elts:
                    if isinstance(x, ast.Starred):
                        g = x.value
                        if isinstance(g, (ast.GeneratorExp, ast.ListComp)) and len(g.generators) == 1 and not g.generators[0].ifs:
                            total += self.length(g.generators[0].iter) * self.length(g.elt)
                        else:
                            raise AnalysisError("starred part of a concatenation is not a comprehension")
                    else:
                        total += self.length(x)
                return total
            if last == "append" and len(e.args) == 2 and f.startswith("np."):
                try:
                    return self.length(e.args[0]) + self.length(e.args[1])
                except AnalysisError:
                    return self.length(e.args[0]) + 1
            if last == "insert" and len(e.args) == 3 and f.startswith("np."):
                return self.length(e.args[0]) + 1
            if last == "zip":
                ls = [self.length(a) for a in e.args]
                if all(sp.simplify(l - ls[0]) == 0 for l in ls):
                    return ls[0]
                diffs = [sp.simplify(l - ls[0]) for l in ls]
                if all(d.is_number for d in diffs):
                    return ls[0] + min(diffs)
                raise AnalysisError("zip of sequences whose lengths cannot be compared")
            if last == "pairwise" and e.args:
                return self.length(e.args[0]) - 1
            if last == "accumulate" and e.args:
                return self.length(e.args[0]) + (1 if "initial" in kw else 0)
            if last == "chain":
                return sum((self.length(a) for a in e.args), sp.Integer(0))
        raise AnalysisError(f"length of `{t[:60]}` not derivable")

    @staticmethod
    def _const(e: ast.AST) -> int:
        if isinstance(e, ast.Constant) and isinstance(e.value, int):
            return e.value
        if isinstance(e, ast.UnaryOp) and isinstance(e.op, ast.USub) and isinstance(e.operand, ast.Constant) and isinstance(e.operand.value, int):
            return -e.operand.value
        raise AnalysisError("slice bound is not a constant")
