"""Program index, obligations, reporting, evidence and exit-code contract.

Exit codes (DESIGN.md section 3):
  0  every obligation HOLDS or is a listed KNOWN-FINDING
  1  at least one unlisted VIOLATED obligation ("VIOLATION property=<id> replay=<path>")
  2  ANALYSIS-ERROR (anchor missing, shape unrecognised, floor not reached, internal error)
"""

from __future__ import annotations

import ast
import copy
import json
import os
import sys
import textwrap
import time
from dataclasses import dataclass, field
from pathlib import Path

VERIF = Path(__file__).resolve().parent.parent
DEFAULT_REPO = Path(os.environ.get("MXVERIF_REPO", "/repo"))
PKG = "src/mxlpy"

HOLDS, VIOLATED, UNDECIDED, INFO = "HOLDS", "VIOLATED", "UNDECIDED", "INFO"


class AnalysisError(Exception):
    """The checker cannot decide: anchor vanished / shape unrecognised. Exit 2, never a VIOLATION."""


# --------------------------------------------------------------------------- program index


def strip_docstring(body: list[ast.stmt]) -> list[ast.stmt]:
    if (
        body
        and isinstance(body[0], ast.Expr)
        and isinstance(body[0].value, ast.Constant)
        and isinstance(body[0].value.value, str)
    ):
        return body[1:]
    return body


def norm(node: ast.AST | None) -> str:
    """Formatting-independent text of a node (ast.unparse), single line."""
    if node is None:
        return ""
    return " ".join(ast.unparse(node).split())


class ModuleInfo:
    def __init__(self, rel: str, source: str) -> None:
        self.rel = rel
        self.source = source
        try:
            self.tree = ast.parse(source)
        except SyntaxError as e:  # the variant / tree does not compile
            raise AnalysisError(f"{rel}: does not parse: {e}") from e
        if os.environ.get("MXVERIF_NO_NORMALISE") != "1":
            from .normalise import normalise_module

            self.tree = normalise_module(self.tree, rel)
        self.functions: dict[str, ast.FunctionDef] = {}
        self.classes: dict[str, ast.ClassDef] = {}
        self.assigns: dict[str, ast.expr] = {}
        self.imports: dict[str, str] = {}  # local name -> dotted origin
        self._index(self.tree.body, "")
        for n in ast.walk(self.tree):
            if isinstance(n, ast.Import):
                for a in n.names:
                    self.imports[a.asname or a.name.split(".")[0]] = a.name
            elif isinstance(n, ast.ImportFrom):
                for a in n.names:
                    mod = "." * n.level + (n.module or "")
                    self.imports[a.asname or a.name] = f"{mod}.{a.name}"

    def _index(self, body: list[ast.stmt], prefix: str) -> None:
        for n in body:
            if isinstance(n, (ast.FunctionDef, ast.AsyncFunctionDef)):
                self.functions[prefix + n.name] = n  # type: ignore[assignment]
                self._index(n.body, prefix + n.name + ".")
            elif isinstance(n, ast.ClassDef):
                self.classes[prefix + n.name] = n
                self._index(n.body, prefix + n.name + ".")
            elif isinstance(n, ast.Assign) and not prefix:
                for t in n.targets:
                    if isinstance(t, ast.Name):
                        self.assigns[t.id] = n.value
            elif isinstance(n, ast.AnnAssign) and not prefix and n.value is not None:
                if isinstance(n.target, ast.Name):
                    self.assigns[n.target.id] = n.value
            elif isinstance(n, ast.If) and not prefix:
                self._index(n.body, prefix)
                self._index(n.orelse, prefix)

    def func(self, qualname: str) -> ast.FunctionDef:
        f = self.functions.get(qualname)
        if f is None:
            raise AnalysisError(f"anchor vanished: function {qualname} not in {self.rel}")
        return f

    def has_func(self, qualname: str) -> bool:
        return qualname in self.functions

    def cls(self, name: str) -> ast.ClassDef:
        c = self.classes.get(name)
        if c is None:
            raise AnalysisError(f"anchor vanished: class {name} not in {self.rel}")
        return c

    def const(self, name: str) -> ast.expr:
        c = self.assigns.get(name)
        if c is None:
            raise AnalysisError(f"anchor vanished: module constant {name} not in {self.rel}")
        return c

    def methods(self, cls: str) -> dict[str, ast.FunctionDef]:
        c = self.cls(cls)
        return {
            n.name: n for n in c.body if isinstance(n, (ast.FunctionDef, ast.AsyncFunctionDef))
        }  # type: ignore[misc]

    def segment(self, node: ast.AST) -> str:
        return ast.get_source_segment(self.source, node) or ""


class Program:
    """All parsed modules of /repo/src/mxlpy (optionally with in-memory overrides)."""

    def __init__(self, repo: Path | None = None, overrides: dict[str, str] | None = None) -> None:
        self.repo = Path(repo) if repo is not None else DEFAULT_REPO
        self.overrides = overrides or {}
        self.modules: dict[str, ModuleInfo] = {}
        self.files_parsed = 0
        root = self.repo / PKG
        if not root.is_dir():
            raise AnalysisError(f"{root} is not a directory")
        self._paths = sorted(p for p in root.rglob("*.py"))
        self.sources: dict[str, str] = {}
        for p in self._paths:
            rel = str(p.relative_to(root))
            self.sources[rel] = self.overrides.get(rel) if rel in self.overrides else p.read_text()

    def module(self, rel: str) -> ModuleInfo:
        if rel not in self.modules:
            if rel not in self.sources:
                raise AnalysisError(f"anchor vanished: module {rel} not under {self.repo / PKG}")
            self.modules[rel] = ModuleInfo(rel, self.sources[rel])
            self.files_parsed += 1
        return self.modules[rel]

    def all_modules(self) -> list[ModuleInfo]:
        return [self.module(r) for r in self.sources]

    def with_override(self, rel: str, source: str) -> "Program":
        ov = dict(self.overrides)
        ov[rel] = source
        return Program(self.repo, ov)


# --------------------------------------------------------------------------- obligations


@dataclass
class Ob:
    rule: str
    module: str
    function: str
    construct: str
    verdict: str
    line: int
    why: str
    witness: str = ""

    @property
    def key(self) -> str:
        return f"{self.rule}|{self.module}|{self.function}|{self.construct}"

    def as_dict(self) -> dict:
        d = {
            "rule": self.rule,
            "where": f"{PKG}/{self.module}:{self.line}",
            "function": self.function,
            "construct": self.construct,
            "verdict": self.verdict,
            "why": self.why,
        }
        if self.witness:
            d["witness"] = self.witness
        return d


class Check:
    """Base class of a per-property checker."""

    pid = "C00"
    title = ""
    rules: dict[str, str] = {}  # rule id -> one-line statement of the rule
    floors: dict[str, int] = {}  # rule id -> minimum number of obligations on /repo
    decided: list[str] = []
    undecided: list[str] = []
    assumptions: list[str] = []

    def __init__(self, prog: Program, tier: str = "quick") -> None:
        self.prog = prog
        self.tier = tier
        self.obs: list[Ob] = []
        self.analysed: dict[str, object] = {}
        self.functions_analysed: set[str] = set()

    # -- recording
    def ob(
        self,
        rule: str,
        module: str,
        function: str,
        construct: str,
        verdict: str,
        node: ast.AST | int | None,
        why: str,
        witness: str = "",
    ) -> Ob:
        line = node if isinstance(node, int) else getattr(node, "_orig_lineno", None) or getattr(node, "lineno", 0) or 0
        o = Ob(rule, module, function, construct, verdict, line, why, witness)
        self.obs.append(o)
        self.functions_analysed.add(f"{module}:{function}")
        return o

    def holds(self, rule, module, function, construct, node, why):
        return self.ob(rule, module, function, construct, HOLDS, node, why)

    def violated(self, rule, module, function, construct, node, why, witness=""):
        return self.ob(rule, module, function, construct, VIOLATED, node, why, witness)

    def undecided_ob(self, rule, module, function, construct, node, why):
        return self.ob(rule, module, function, construct, UNDECIDED, node, why)

    def info(self, rule, module, function, construct, node, why):
        return self.ob(rule, module, function, construct, INFO, node, why)

    def borrow(self, other_pid: str, rule_ids: tuple[str, ...], as_rule: str, functions: tuple[str, ...] | None = None) -> None:
        """Obligations of a sibling property's checker that this property also rests on (e.g. the function translator under every
        code generator) are decided by the sibling's rules and recorded here under `as_rule`, construct prefixed by their origin."""
        import importlib

        mod = importlib.import_module(f"mxverif.checks.{other_pid.lower()}")
        cls = next(v for v in vars(mod).values() if isinstance(v, type) and issubclass(v, Check) and v is not Check and getattr(v, "pid", "") == other_pid)
        other = cls(self.prog, "quick")
        failed = None
        try:
            other.run()
        except AnalysisError as e:
            failed = e  # what the sibling decided before it stopped is still taken over
        n = 0
        for o in other.obs:
            if o.rule in rule_ids and (functions is None or o.function in functions):
                n += 1
                self.obs.append(Ob(as_rule, o.module, o.function, f"{other_pid}/{o.rule} {o.construct}", o.verdict, o.line, o.why, o.witness))
                self.functions_analysed.add(f"{o.module}:{o.function}")
        if failed is not None:
            self.undecided_ob(as_rule, "-", f"<{other_pid}>", f"{other_pid} rules {'/'.join(rule_ids)}", 0, f"sibling analysis failed: {failed}")
        elif n == 0:
            self.undecided_ob(as_rule, "-", f"<{other_pid}>", f"{other_pid} rules {'/'.join(rule_ids)}", 0, "the sibling produced no obligation for these rules")

    def run(self) -> None:  # pragma: no cover - abstract
        raise NotImplementedError

    def run_thorough(self) -> None:
        """Extra obligations of the thorough tier (siblings, whole package)."""

    # -- seeded variants (checker validation, thorough tier); see variants.py
    def must_fire(self) -> list:
        return []

    def must_stay_silent(self) -> list:
        return []


# --------------------------------------------------------------------------- known findings


def load_known() -> list[dict]:
    p = VERIF / "known_findings.json"
    if not p.exists():
        return []
    return json.loads(p.read_text()).get("findings", [])


def known_index(pid: str) -> dict[str, dict]:
    out = {}
    for e in load_known():
        if e.get("property") == pid and e.get("status") == "known":
            out[f"{e['rule']}|{e['module']}|{e['function']}|{e['construct']}"] = e
    return out


# --------------------------------------------------------------------------- runner


def evaluate(check: Check) -> None:
    check.run()
    if check.tier == "thorough":
        check.run_thorough()


def run_check(
    cls: type[Check],
    tier: str,
    repo: Path | None = None,
    write_evidence: bool = True,
    replay: str | None = None,
    extra_selftest: dict | None = None,
    quiet: bool = False,
) -> int:
    t0 = time.time()
    pid = cls.pid
    out = (lambda *a: None) if quiet else print
    partial: str | None = None
    chk = None
    try:
        prog = Program(repo)
        chk = cls(prog, tier)
        evaluate(chk)
    except AnalysisError as e:
        # a rule could not read its function: what the other rules have already decided still counts (a definite violation stays one)
        if chk is None or not any(o.verdict == VIOLATED for o in chk.obs):
            out(f"ANALYSIS-ERROR property={pid} {e}")
            return 2
        partial = str(e)
    except Exception as e:  # noqa: BLE001 - every traceback is converted
        import traceback

        traceback.print_exc(file=sys.stderr)
        out(f"ANALYSIS-ERROR property={pid} internal error: {type(e).__name__}: {e}")
        return 2

    known = known_index(pid)
    rc = 0
    problems: list[str] = []
    # floors
    counts: dict[str, int] = {}
    for o in chk.obs:
        counts[o.rule] = counts.get(o.rule, 0) + 1
    if partial is not None:
        problems.append(f"analysis stopped early: {partial}")
    for rule, floor in cls.floors.items():
        if partial is None and counts.get(rule, 0) < floor:
            problems.append(
                f"rule {rule} matched {counts.get(rule, 0)} constructs, floor is {floor} (vacuous pass refused)"
            )
    und = [o for o in chk.obs if o.verdict == UNDECIDED]
    for o in und:
        problems.append(f"undecided obligation {o.key} at {o.module}:{o.line}: {o.why}")
    # a function the rules are anchored in that has gained a decorator is no longer what runs: the rules read the undecorated body
    try:
        from .normalise import ref_table

        ref = ref_table()
        seen_fn = set()
        for o in chk.obs:
            qual = o.function.split(".<")[0]
            if (o.module, qual) in seen_fn or not o.module.endswith(".py"):
                continue
            seen_fn.add((o.module, qual))
            want = ref.get(o.module, {}).get(qual, {}).get("decorators")
            mod_ = prog.module(o.module) if o.module in prog.sources else None
            if want is None or mod_ is None or not mod_.has_func(qual):
                continue
            have = sorted(ast.unparse(d) for d in mod_.func(qual).decorator_list)
            extra = [d for d in have if d not in want]
            if extra:
                problems.append(f"{o.module}:{qual} is wrapped by `@{extra[0]}`, which the pinned tree does not have: the rules analyse the undecorated body, "
                                "what runs is the wrapper's result (a memo or filter in the wrapper can change every answer)")
    except AnalysisError:
        pass

    if replay:
        want = json.loads(Path(replay).read_text()).get("key")
        hit = [o for o in chk.obs if o.key == want]
        if not hit:
            out(f"replay: obligation {want} no longer exists on this tree")
            return 0
        o = hit[0]
        out(f"replay: {o.key} -> {o.verdict} at {PKG}/{o.module}:{o.line}: {o.why}")
        if o.verdict == VIOLATED:
            out(f"VIOLATION property={pid} replay={replay}")
            return 1
        return 0

    viol = [o for o in chk.obs if o.verdict == VIOLATED]
    matched_known = []
    new_viol = []
    for o in viol:
        if o.key in known:
            matched_known.append(o)
        else:
            new_viol.append(o)
    for o in matched_known:
        out(f"KNOWN-FINDING: property={pid} [{o.rule}] {PKG}/{o.module}:{o.line} {o.function}: {known[o.key].get('what_fails', o.why)}")
    vdir = VERIF / "evidence" / "violations"
    if write_evidence:
        vdir.mkdir(parents=True, exist_ok=True)
        for old in vdir.glob(f"{pid}-*.json"):
            old.unlink()
    for i, o in enumerate(new_viol):
        path = vdir / f"{pid}-{i}.json"
        if write_evidence:
            path.write_text(json.dumps({"property": pid, "key": o.key, **o.as_dict()}, indent=1))
        out(f"  [{o.rule}] {PKG}/{o.module}:{o.line} in {o.function}: {o.construct}")
        out(f"      {o.why}")
        if o.witness:
            out(f"      witness: {o.witness}")
        out(f"VIOLATION property={pid} replay={path}")
        rc = 1
    if problems:
        # a definite violation stays the verdict (exit 1); parts that could not be analysed only decide the exit code when nothing was found
        for p in problems:
            out(f"{'ANALYSIS-ERROR' if rc == 0 else 'ANALYSIS-NOTE'} property={pid} {p}")
        if rc == 0:
            rc = 2

    wall = time.time() - t0
    if write_evidence:
        write_evidence_file(chk, tier, wall, matched_known, new_viol, problems, extra_selftest)
    if not quiet:
        n_h = sum(1 for o in chk.obs if o.verdict == HOLDS)
        out(
            f"{pid} [{tier}] obligations={len(chk.obs)} holds={n_h} violated={len(viol)} "
            f"(known={len(matched_known)}, new={len(new_viol)}) undecided={len(und)} "
            f"info={sum(1 for o in chk.obs if o.verdict == INFO)} wall={wall:.2f}s -> exit {rc}"
        )
    return rc


def write_evidence_file(chk, tier, wall, matched_known, new_viol, problems, selftest) -> None:
    obs = chk.obs
    decided = [o for o in obs if o.verdict in (HOLDS, VIOLATED)]
    distinct = {o.key for o in decided}
    by_rule: dict[str, dict[str, int]] = {}
    for o in obs:
        by_rule.setdefault(o.rule, {}).setdefault(o.verdict, 0)
        by_rule[o.rule][o.verdict] += 1
    ev = {
        "property_id": chk.pid,
        "tier": tier,
        "seed": int(os.environ.get("VERIF_SEED", "0") or 0),
        "level": "other",
        "coverage": {
            "explanation": (
                "Static analysis of /repo's current working tree (ast-level, no MxlPy code executed). "
                "Each obligation is one (rule, module, function, construct) on which a rule that is a "
                "necessary condition of the property was decided; see 'rules' for the rule texts and "
                "'undecided_clauses' for the parts of the property this check does NOT decide."
            ),
            "evaluations": len(obs),
            "distinct_nontrivial": len(distinct),
            "rule": (
                "obligations are enumerated from the anchored functions of the repository; an obligation is "
                "non-trivial when the rule had a concrete construct to decide (verdict HOLDS or VIOLATED); "
                "distinct = distinct (rule, module, function, construct) keys"
            ),
            "samples": [o.as_dict() for o in obs][:400],
            "rules": chk.rules,
            "per_rule": by_rule,
            "analysed": {
                "repo": str(chk.prog.repo),
                "files_parsed": chk.prog.files_parsed,
                "functions": sorted(chk.functions_analysed),
                **chk.analysed,
            },
            "decided_clauses": chk.decided,
            "undecided_clauses": chk.undecided,
            "known_findings_matched": [o.key for o in matched_known],
            "new_violations": [o.key for o in new_viol],
            "analysis_errors": problems,
            "exhaustive": False,
        },
        "assumptions": chk.assumptions,
        "wall_s": round(wall, 3),
        "violations": len(new_viol),
    }
    if selftest is not None:
        ev["coverage"]["selftest"] = selftest
    d = VERIF / "evidence"
    d.mkdir(exist_ok=True)
    (d / f"{chk.pid}.json").write_text(json.dumps(ev, indent=1))


# --------------------------------------------------------------------------- small AST helpers


def is_self_attr(node: ast.AST, name: str | None = None) -> bool:
    return (
        isinstance(node, ast.Attribute)
        and isinstance(node.value, ast.Name)
        and node.value.id == "self"
        and (name is None or node.attr == name)
    )


def call_name(node: ast.AST) -> str:
    """Dotted name of a call's callee ('' when not a plain dotted name)."""
    if not isinstance(node, ast.Call):
        return ""
    return dotted(node.func)


def dotted(node: ast.AST) -> str:
    parts = []
    while isinstance(node, ast.Attribute):
        parts.append(node.attr)
        node = node.value
    if isinstance(node, ast.Name):
        parts.append(node.id)
        return ".".join(reversed(parts))
    return ""


def names_in(node: ast.AST) -> set[str]:
    return {n.id for n in ast.walk(node) if isinstance(n, ast.Name)}


def walk_no_nested(node: ast.AST):
    """ast.walk that does not descend into nested function/class definitions."""
    todo = list(ast.iter_child_nodes(node))
    while todo:
        n = todo.pop()
        yield n
        if isinstance(n, (ast.FunctionDef, ast.AsyncFunctionDef, ast.ClassDef, ast.Lambda)):
            continue
        todo.extend(ast.iter_child_nodes(n))


def dedent(s: str) -> str:
    return textwrap.dedent(s)


class Scope:
    """Parent links and enclosing-branch conditions inside one function."""

    def __init__(self, fn: ast.AST) -> None:
        self.fn = fn
        self.parent: dict[int, ast.AST] = {}
        self.field: dict[int, str] = {}
        for p in ast.walk(fn):
            for name, value in ast.iter_fields(p):
                kids = value if isinstance(value, list) else [value]
                for k in kids:
                    if isinstance(k, ast.AST):
                        self.parent[id(k)] = p
                        self.field[id(k)] = name

    def ancestors(self, node: ast.AST):
        cur = node
        while id(cur) in self.parent:
            p = self.parent[id(cur)]
            yield p, self.field[id(cur)], cur
            cur = p

    def guards(self, node: ast.AST) -> list[tuple[ast.expr, bool]]:
        """(test, polarity) of every enclosing if/while/ifexp branch, innermost first."""
        out = []
        for p, fld, _child in self.ancestors(node):
            if isinstance(p, (ast.If, ast.While, ast.IfExp)) and fld in ("body", "orelse"):
                out.append((p.test, fld == "body"))
        return out

    def enclosing(self, node: ast.AST, kinds) -> list[ast.AST]:
        return [p for p, _f, _c in self.ancestors(node) if isinstance(p, kinds)]

    def enclosing_with_field(self, node: ast.AST, kinds):
        return [(p, f) for p, f, _c in self.ancestors(node) if isinstance(p, kinds)]

    def stmt_of(self, node: ast.AST) -> ast.stmt | None:
        if isinstance(node, ast.stmt):
            return node
        for p, _f, _c in self.ancestors(node):
            if isinstance(p, ast.stmt):
                return p
        return None


NONUNIQUE_MARKERS = ("__qualname__", "__name__", "__module__", ".stem", ".name", "fn_name")


def module_tables(mod: "ModuleInfo") -> set[str]:
    """Names of module-level containers that start empty (memo caches, registries)."""
    tables = set()
    for n in mod.tree.body:
        tgt = None
        val = None
        if isinstance(n, ast.Assign) and len(n.targets) == 1 and isinstance(n.targets[0], ast.Name):
            tgt, val = n.targets[0].id, n.value
        elif isinstance(n, ast.AnnAssign) and isinstance(n.target, ast.Name) and n.value is not None:
            tgt, val = n.target.id, n.value
        if tgt and (isinstance(val, (ast.Dict, ast.List, ast.Set)) and not getattr(val, "keys", getattr(val, "elts", [])) or
                    (isinstance(val, ast.Call) and norm(val.func) in ("dict", "list", "set", "defaultdict", "collections.defaultdict", "OrderedDict", "WeakValueDictionary", "weakref.WeakValueDictionary"))):
            tables.add(tgt)
    return tables


def memo_tables(mod: "ModuleInfo"):
    """Module-level mutable containers that functions of the module write into (memo caches, registries).

    Yields (table name, function qualname, key expression text expanded through local definitions, store node).
    """
    tables = module_tables(mod)
    for qual, fn in mod.functions.items():
        defs = {}
        for s in walk_no_nested(fn):
            if isinstance(s, ast.Assign) and isinstance(s.targets[0], ast.Name):
                defs[s.targets[0].id] = s.value
            if isinstance(s, ast.NamedExpr):
                defs[s.target.id] = s.value

        def expand(e, depth=0):
            t = norm(e)
            if depth > 3:
                return t
            for x in ast.walk(e):
                if isinstance(x, ast.Name) and x.id in defs:
                    t = t.replace(x.id, "(" + expand(defs[x.id], depth + 1) + ")")
            return t

        for s in walk_no_nested(fn):
            targets = []
            if isinstance(s, ast.Assign):
                targets = [t for t in s.targets if isinstance(t, ast.Subscript)]
            for t in targets:
                if isinstance(t.value, ast.Name) and t.value.id in tables:
                    yield t.value.id, qual, expand(t.slice), t
            if isinstance(s, ast.Call) and isinstance(s.func, ast.Attribute) and isinstance(s.func.value, ast.Name) and s.func.value.id in tables \
                    and s.func.attr in ("setdefault", "update", "append", "add") and s.args:
                yield s.func.value.id, qual, expand(s.args[0]), s


def classify_memo_key(key_text: str) -> str:
    """'nonunique' | 'path-only' | 'ok'."""
    if any(m in key_text for m in NONUNIQUE_MARKERS):
        return "nonunique"
    if ("resolve()" in key_text or "absolute()" in key_text or "str(file" in key_text) and "read_bytes" not in key_text and "read_text" not in key_text:
        return "path-only"
    return "ok"


MEMO_DECORATORS = ("cache", "lru_cache", "functools.cache", "functools.lru_cache", "cached", "memoize")


def forwarding_problems(caller: ast.FunctionDef, call: ast.Call, callee: ast.FunctionDef, ignore: tuple[str, ...] = ()) -> list[str]:
    """Keyword-forwarding discipline between a wrapper and the function it delegates to.

    Reports (a) crossed forwarding: `k=v` where both k and v are parameters of the callee, v is a parameter of the caller and k != v;
    (b) dropped options: a parameter that caller and callee share by name, that the call does not pass, and that the caller uses
    nowhere else (so the caller accepts it and silently ignores it).
    """
    def params(f):
        return [a.arg for a in f.args.posonlyargs + f.args.args + f.args.kwonlyargs if a.arg not in ("self", "cls")]

    cp, kp = params(caller), params(callee)
    out = []
    passed = set()
    for i, a in enumerate(call.args):
        if i < len(kp):
            passed.add(kp[i])
    for k in call.keywords:
        if k.arg is None:
            return []  # **kwargs: cannot decide
        passed.add(k.arg)
        if isinstance(k.value, ast.Name) and k.value.id in cp and k.arg in kp and k.value.id in kp and k.arg != k.value.id:
            out.append(f"`{k.arg}={k.value.id}`: the caller's `{k.value.id}` is passed as the callee's `{k.arg}`")
        elif k.arg in cp and k.arg in kp and k.arg not in ignore and not any(isinstance(n, ast.Name) and n.id == k.arg for n in ast.walk(k.value)):
            out.append(f"`{k.arg}={norm(k.value)[:40]}`: the caller's own `{k.arg}` option is replaced by a fixed value")
    for p in cp:
        if p in kp and p not in passed and p not in ignore:
            uses = [n for n in ast.walk(caller) if isinstance(n, ast.Name) and n.id == p and isinstance(n.ctx, ast.Load)]
            if not uses:
                out.append(f"option `{p}` is accepted but neither used nor forwarded")
    return out


def _is_constish(e: ast.AST) -> bool:
    return isinstance(e, ast.Constant) or (isinstance(e, ast.UnaryOp) and isinstance(e.op, ast.USub) and isinstance(e.operand, ast.Constant))


class _Subst(ast.NodeTransformer):
    def __init__(self, m: dict[str, ast.AST]):
        self.m = m

    def visit_Name(self, n: ast.Name):
        if isinstance(n.ctx, ast.Load) and n.id in self.m:
            return ast.copy_location(copy.deepcopy(self.m[n.id]), n)
        return n

    def visit_BinOp(self, n: ast.BinOp):
        self.generic_visit(n)
        if isinstance(n.op, ast.Mult):
            for a, b in ((n.left, n.right), (n.right, n.left)):
                if isinstance(a, ast.Constant) and a.value == 1 and not isinstance(a.value, bool):
                    return b
                if isinstance(a, ast.UnaryOp) and isinstance(a.op, ast.USub) and isinstance(a.operand, ast.Constant) and a.operand.value == 1:
                    return ast.copy_location(ast.UnaryOp(op=ast.USub(), operand=b), n)
        return n


def specialise_delegate(mod, fn: ast.FunctionDef, cls: str | None = None) -> ast.FunctionDef:
    """If fn only delegates (`return self._helper(...)` / `return _helper(...)`) to a private helper of the same module/class,
    return the helper specialised for this call (constant and plain-name arguments substituted, `1 * x` / `-1 * x` folded);
    otherwise fn itself. Lets a rule written for one function follow an extract-shared-helper refactor."""
    body = strip_docstring(fn.body)
    if not (len(body) == 1 and isinstance(body[0], ast.Return) and isinstance(body[0].value, ast.Call)):
        return fn
    call = body[0].value
    callee = None
    if is_self_attr(call.func) and cls is not None:
        callee = mod.methods(cls).get(call.func.attr)
    elif isinstance(call.func, ast.Name):
        callee = mod.functions.get(call.func.id)
    if callee is None or callee is fn or not callee.name.startswith("_") or callee.name.startswith("__"):
        return fn
    params = [a.arg for a in callee.args.posonlyargs + callee.args.args if a.arg not in ("self", "cls")]
    bound: dict[str, ast.AST] = {}
    for i, a in enumerate(call.args):
        if isinstance(a, ast.Starred) or i >= len(params):
            return fn
        bound[params[i]] = a
    for k in call.keywords:
        if k.arg is None:
            return fn
        bound[k.arg] = k.value
    assigned = {n.id for n in ast.walk(callee) if isinstance(n, ast.Name) and isinstance(n.ctx, ast.Store)}
    m = {p: v for p, v in bound.items() if p not in assigned and (_is_constish(v) or (isinstance(v, ast.Name) and v.id != p))}
    new = copy.deepcopy(callee)
    new.body = [_Subst(m).visit(s) for s in new.body]
    ast.fix_missing_locations(new)
    return new


def loop_as_listcomp(fn: ast.FunctionDef, name: str) -> ast.ListComp | None:
    """`name = []` followed by `for T in IT: <single-assignment temporaries>; name.append(E)` (no branching, no other use of
    `name` in between) read as the comprehension `[E' for T in IT]`, E' = E with the temporaries substituted.  None when the
    construction of `name` is anything else."""
    body = strip_docstring(fn.body)
    init = [i for i, s in enumerate(body) if isinstance(s, ast.Assign) and len(s.targets) == 1 and norm(s.targets[0]) == name]
    if len(init) != 1 or not (isinstance(body[init[0]].value, ast.List) and not body[init[0]].value.elts):
        return None
    loops = [s for s in body[init[0] + 1:] if isinstance(s, ast.For) and any(isinstance(n, ast.Name) and n.id == name for n in ast.walk(s))]
    if len(loops) != 1 or loops[0].orelse:
        return None
    lp = loops[0]
    # nothing else touches `name` between its creation and the loop
    for s in body[init[0] + 1: body.index(lp)]:
        if any(isinstance(n, ast.Name) and n.id == name for n in ast.walk(s)):
            return None
    temps: dict[str, ast.AST] = {}
    elt = None
    for s in lp.body:
        if isinstance(s, ast.Assign) and len(s.targets) == 1 and isinstance(s.targets[0], ast.Name) and elt is None:
            temps[s.targets[0].id] = _Subst(dict(temps)).visit(copy.deepcopy(s.value))
        elif isinstance(s, ast.Expr) and isinstance(s.value, ast.Call) and norm(s.value.func) == f"{name}.append" and len(s.value.args) == 1 and elt is None:
            elt = _Subst(dict(temps)).visit(copy.deepcopy(s.value.args[0]))
        else:
            return None
    if elt is None:
        return None
    comp = ast.ListComp(elt=elt, generators=[ast.comprehension(target=lp.target, iter=lp.iter, ifs=[], is_async=0)])
    ast.copy_location(comp, lp)
    ast.fix_missing_locations(comp)
    return comp


def str_parts(e: ast.AST) -> list[str] | None:
    """A string-building expression (f-string, `+` of strings) as its flat list of parts: literals as repr, other parts as
    normalised source; adjacent literals merged.  None if e is not recognisably a string concatenation."""
    def parts(x: ast.AST) -> list | None:
        if isinstance(x, ast.Constant) and isinstance(x.value, str):
            return [("lit", x.value)]
        if isinstance(x, ast.JoinedStr):
            out: list = []
            for v in x.values:
                if isinstance(v, ast.Constant) and isinstance(v.value, str):
                    out.append(("lit", v.value))
                elif isinstance(v, ast.FormattedValue) and v.conversion == -1 and v.format_spec is None:
                    sub = parts(v.value)
                    out.extend(sub if sub is not None else [("expr", norm(v.value))])
                else:
                    return None
            return out
        if isinstance(x, ast.BinOp) and isinstance(x.op, ast.Add):
            l_, r_ = parts(x.left), parts(x.right)
            if l_ is None and r_ is None:
                return None
            return (l_ if l_ is not None else [("expr", norm(x.left))]) + (r_ if r_ is not None else [("expr", norm(x.right))])
        return None

    ps = parts(e)
    if ps is None:
        return None
    out: list[str] = []
    lit = ""
    for kind, v in ps:
        if kind == "lit":
            lit += v
        else:
            if lit:
                out.append(repr(lit))
                lit = ""
            out.append(v)
    if lit:
        out.append(repr(lit))
    return out


def single_defs(fn: ast.FunctionDef, anywhere: bool = False) -> dict[str, ast.AST]:
    """Locals of fn bound exactly once, by a plain top-level assignment `name = <expr>` (no loops/branches around it);
    with anywhere=True the single assignment may sit inside a loop / branch (use only where the use follows it in the same block)."""
    counts: dict[str, int] = {}
    for n in ast.walk(fn):
        if isinstance(n, ast.Name) and isinstance(n.ctx, (ast.Store, ast.Del)):
            counts[n.id] = counts.get(n.id, 0) + 1
    for a in fn.args.posonlyargs + fn.args.args + fn.args.kwonlyargs:
        counts[a.arg] = counts.get(a.arg, 0) + 1
    out = {}
    for s in (walk_no_nested(fn) if anywhere else strip_docstring(fn.body)):
        if isinstance(s, ast.Assign) and len(s.targets) == 1 and isinstance(s.targets[0], ast.Name) and counts.get(s.targets[0].id) == 1:
            out[s.targets[0].id] = s.value
    return out


def expand_locals(e: ast.AST, defs: dict[str, ast.AST], depth: int = 3) -> ast.AST:
    """e with single-definition locals replaced by their defining expressions (up to `depth` levels)."""
    cur = copy.deepcopy(e)
    for _ in range(depth):
        names = {n.id for n in ast.walk(cur) if isinstance(n, ast.Name) and isinstance(n.ctx, ast.Load)} & set(defs)
        if not names:
            break
        cur = _Subst({k: defs[k] for k in names}).visit(cur)
    return cur


NARY_AST_FIELDS = ("values", "ops", "comparators", "args", "keywords", "elts", "targets")


def nary_index_problems(fn: ast.FunctionDef, mod: "ModuleInfo | None" = None) -> tuple[list[tuple[ast.Subscript, str]], list[tuple[ast.Subscript, str]]]:
    """Constant-index reads `x.<field>[k]` of list-valued fields of Python AST nodes (BoolOp.values, Compare.ops / comparators,
    Call.args / keywords, Tuple.elts, Assign.targets) in a converter function -> (unguarded, guarded).

    A read is guarded when the same function tests `len(x.<field>)` in a condition with a leaving branch (raise / return) or in an
    assert, tests the field for emptiness the same way, or uses the head/tail idiom (`x.f[0]` together with iteration over `x.f[1:]`).
    With `mod`, a read also counts as guarded when the function has, on an earlier line, called a function of the module that refuses
    (raises on) a length of the same field - the statement walker that every statement passes through before a fallback looks at it.
    An unguarded read means that the elements behind the index are dropped without the conversion failing."""
    defs = single_defs(fn, anywhere=True)
    reads = []
    for n in walk_no_nested(fn):
        if isinstance(n, ast.Subscript) and isinstance(n.slice, (ast.Constant, ast.UnaryOp)) and not isinstance(n.ctx, ast.Store):
            if isinstance(n.slice, ast.UnaryOp) and not isinstance(n.slice.operand, ast.Constant):
                continue
            base = expand_locals(n.value, defs, depth=3)
            if isinstance(base, ast.Attribute) and base.attr in NARY_AST_FIELDS:
                reads.append((n, norm(base)))
    if not reads:
        return [], []
    guarded_fields = set()
    for n in walk_no_nested(fn):
        tests = []
        if isinstance(n, ast.If):
            leaves = any(isinstance(x, (ast.Raise, ast.Return)) for s in n.body + n.orelse for x in ast.walk(s))
            if leaves:
                tests.append(n.test)
        elif isinstance(n, ast.Assert):
            tests.append(n.test)
        elif isinstance(n, ast.IfExp):
            tests.append(n.test)
        elif isinstance(n, ast.match_case) and n.guard is not None:
            tests.append(n.guard)
        for t in tests:
            t = expand_locals(t, defs, depth=3)
            for c in ast.walk(t):
                if isinstance(c, ast.Call) and norm(c.func) == "len" and c.args:
                    guarded_fields.add(norm(expand_locals(c.args[0], defs, depth=3)))
        # head / tail idiom
        if isinstance(n, (ast.For, ast.comprehension)):
            it = expand_locals(n.iter, defs, depth=3)
            for s in ast.walk(it):
                if isinstance(s, ast.Subscript) and isinstance(s.slice, ast.Slice) and s.slice.upper is None and s.slice.lower is not None:
                    guarded_fields.add(norm(s.value))
    earlier_guards: list[tuple[int, str]] = []  # (line of the call, field attribute refused by the callee)
    if mod is not None:
        for c in walk_no_nested(fn):
            if isinstance(c, ast.Call) and isinstance(c.func, ast.Name) and c.func.id in mod.functions and mod.functions[c.func.id] is not fn:
                g = mod.functions[c.func.id]
                for i in walk_no_nested(g):
                    if isinstance(i, ast.If) and any(isinstance(x, ast.Raise) for s_ in i.body for x in ast.walk(s_)):
                        for l in ast.walk(i.test):
                            if isinstance(l, ast.Call) and norm(l.func) == "len" and l.args and isinstance(l.args[0], ast.Attribute):
                                earlier_guards.append((c.lineno, l.args[0].attr))

    def ok(n, f):
        return f in guarded_fields or any(line < n.lineno and f.endswith("." + attr) for line, attr in earlier_guards)

    bad = [(n, f) for n, f in reads if not ok(n, f)]
    good = [(n, f) for n, f in reads if ok(n, f)]
    return bad, good
