"""Dispatcher extractor (DESIGN section 2/F): recover, from isinstance chains and match statements of code that
walks Python ASTs, which node kinds are handled and what the default branch does."""

from __future__ import annotations

import ast
from dataclasses import dataclass, field

from .core import norm


def isinstance_kinds(test: ast.expr, var: str | None = None) -> tuple[str, set[str]] | None:
    """`isinstance(v, ast.X)` / `isinstance(v, (ast.X, ast.Y))` / `isinstance(v, ast.X | ast.Y)` -> (v, {X, Y})."""
    if isinstance(test, ast.BoolOp) and isinstance(test.op, ast.Or):
        acc: set[str] = set()
        name = None
        for v in test.values:
            r = isinstance_kinds(v, var)
            if r is None:
                return None
            name = r[0]
            acc |= r[1]
        return (name, acc) if name else None
    if isinstance(test, ast.BoolOp) and isinstance(test.op, ast.And):
        # `isinstance(n, ast.Expr) and <refinement>`: the kind is only partly handled; report it as such
        r = isinstance_kinds(test.values[0], var)
        return (r[0], {k + "?" for k in r[1]}) if r else None
    if not (isinstance(test, ast.Call) and norm(test.func) == "isinstance" and len(test.args) == 2):
        return None
    v = norm(test.args[0])
    if isinstance(test.args[0], ast.NamedExpr):
        v = norm(test.args[0].value)
    if var is not None and v != var:
        return None
    kinds: set[str] = set()

    def add(e):
        if isinstance(e, ast.Tuple):
            for x in e.elts:
                add(x)
        elif isinstance(e, ast.BinOp) and isinstance(e.op, ast.BitOr):
            add(e.left)
            add(e.right)
        else:
            kinds.add(norm(e).split(".")[-1])

    add(test.args[1])
    return v, kinds


def classify_body(body: list[ast.stmt]) -> str:
    """What a branch does: raise | return-none | return | continue | log-only | pass | other."""
    stmts = [s for s in body if not (isinstance(s, ast.Expr) and isinstance(s.value, ast.Constant))]
    if not stmts:
        return "pass"
    last = stmts[-1]
    if isinstance(last, ast.Raise):
        return "raise"
    if any(isinstance(s, ast.Raise) for s in stmts) and all(isinstance(s, (ast.Raise, ast.Assign, ast.Expr)) for s in stmts):
        return "raise"
    if isinstance(last, ast.Return):
        if last.value is None or (isinstance(last.value, ast.Constant) and last.value.value is None):
            return "return-none"
        return "return"
    if isinstance(last, ast.Continue):
        return "continue"
    if all(isinstance(s, ast.Pass) for s in stmts):
        return "pass"
    if all(isinstance(s, ast.Expr) and isinstance(s.value, ast.Call) and norm(s.value.func).split(".")[0] in ("_LOGGER", "LOGGER", "logging", "logger", "warnings")
           for s in stmts):
        return "log-only"
    return "other"


@dataclass
class Dispatch:
    var: str
    branches: list[tuple[set[str], list[ast.stmt], ast.AST]] = field(default_factory=list)
    default: list[ast.stmt] | None = None
    default_node: ast.AST | None = None

    @property
    def kinds(self) -> set[str]:
        out: set[str] = set()
        for k, _, _ in self.branches:
            out |= k
        return out


def if_chain(node: ast.If, var: str | None = None) -> Dispatch | None:
    """An if/elif/else chain of isinstance tests on one variable."""
    r = isinstance_kinds(node.test, var)
    if r is None:
        return None
    d = Dispatch(r[0])
    cur: ast.If | None = node
    while cur is not None:
        r = isinstance_kinds(cur.test, d.var)
        if r is None:
            # a non-isinstance elif ends the recognisable part: treat the rest as default
            d.default, d.default_node = [cur], cur
            return d
        d.branches.append((r[1], cur.body, cur))
        if len(cur.orelse) == 1 and isinstance(cur.orelse[0], ast.If):
            cur = cur.orelse[0]
        else:
            d.default = cur.orelse if cur.orelse else None
            d.default_node = cur.orelse[0] if cur.orelse else cur
            cur = None
    return d


def sequential_chain(body: list[ast.stmt], var: str) -> Dispatch:
    """`if isinstance(v, X): return ..` statements in sequence; whatever follows is the default."""
    d = Dispatch(var)
    rest_start = 0
    for i, s in enumerate(body):
        if isinstance(s, ast.If) and isinstance_kinds(s.test, var) is not None and not s.orelse:
            d.branches.append((isinstance_kinds(s.test, var)[1], s.body, s))
            rest_start = i + 1
    d.default = body[rest_start:] or None
    d.default_node = body[rest_start] if rest_start < len(body) else None
    return d


def match_dispatch(m: ast.Match) -> Dispatch:
    d = Dispatch(norm(m.subject))
    for c in m.cases:
        p = c.pattern
        if isinstance(p, ast.MatchAs) and p.pattern is None:
            d.default, d.default_node = c.body, c
        elif isinstance(p, ast.MatchClass):
            d.branches.append(({norm(p.cls).split(".")[-1]}, c.body, c))
        elif isinstance(p, ast.MatchOr):
            ks = {norm(x.cls).split(".")[-1] for x in p.patterns if isinstance(x, ast.MatchClass)}
            d.branches.append((ks, c.body, c))
        else:
            d.branches.append(({"<" + type(p).__name__ + ">"}, c.body, c))
    return d


def _lookup_helper(fn: ast.FunctionDef) -> tuple[int, int, str] | None:
    """fn(table, op) that returns table's value for the first key with isinstance(op, key), else <default>:
    -> (index of the table parameter, index of the operand parameter, default class)."""
    params = [a.arg for a in fn.args.posonlyargs + fn.args.args]
    body = [s for s in fn.body if not (isinstance(s, ast.Expr) and isinstance(s.value, ast.Constant))]
    if len(params) < 2 or not body:
        return None
    first = body[0]
    # for k, v in table.items(): if isinstance(op, k): return v
    it_src = None
    if isinstance(first, ast.For) and isinstance(first.target, ast.Tuple) and len(first.target.elts) == 2 and len(first.body) == 1:
        if isinstance(first.iter, ast.Call) and isinstance(first.iter.func, ast.Attribute) and first.iter.func.attr == "items" and norm(first.iter.func.value) in params:
            it_src = norm(first.iter.func.value)       # a dict table
        elif isinstance(first.iter, ast.Name) and first.iter.id in params:
            it_src = first.iter.id                      # a sequence of (class, value) pairs
    if it_src is not None:
        k, v = norm(first.target.elts[0]), norm(first.target.elts[1])
        t = first.body[0]
        if isinstance(t, ast.If) and not t.orelse and len(t.body) == 1 and isinstance(t.body[0], ast.Return) and norm(t.body[0].value) == v \
                and isinstance(t.test, ast.Call) and norm(t.test.func) == "isinstance" and len(t.test.args) == 2 and norm(t.test.args[1]) == k \
                and norm(t.test.args[0]) in params:
            return params.index(it_src), params.index(norm(t.test.args[0])), classify_body(body[1:])
    # return table[type(op)]  /  try: return table[type(op)] except KeyError: raise ..
    for s in body:
        for n in ast.walk(s):
            if isinstance(n, ast.Subscript) and norm(n.value) in params and isinstance(n.slice, ast.Call) and norm(n.slice.func) == "type" and norm(n.slice.args[0]) in params:
                return params.index(norm(n.value)), params.index(norm(n.slice.args[0])), "raise"
    return None


def applied_args(fn: ast.FunctionDef, lookup: ast.AST) -> list[str] | None:
    """When the looked-up table value is called (`op_fn(left, right)` / `TABLE[type(op)](left, right)`), the argument texts."""
    bound = None
    if isinstance(lookup, ast.For) and isinstance(lookup.target, ast.Tuple) and len(lookup.target.elts) == 2 and isinstance(lookup.target.elts[1], ast.Name):
        bound = lookup.target.elts[1].id  # for kind, value in TABLE: if isinstance(op, kind): return value(left, right)
    for w in ast.walk(fn):
        if isinstance(w, ast.NamedExpr) and w.value is lookup:
            bound = w.target.id
        if isinstance(w, ast.Assign) and w.value is lookup and isinstance(w.targets[0], ast.Name):
            bound = w.targets[0].id
    for c in ast.walk(fn):
        if isinstance(c, ast.Call) and (c.func is lookup or (bound and isinstance(c.func, ast.Name) and c.func.id == bound)) and not c.keywords:
            return [norm(a) for a in c.args]
    return None


def operator_table(mod, fn: ast.FunctionDef):
    """The operator dispatch of a converter function, whatever its form:
    match on the operator, an isinstance chain, or a lookup (directly or through a helper) in a module-level
    {ast.<Op>: value} table.  -> (entries {kind: value text}, default class, anchor node) or None."""
    # (a) match
    for n in ast.walk(fn):
        if isinstance(n, ast.Match) and any(isinstance(c.pattern, ast.MatchClass) for c in n.cases):
            entries = {}
            default = None
            for c in n.cases:
                if isinstance(c.pattern, ast.MatchClass):
                    k = norm(c.pattern.cls).split(".")[-1]
                    val = [s.value for s in c.body if isinstance(s, (ast.Assign, ast.Return)) and s.value is not None]
                    entries[k] = norm(val[0]) if val else "?"
                elif isinstance(c.pattern, ast.MatchAs) and (c.pattern.pattern is None or (isinstance(c.pattern.pattern, ast.MatchAs) and c.pattern.pattern.pattern is None)):
                    default = c.body
            return entries, classify_body(default) if default is not None else "none", n
    # (c) table lookups
    for n in ast.walk(fn):
        tbl = None
        default = "none"
        if isinstance(n, ast.Call) and isinstance(n.func, ast.Name) and n.func.id in mod.functions and "." not in n.func.id:
            h = _lookup_helper(mod.functions[n.func.id])
            if h is not None and len(n.args) > max(h[0], h[1]) and isinstance(n.args[h[0]], ast.Name):
                tbl, default = n.args[h[0]].id, h[2]
        elif isinstance(n, ast.Subscript) and isinstance(n.value, ast.Name) and isinstance(n.slice, ast.Call) and norm(n.slice.func) == "type":
            tbl, default = n.value.id, "raise"
        elif isinstance(n, ast.Call) and isinstance(n.func, ast.Attribute) and n.func.attr == "get" and isinstance(n.func.value, ast.Name) and len(n.args) == 1 \
                and isinstance(n.args[0], ast.Call) and norm(n.args[0].func) == "type":
            tbl = n.func.value.id
            # `.get(..)` yields None for an unknown operator: that must be tested and refused
            bound = None
            for w in ast.walk(fn):
                if isinstance(w, ast.NamedExpr) and w.value is n:
                    bound = w.target.id
                if isinstance(w, ast.Assign) and w.value is n and isinstance(w.targets[0], ast.Name):
                    bound = w.targets[0].id
            default = "none"
            for g in ast.walk(fn):
                if isinstance(g, ast.If) and bound and norm(g.test) in (f"{bound} is None", f"({bound} := {norm(n)}) is None") and classify_body(g.body) == "raise":
                    default = "raise"
        if tbl is None and isinstance(n, ast.Call) and norm(n.func) == "next" and n.args and isinstance(n.args[0], ast.GeneratorExp) and len(n.args[0].generators) == 1:
            # next((v for k, v in TABLE.items() if isinstance(op, k)), None)
            g = n.args[0].generators[0]
            src = g.iter.func.value if isinstance(g.iter, ast.Call) and isinstance(g.iter.func, ast.Attribute) and g.iter.func.attr == "items" else g.iter
            if isinstance(src, ast.Name) and isinstance(g.target, ast.Tuple) and len(g.target.elts) == 2 and len(g.ifs) == 1 \
                    and isinstance(g.ifs[0], ast.Call) and norm(g.ifs[0].func) == "isinstance" and norm(g.ifs[0].args[1]) == norm(g.target.elts[0]) \
                    and norm(n.args[0].elt) == norm(g.target.elts[1]):
                tbl = src.id
                if len(n.args) == 1:
                    default = "raise"  # StopIteration
                else:
                    bound = None
                    for w in ast.walk(fn):
                        if isinstance(w, ast.Assign) and w.value is n and isinstance(w.targets[0], ast.Name):
                            bound = w.targets[0].id
                        if isinstance(w, ast.NamedExpr) and w.value is n:
                            bound = w.target.id
                    default = "none"
                    for gi in ast.walk(fn):
                        if isinstance(gi, ast.If) and bound and norm(gi.test) in (f"{bound} is None", f"({bound} := {norm(n)}) is None") and classify_body(gi.body) == "raise":
                            default = "raise"
        if tbl is not None and isinstance(mod.assigns.get(tbl), ast.Dict):
            d = mod.assigns[tbl]
            return {norm(k).split(".")[-1]: norm(v) for k, v in zip(d.keys, d.values)}, default, n
        if tbl is not None and isinstance(mod.assigns.get(tbl), (ast.Tuple, ast.List)) and all(isinstance(e, (ast.Tuple, ast.List)) and len(e.elts) == 2 for e in mod.assigns[tbl].elts):
            return {norm(e.elts[0]).split(".")[-1]: norm(e.elts[1]) for e in mod.assigns[tbl].elts}, default, n
    # (c') a loop over a module-level table of (kind, value) pairs: `for K, V in TABLE: if isinstance(op, K): return V(..)`, closed by the refusal
    body_ = [s_ for s_ in fn.body if not (isinstance(s_, ast.Expr) and isinstance(s_.value, ast.Constant))]
    for i, lp in enumerate(body_):
        if not (isinstance(lp, ast.For) and isinstance(lp.target, ast.Tuple) and len(lp.target.elts) == 2 and all(isinstance(e, ast.Name) for e in lp.target.elts)):
            continue
        src = lp.iter.func.value if isinstance(lp.iter, ast.Call) and isinstance(lp.iter.func, ast.Attribute) and lp.iter.func.attr == "items" and not lp.iter.args else lp.iter
        if not (isinstance(src, ast.Name) and src.id in mod.assigns):
            continue
        kvar, vvar = lp.target.elts[0].id, lp.target.elts[1].id
        if not (len(lp.body) == 1 and isinstance(lp.body[0], ast.If) and not lp.body[0].orelse):
            continue
        t = lp.body[0].test
        if not (isinstance(t, ast.Call) and norm(t.func) == "isinstance" and len(t.args) == 2 and norm(t.args[1]) == kvar):
            continue
        inner = lp.body[0].body
        leaves = bool(inner) and isinstance(inner[-1], (ast.Return, ast.Break))
        uses_v = any(isinstance(x, ast.Name) and x.id == vvar for s_ in inner for x in ast.walk(s_))
        if not (leaves and uses_v):
            continue
        tblv = mod.assigns[src.id]
        if isinstance(tblv, ast.Dict):
            entries = {norm(k).split(".")[-1]: norm(v) for k, v in zip(tblv.keys, tblv.values)}
        elif isinstance(tblv, (ast.Tuple, ast.List)) and all(isinstance(e, (ast.Tuple, ast.List)) and len(e.elts) == 2 for e in tblv.elts):
            entries = {norm(e.elts[0]).split(".")[-1]: norm(e.elts[1]) for e in tblv.elts}
        else:
            continue
        if isinstance(inner[-1], ast.Return):
            rest = lp.orelse or body_[i + 1:]
            default = classify_body(rest) if rest else "none"
        else:
            default = classify_body(lp.orelse) if lp.orelse else "none"
        return entries, default, lp
    # (b') a sequence of guard statements `if isinstance(op, K): return E` closed by the refusal
    body = [s_ for s_ in fn.body if not (isinstance(s_, ast.Expr) and isinstance(s_.value, ast.Constant))]
    guards = [(i, s_) for i, s_ in enumerate(body) if isinstance(s_, ast.If) and not s_.orelse and isinstance_kinds(s_.test) and len(s_.body) == 1 and isinstance(s_.body[0], (ast.Return, ast.Assign))]
    if len(guards) >= 2 and [i for i, _ in guards] == list(range(guards[0][0], guards[0][0] + len(guards))) and len({isinstance_kinds(g.test)[0] for _, g in guards}) == 1:
        entries = {}
        for _, g in guards:
            for k in isinstance_kinds(g.test)[1]:
                entries[k] = norm(g.body[0].value)
        return entries, classify_body(body[guards[-1][0] + 1:]), guards[0][1]
    # (b) isinstance chain
    for n in ast.walk(fn):
        if isinstance(n, ast.If) and isinstance_kinds(n.test):
            d = if_chain(n)
            entries = {}
            for kinds, body, _ in d.branches:
                val = [s.value for s in body if isinstance(s, (ast.Assign, ast.Return)) and s.value is not None]
                for k in kinds:
                    entries[k] = norm(val[0]) if val else "?"
            return entries, classify_body(d.default) if d.default else "none", n
    return None
