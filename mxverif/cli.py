"""Command line: ./vcheck <Cxx|all> [--tier quick|thorough] [--repo DIR] [--replay FILE]."""

from __future__ import annotations

import argparse
import importlib
import os
import sys
from pathlib import Path

from .core import run_check

ALL = [f"C{i:02d}" for i in range(1, 21)]


def load(pid: str):
    try:
        mod = importlib.import_module(f"mxverif.checks.{pid.lower()}")
    except ModuleNotFoundError:
        return None
    return mod.CHECK


def main(argv=None) -> int:
    if sys.version_info < (3, 12):
        print("ANALYSIS-ERROR python >= 3.12 required (PEP 695 syntax in /repo)")
        return 2
    ap = argparse.ArgumentParser()
    ap.add_argument("pid")
    ap.add_argument("--tier", default=os.environ.get("VERIF_TIER") or "quick", choices=["quick", "thorough"])
    ap.add_argument("--repo", default=None)
    ap.add_argument("--replay", default=None)
    ap.add_argument("--no-evidence", action="store_true")
    ap.add_argument("--no-selftest", action="store_true")
    a = ap.parse_args(argv)
    pids = ALL if a.pid == "all" else [a.pid.upper()]
    worst = 0
    for pid in pids:
        cls = load(pid)
        if cls is None:
            if a.pid == "all":
                continue
            print(f"ANALYSIS-ERROR property={pid} no checker")
            return 2
        selftest = None
        st_rc = 0
        if not a.replay and not a.no_selftest:
            from .variants import sweep

            selftest, st_rc = sweep(cls, a.tier, Path(a.repo) if a.repo else None)
        rc = run_check(
            cls,
            a.tier,
            repo=Path(a.repo) if a.repo else None,
            write_evidence=not a.no_evidence,
            replay=a.replay,
            extra_selftest=selftest,
        )
        if st_rc and rc == 0:
            rc = st_rc
        worst = max(worst, rc) if rc != 1 and worst != 1 else 1
    return worst


if __name__ == "__main__":
    try:
        sys.exit(main())
    except SystemExit:
        raise
    except BaseException as e:  # noqa: BLE001
        import traceback

        traceback.print_exc()
        print(f"ANALYSIS-ERROR internal: {type(e).__name__}: {e}")
        sys.exit(2)
