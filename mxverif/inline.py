"""Inlining of private helpers that do not exist on the reference tree ("extract helper" refactors).

The rules are written against the functions of the pinned tree (the anchors).  A private function that is *new* relative to
that tree (its qualified name is not in alpha_ref.json's function list) cannot be an anchor; it is a piece of its callers.
Before any rule runs, every call of such a helper is replaced by the helper's body (a semantics-preserving transformation,
so it can neither create nor hide a violation):

* statement level - the call is the whole value of an assignment / return / expression statement / augmented assignment:
  parameters are substituted (simple arguments) or bound to fresh temporaries, the helper's locals are renamed when they
  clash, and every `return e` in tail position becomes the calling statement with `e` in place of the call.  Guard clauses
  (`if c: return a` followed by more code) become if/else.  A return inside a loop / try makes the helper non-inlinable.
* expression level - the helper is a single `return <expr>`: the call is replaced by the expression.

Helpers covered: new module-level `_f`, new methods `self._m(..)` / `cls._m(..)` / `Class._m(..)` of the same class, and new
closures nested in the calling function.  A helper is removed from the module once nothing refers to it any more.
Anything that cannot be inlined is left as written (the rules then see the call, as before).
"""

from __future__ import annotations

import ast
import copy

MAX_ROUNDS = 4


def _doc_stripped(body: list[ast.stmt]) -> list[ast.stmt]:
    if body and isinstance(body[0], ast.Expr) and isinstance(body[0].value, ast.Constant) and isinstance(body[0].value.value, str):
        return body[1:]
    return body


def _params(fn: ast.FunctionDef) -> list[ast.arg]:
    return fn.args.posonlyargs + fn.args.args + fn.args.kwonlyargs


def _contains(node: ast.AST, kinds) -> bool:
    """kinds occurs in node, not looking into nested function definitions / lambdas."""
    stack = [node]
    while stack:
        n = stack.pop()
        if isinstance(n, kinds):
            return True
        for c in ast.iter_child_nodes(n):
            if not isinstance(c, (ast.FunctionDef, ast.AsyncFunctionDef, ast.Lambda, ast.ClassDef)):
                stack.append(c)
    return False


def _block_contains(block: list[ast.stmt], kinds) -> bool:
    return any(isinstance(s, kinds) or (not isinstance(s, (ast.FunctionDef, ast.AsyncFunctionDef, ast.ClassDef)) and _contains(s, kinds)) for s in block)


def _terminates(block: list[ast.stmt]) -> bool:
    if not block:
        return False
    last = block[-1]
    if isinstance(last, (ast.Return, ast.Raise)):
        return True
    if isinstance(last, ast.If):
        return bool(last.orelse) and _terminates(last.body) and _terminates(last.orelse)
    if isinstance(last, ast.With):
        return _terminates(last.body)
    if isinstance(last, ast.Match):
        wild = any(isinstance(c.pattern, ast.MatchAs) and (c.pattern.pattern is None or (isinstance(c.pattern.pattern, ast.MatchAs) and c.pattern.pattern.pattern is None)) and c.guard is None for c in last.cases)
        return wild and all(_terminates(c.body) for c in last.cases)
    return False


class NotInlinable(Exception):
    pass


def _is_simple(e: ast.AST) -> bool:
    if isinstance(e, ast.Constant):
        return True
    if isinstance(e, ast.UnaryOp) and isinstance(e.op, ast.USub) and isinstance(e.operand, ast.Constant):
        return True
    while isinstance(e, ast.Attribute):
        e = e.value
    return isinstance(e, ast.Name)


class _Sub(ast.NodeTransformer):
    """Substitute loads of names by expressions and rename stores/loads of locals; does not descend into scopes that rebind."""

    def __init__(self, subst: dict[str, ast.AST], rename: dict[str, str]):
        self.subst, self.rename = subst, rename

    def visit_Name(self, n: ast.Name):
        if n.id in self.rename:
            return ast.copy_location(ast.Name(id=self.rename[n.id], ctx=n.ctx), n)
        if isinstance(n.ctx, ast.Load) and n.id in self.subst:
            return ast.copy_location(copy.deepcopy(self.subst[n.id]), n)
        return n

    def visit_MatchAs(self, n):
        self.generic_visit(n)
        if n.name in self.rename:
            n.name = self.rename[n.name]
        return n

    def visit_FunctionDef(self, n):
        self.generic_visit(n)
        if n.name in self.rename:
            n.name = self.rename[n.name]
        return n

    def visit_keyword(self, n):
        self.generic_visit(n)
        return n


def _all_names(fn: ast.AST) -> set[str]:
    out = set()
    for n in ast.walk(fn):
        if isinstance(n, ast.Name):
            out.add(n.id)
        elif isinstance(n, ast.arg):
            out.add(n.arg)
        elif isinstance(n, ast.MatchAs) and n.name:
            out.add(n.name)
        elif isinstance(n, (ast.FunctionDef, ast.AsyncFunctionDef)):
            out.add(n.name)
    return out


def _stored(fn: ast.AST) -> set[str]:
    out = set()
    for n in ast.walk(fn):
        if isinstance(n, ast.Name) and isinstance(n.ctx, (ast.Store, ast.Del)):
            out.add(n.id)
        elif isinstance(n, ast.MatchAs) and n.name:
            out.add(n.name)
        elif isinstance(n, (ast.FunctionDef, ast.AsyncFunctionDef)) and n is not fn:
            out.add(n.name)
    return out


class _ReplaceNode(ast.NodeTransformer):
    def __init__(self, old: ast.AST, new: ast.AST):
        self.old, self.new = old, new

    def visit(self, node):
        if node is self.old:
            return self.new
        return super().visit(node)


class Inliner:
    def __init__(self, tree: ast.Module, ref_functions: set[str] | None, ref_locals: dict[str, list[str]]):
        self.tree = tree
        self.ref = ref_functions
        self.ref_locals = ref_locals
        self.counter = 0
        self.inlined: list[tuple[str, str]] = []

    # ---------------------------------------------------------------- helpers table
    def _is_new(self, qual: str) -> bool:
        return self.ref is not None and qual not in self.ref

    @staticmethod
    def _ok_helper(h: ast.FunctionDef) -> bool:
        if isinstance(h, ast.AsyncFunctionDef) or h.args.vararg or h.args.kwarg:
            return False
        for d in h.decorator_list:
            if not (isinstance(d, ast.Name) and d.id == "staticmethod"):
                return False
        if _contains(h, (ast.Yield, ast.YieldFrom, ast.Await, ast.Global, ast.Nonlocal)):
            return False
        for n in ast.walk(h):  # not recursive
            if isinstance(n, ast.Call) and ((isinstance(n.func, ast.Name) and n.func.id == h.name) or (isinstance(n.func, ast.Attribute) and n.func.attr == h.name)):
                return False
        return True

    # ---------------------------------------------------------------- binding
    def _bind(self, h: ast.FunctionDef, call: ast.Call, is_method: bool):
        """-> (subst, pre_statements, rename) or raise NotInlinable."""
        if any(isinstance(a, ast.Starred) for a in call.args) or any(k.arg is None for k in call.keywords):
            raise NotInlinable
        pos = h.args.posonlyargs + h.args.args
        static = any(isinstance(d, ast.Name) and d.id == "staticmethod" for d in h.decorator_list)
        if is_method and not static:
            pos = pos[1:]
        if len(call.args) > len(pos):
            raise NotInlinable
        bound: dict[str, ast.AST] = {}
        for p, a in zip(pos, call.args):
            bound[p.arg] = a
        names = {p.arg for p in pos + h.args.kwonlyargs}
        for k in call.keywords:
            if k.arg not in names or k.arg in bound:
                raise NotInlinable
            bound[k.arg] = k.value
        defaults = dict(zip([p.arg for p in (h.args.posonlyargs + h.args.args)][-len(h.args.defaults):] if h.args.defaults else [], h.args.defaults))
        for p, d in zip(h.args.kwonlyargs, h.args.kw_defaults):
            if d is not None:
                defaults[p.arg] = d
        for p in pos + h.args.kwonlyargs:
            if p.arg not in bound:
                if p.arg not in defaults or not _is_simple(defaults[p.arg]):
                    raise NotInlinable
                bound[p.arg] = defaults[p.arg]
        return bound

    # ---------------------------------------------------------------- statement-level
    def _expand(self, host: ast.FunctionDef, stmt: ast.stmt, call: ast.Call, h: ast.FunctionDef, is_method: bool) -> list[ast.stmt]:
        bound = self._bind(h, call, is_method)
        self.counter += 1
        tag = f"__i{self.counter}"
        body = copy.deepcopy(_doc_stripped(h.body))
        hwrap = ast.Module(body=body, type_ignores=[])
        stored = _stored(hwrap)
        host_names = _all_names(host) - ({h.name} if h in host.body else set())
        # free names of the helper must not be captured by the host's locals (module-level helpers only)
        params = set(bound)
        if h not in ast.walk(host):
            free = {n.id for n in ast.walk(hwrap) if isinstance(n, ast.Name) and isinstance(n.ctx, ast.Load)} - stored - params
            if free & (_stored(host) | {a.arg for a in _params(host)}) - {"self", "cls"}:
                raise NotInlinable
        subst: dict[str, ast.AST] = {}
        pre: list[ast.stmt] = []
        rename: dict[str, str] = {}
        for p, a in bound.items():
            uses = sum(1 for n in ast.walk(hwrap) if isinstance(n, ast.Name) and n.id == p and isinstance(n.ctx, ast.Load))
            if p not in stored and (_is_simple(a) or uses == 0 and not _contains(a, ast.Call)):
                subst[p] = a
            elif p not in stored and uses == 1 and not _block_contains(body, (ast.For, ast.While, ast.ListComp, ast.DictComp, ast.SetComp, ast.GeneratorExp, ast.Lambda)):
                subst[p] = a  # evaluated once, at its single use
            else:
                tmp = p if p not in host_names else f"{p}{tag}"
                if tmp != p:
                    rename[p] = tmp
                pre.append(ast.Assign(targets=[ast.Name(id=tmp, ctx=ast.Store())], value=copy.deepcopy(a)))
        for n in stored - params:
            if n in host_names:
                rename[n] = f"{n}{tag}"
        body = [_Sub(subst, rename).visit(s) for s in body]

        def sink(e: ast.AST | None) -> list[ast.stmt]:
            val = e if e is not None else ast.Constant(value=None)
            if isinstance(stmt, ast.Expr):
                return [ast.Expr(value=val)] if e is not None and _contains(val, ast.Call) else []
            new = copy.copy(stmt)
            new.value = val
            return [new]

        def conv(stmts: list[ast.stmt]) -> list[ast.stmt]:
            out: list[ast.stmt] = []
            for i, s in enumerate(stmts):
                if isinstance(s, ast.Return):
                    return out + sink(s.value)
                if isinstance(s, (ast.FunctionDef, ast.AsyncFunctionDef, ast.ClassDef)) or not _contains(s, ast.Return):
                    out.append(s)
                    continue
                rest = stmts[i + 1:]
                if isinstance(s, ast.If):
                    b, o = _terminates(s.body), _terminates(s.orelse)
                    new = copy.copy(s)
                    if b and o:
                        new.body, new.orelse = conv(s.body), conv(s.orelse)
                    elif b:
                        new.body, new.orelse = conv(s.body), conv(list(s.orelse) + rest)
                    elif o:
                        new.body, new.orelse = conv(list(s.body) + rest), conv(s.orelse)
                    else:
                        raise NotInlinable
                    new.orelse = new.orelse or []
                    if not new.body:
                        new.body = [ast.Pass()]
                    return out + [new]
                if isinstance(s, ast.Match):
                    wild = any(isinstance(c.pattern, ast.MatchAs) and (c.pattern.pattern is None or (isinstance(c.pattern.pattern, ast.MatchAs) and c.pattern.pattern.pattern is None)) and c.guard is None for c in s.cases)
                    if all(_terminates(c.body) for c in s.cases) and (wild or not rest):
                        new = copy.copy(s)
                        new.cases = []
                        for c in s.cases:
                            nc = copy.copy(c)
                            nc.body = conv(c.body) or [ast.Pass()]
                            new.cases.append(nc)
                        if not wild:
                            return out + [new] + sink(None)
                        return out + [new]
                    raise NotInlinable
                if isinstance(s, ast.Try) and not s.finalbody and not _block_contains(s.body, ast.Return) and not _block_contains(s.orelse, ast.Return) \
                        and s.handlers and all(_terminates(h.body) for h in s.handlers):
                    # every handler leaves the function: what follows the try runs only after a clean body -> it moves into `else`
                    new = copy.copy(s)
                    new.handlers = []
                    for h in s.handlers:
                        nh = copy.copy(h)
                        nh.body = conv(h.body) or [ast.Pass()]
                        new.handlers.append(nh)
                    new.orelse = conv(list(s.orelse) + rest)
                    return out + [new]
                if isinstance(s, ast.With) and _terminates(s.body) and not rest:
                    new = copy.copy(s)
                    new.body = conv(s.body) or [ast.Pass()]
                    return out + [new]
                raise NotInlinable
            if out and isinstance(out[-1], (ast.Raise, ast.Continue, ast.Break)):
                return out
            return out + sink(None)

        new_body = conv(body)
        res = pre + new_body
        for s in res:
            # every node of the inlined code is located at the call it replaces (its own lines belong to the helper's definition)
            for n_ in ast.walk(s):
                if isinstance(n_, (ast.expr, ast.stmt, ast.excepthandler, ast.arg, ast.keyword, ast.alias, ast.pattern)) or hasattr(n_, "lineno"):
                    n_.lineno = getattr(stmt, "lineno", 1)
                    n_.end_lineno = getattr(stmt, "lineno", 1)
                    n_.col_offset = getattr(stmt, "col_offset", 0)
                    n_.end_col_offset = getattr(stmt, "col_offset", 0)
            ast.fix_missing_locations(s)
        return res or [ast.copy_location(ast.Pass(), stmt)]

    @staticmethod
    def _as_single_expression(body: list[ast.stmt]) -> ast.expr | None:
        """`return e`  or a chain of guard returns `if c: return a` .. `return b` (each branch a single return) as one expression."""
        if not body:
            return None
        s0 = body[0]
        if isinstance(s0, ast.Return) and s0.value is not None and len(body) == 1:
            return s0.value
        if isinstance(s0, ast.If) and len(s0.body) == 1 and isinstance(s0.body[0], ast.Return) and s0.body[0].value is not None \
                and not any(isinstance(n, ast.NamedExpr) for n in ast.walk(s0.test)):
            rest = s0.orelse if s0.orelse else body[1:]
            if s0.orelse and body[1:]:
                return None
            other = Inliner._as_single_expression(list(rest))
            if other is None:
                return None
            return ast.IfExp(test=s0.test, body=s0.body[0].value, orelse=other)
        return None

    # ---------------------------------------------------------------- expression-level
    def _expr_inline(self, host: ast.FunctionDef, call: ast.Call, h: ast.FunctionDef, is_method: bool) -> ast.AST | None:
        body = _doc_stripped(h.body)
        ret = self._as_single_expression(body)
        if ret is None:
            return None
        try:
            bound = self._bind(h, call, is_method)
        except NotInlinable:
            return None
        e = copy.deepcopy(ret)
        stored = _stored(e)  # comprehension targets / walrus inside the expression
        if stored & (_all_names(host) | set(bound)):
            return None
        for p, a in bound.items():
            uses = sum(1 for n in ast.walk(e) if isinstance(n, ast.Name) and n.id == p and isinstance(n.ctx, ast.Load))
            if not (_is_simple(a) or uses <= 1):
                return None
        if h not in ast.walk(host):
            free = {n.id for n in ast.walk(e) if isinstance(n, ast.Name) and isinstance(n.ctx, ast.Load)} - stored - set(bound)
            if free & (_stored(host) | {a.arg for a in _params(host)}) - {"self", "cls"}:
                return None
        e = _Sub(dict(bound), {}).visit(e)
        return e

    @staticmethod
    def _expand_partials(host: ast.FunctionDef, resolve) -> bool:
        """`f = partial(helper, a, k=v)` with f used only as a callee: every `f(x)` becomes `helper(a, x, k=v)` and the binding goes."""
        changed = False
        for s in list(host.body):
            if not (isinstance(s, ast.Assign) and len(s.targets) == 1 and isinstance(s.targets[0], ast.Name) and isinstance(s.value, ast.Call)
                    and ast.unparse(s.value.func) in ("partial", "functools.partial") and s.value.args and isinstance(s.value.args[0], ast.Name)):
                continue
            probe = ast.Call(func=s.value.args[0], args=[], keywords=[])
            if resolve(probe)[0] is None:
                continue
            name = s.targets[0].id
            uses = [n for n in ast.walk(host) if isinstance(n, ast.Name) and n.id == name]
            calls = [c for c in ast.walk(host) if isinstance(c, ast.Call) and isinstance(c.func, ast.Name) and c.func.id == name]
            if len(uses) != len(calls) + 1 or not calls or any(isinstance(a, ast.Starred) for a in s.value.args):
                continue
            pre_args, pre_kw = s.value.args[1:], s.value.keywords
            if not all(_is_simple(a) for a in pre_args) or not all(_is_simple(k.value) for k in pre_kw):
                continue
            for c in calls:
                c.func = ast.copy_location(ast.Name(id=s.value.args[0].id, ctx=ast.Load()), c.func)
                c.args = [copy.deepcopy(a) for a in pre_args] + c.args
                given = {k.arg for k in c.keywords}
                c.keywords = [copy.deepcopy(k) for k in pre_kw if k.arg not in given] + c.keywords
            host.body.remove(s)
            changed = True
        if changed:
            ast.fix_missing_locations(host)
        return changed

    @staticmethod
    def _ifexp_to_if(s: ast.stmt, resolve) -> list[ast.stmt]:
        """`x = helper(..) if c else e`: the conditional expression becomes an if statement so that the helper can be inlined."""
        if not (isinstance(s, ast.Assign) and isinstance(s.value, ast.IfExp)):
            return [s]
        if not any(isinstance(c, ast.Call) and resolve(c)[0] is not None for c in ast.walk(s.value)):
            return [s]
        a = ast.copy_location(ast.Assign(targets=s.targets, value=s.value.body), s)
        b = ast.copy_location(ast.Assign(targets=copy.deepcopy(s.targets), value=s.value.orelse), s)
        new = ast.copy_location(ast.If(test=s.value.test, body=[a], orelse=[b]), s)
        ast.fix_missing_locations(new)
        return [new]

    def _comp_to_loop(self, s: ast.stmt, resolve) -> list[ast.stmt]:
        """`x = [.. helper(..) .. for t in it]` / `x = {k: helper(..) for t in it}` (one generator, no filter) where the helper needs
        statement-level inlining becomes `x = []` + an append loop (`x = {}` + a store loop), so that the helper's body can be inlined
        into the loop.  A comprehension that is the value of a return, or a direct argument of the call that is the statement's value
        (`return pd.DataFrame(data={..})`), is first bound to a temporary."""
        def needs_stmt_inline(comp) -> bool:
            roots = [comp.elt] if isinstance(comp, ast.ListComp) else [comp.key, comp.value]
            for r in roots:
                for c in ast.walk(r):
                    if isinstance(c, ast.Call):
                        h, _ = resolve(c)
                        if h is not None and Inliner._as_single_expression(_doc_stripped(h.body)) is None:
                            return True
            return False

        def eligible(e) -> bool:
            return isinstance(e, (ast.ListComp, ast.DictComp)) and len(e.generators) == 1 and not e.generators[0].ifs and not e.generators[0].is_async and needs_stmt_inline(e)

        pre: list[ast.stmt] = []
        val = getattr(s, "value", None) if isinstance(s, (ast.Assign, ast.Return, ast.Expr)) else None
        if val is None:
            return [s]
        direct_assign = isinstance(s, ast.Assign) and len(s.targets) == 1 and isinstance(s.targets[0], ast.Name) and eligible(val)
        if not direct_assign:
            comp = None
            if eligible(val):
                comp = val
            elif isinstance(val, ast.Call) and _is_simple(val.func):
                operands = list(val.args) + [k.value for k in val.keywords]
                cands = [a for a in operands if eligible(a)]
                if len(cands) == 1 and all(a is cands[0] or _is_simple(a) for a in operands):
                    comp = cands[0]
            if comp is None:
                return [s]
            self.counter += 1
            tmp = f"__h{self.counter}"
            bind = ast.copy_location(ast.Assign(targets=[ast.Name(id=tmp, ctx=ast.Store())], value=comp), s)
            _ReplaceNode(comp, ast.copy_location(ast.Name(id=tmp, ctx=ast.Load()), comp)).visit(s)
            ast.fix_missing_locations(bind)
            return self._comp_to_loop(bind, resolve) + [s]
        comp = val
        g = comp.generators[0]
        name = s.targets[0].id
        if isinstance(comp, ast.ListComp):
            init = ast.copy_location(ast.Assign(targets=[ast.Name(id=name, ctx=ast.Store())], value=ast.List(elts=[], ctx=ast.Load())), s)
            step: ast.stmt = ast.Expr(value=ast.Call(func=ast.Attribute(value=ast.Name(id=name, ctx=ast.Load()), attr="append", ctx=ast.Load()), args=[comp.elt], keywords=[]))
        else:
            init = ast.copy_location(ast.Assign(targets=[ast.Name(id=name, ctx=ast.Store())], value=ast.Dict(keys=[], values=[])), s)
            step = ast.Assign(targets=[ast.Subscript(value=ast.Name(id=name, ctx=ast.Load()), slice=comp.key, ctx=ast.Store())], value=comp.value)
        loop = ast.copy_location(ast.For(target=g.target, iter=g.iter, body=[step], orelse=[]), s)
        ast.fix_missing_locations(init)
        ast.fix_missing_locations(loop)
        return pre + [init, loop]

    @staticmethod
    def _hoistable(root: ast.AST, resolve) -> ast.Call | None:
        """A helper call inside `root` that is evaluated unconditionally and before anything with an effect: only reached through
        comparison / arithmetic / call-argument / attribute / subscript positions, with every operand evaluated earlier being simple."""
        def search(e: ast.AST):
            if isinstance(e, ast.Call):
                h, _ = resolve(e)
                if h is not None and not any(isinstance(a, ast.Starred) for a in e.args):
                    body = _doc_stripped(h.body)
                    if Inliner._as_single_expression(body) is None:  # helpers that are one expression are inlined as expressions
                        return e, True
            kids: list[ast.AST]
            if isinstance(e, ast.Compare):
                kids = [e.left, *e.comparators]
            elif isinstance(e, ast.BinOp):
                kids = [e.left, e.right]
            elif isinstance(e, ast.UnaryOp):
                kids = [e.operand]
            elif isinstance(e, ast.Call):
                kids = [e.func, *e.args, *[k.value for k in e.keywords]]
            elif isinstance(e, ast.Attribute):
                kids = [e.value]
            elif isinstance(e, ast.Subscript):
                kids = [e.value, e.slice]
            elif isinstance(e, (ast.Tuple, ast.List)):
                kids = list(e.elts)
            elif isinstance(e, ast.JoinedStr):
                kids = [v.value for v in e.values if isinstance(v, ast.FormattedValue)]
            else:
                return None, _is_simple(e)
            for k in kids:
                found, pure = search(k)
                if found is not None:
                    return found, True
                if not pure:
                    return None, False
            return None, not isinstance(e, ast.Call)
        # the outermost call itself may have effects: what matters is that nothing with an effect is evaluated BEFORE the helper call
        return search(root)[0]

    # ---------------------------------------------------------------- driver
    def _resolve(self, host: ast.FunctionDef, host_cls: ast.ClassDef | None, call: ast.Call, mod_helpers, cls_helpers, local_helpers):
        f = call.func
        if isinstance(f, ast.Name):
            if f.id in local_helpers:
                return local_helpers[f.id], False
            if f.id in mod_helpers and f.id not in _stored(host):
                return mod_helpers[f.id], False
        if isinstance(f, ast.Attribute) and isinstance(f.value, ast.Name) and host_cls is not None:
            if f.value.id in ("self", "cls", host_cls.name) and f.attr in cls_helpers.get(host_cls.name, {}):
                return cls_helpers[host_cls.name][f.attr], True
        return None, False

    def _process_function(self, host: ast.FunctionDef, host_cls, qual: str, mod_helpers, cls_helpers) -> bool:
        changed = False
        ref_loc = self.ref_locals.get(qual, [])
        local_helpers = {}
        for s in host.body:
            if isinstance(s, ast.FunctionDef) and self._ok_helper(s) and (self._is_new(qual) or (ref_loc is not None and s.name not in ref_loc)) and self.ref is not None:
                local_helpers[s.name] = s

        def resolve(call):
            h, m = self._resolve(host, host_cls, call, mod_helpers, cls_helpers, local_helpers)
            if h is host:
                return None, False
            return h, m

        def do_block(block: list[ast.stmt]) -> list[ast.stmt]:
            nonlocal changed
            out: list[ast.stmt] = []
            block = [x for s in block for x in self._comp_to_loop(s, resolve)]
            block = [x for s in block for x in self._ifexp_to_if(s, resolve)]
            for s in block:
                if isinstance(s, (ast.FunctionDef, ast.AsyncFunctionDef, ast.ClassDef)):
                    out.append(s)
                    continue
                for fld in ("body", "orelse", "finalbody"):
                    b = getattr(s, fld, None)
                    if isinstance(b, list) and b and isinstance(b[0], ast.stmt):
                        setattr(s, fld, do_block(b))
                if isinstance(s, ast.Try):
                    for hd in s.handlers:
                        hd.body = do_block(hd.body)
                if isinstance(s, ast.Match):
                    for c in s.cases:
                        c.body = do_block(c.body)
                # a helper call nested in the statement's leading expression is hoisted into its own assignment first
                root = s.test if isinstance(s, ast.If) else s.iter if isinstance(s, ast.For) else \
                    getattr(s, "value", None) if isinstance(s, (ast.Assign, ast.AugAssign, ast.AnnAssign, ast.Return, ast.Expr)) else None
                if root is not None and not (isinstance(root, ast.Call) and resolve(root)[0] is not None and not isinstance(s, (ast.If, ast.For))):
                    hc = self._hoistable(root, resolve)
                    if hc is not None:
                        self.counter += 1
                        tmp = f"__h{self.counter}"
                        pre = ast.copy_location(ast.Assign(targets=[ast.Name(id=tmp, ctx=ast.Store())], value=hc), s)
                        _ReplaceNode(hc, ast.copy_location(ast.Name(id=tmp, ctx=ast.Load()), hc)).visit(s)
                        ast.fix_missing_locations(pre)
                        try:
                            out.extend(self._expand(host, pre, hc, *resolve(hc)))
                            self.inlined.append((qual, resolve(hc)[0].name))
                            changed = True
                        except NotInlinable:
                            out.append(pre)
                val = getattr(s, "value", None) if isinstance(s, (ast.Assign, ast.AugAssign, ast.AnnAssign, ast.Return, ast.Expr)) else None
                if isinstance(val, ast.Call):
                    h, m = resolve(val)
                    if h is not None:
                        try:
                            out.extend(self._expand(host, s, val, h, m))
                            self.inlined.append((qual, h.name))
                            changed = True
                            continue
                        except NotInlinable:
                            pass
                out.append(s)
            return out

        if self._expand_partials(host, resolve):
            changed = True
        host.body = do_block(host.body)

        # expression level
        outer = self

        class E(ast.NodeTransformer):
            def visit_FunctionDef(self_i, n):
                return n if n is not host else self_i.generic_visit(n)

            def visit_Call(self_i, n):
                nonlocal changed
                self_i.generic_visit(n)
                h, m = resolve(n)
                if h is not None:
                    e = outer._expr_inline(host, n, h, m)
                    if e is not None:
                        changed = True
                        outer.inlined.append((qual, h.name))
                        for x_ in ast.walk(e):
                            if hasattr(x_, "lineno") or isinstance(x_, ast.expr):
                                x_.lineno, x_.end_lineno = n.lineno, getattr(n, "end_lineno", n.lineno)
                                x_.col_offset, x_.end_col_offset = n.col_offset, getattr(n, "end_col_offset", n.col_offset)
                        return e
                return n

        E().visit(host)
        if changed:
            ast.fix_missing_locations(host)
        return changed

    def run(self) -> ast.Module:
        if self.ref is None:
            return self.tree
        from .normalise import walk_functions

        for _ in range(MAX_ROUNDS):
            mod_helpers = {n.name: n for n in self.tree.body if isinstance(n, ast.FunctionDef) and n.name.startswith("_") and not n.name.startswith("__")
                           and self._is_new(n.name) and self._ok_helper(n)}
            cls_helpers: dict[str, dict[str, ast.FunctionDef]] = {}
            classes = {c.name: c for c in self.tree.body if isinstance(c, ast.ClassDef)}
            for c in classes.values():
                for n in c.body:
                    if isinstance(n, ast.FunctionDef) and n.name.startswith("_") and not n.name.startswith("__") and self._is_new(f"{c.name}.{n.name}") and self._ok_helper(n):
                        cls_helpers.setdefault(c.name, {})[n.name] = n
            any_change = False
            for qual, fn in list(walk_functions(self.tree)):
                cls = classes.get(qual.split(".")[0]) if "." in qual else None
                if self._process_function(fn, cls, qual, mod_helpers, cls_helpers):
                    any_change = True
            if not any_change:
                break
        self._fold_temps()
        self._drop_unreferenced()
        return self.tree

    def _fold_temps(self) -> None:
        """`__hN = e` immediately followed by the only statement that mentions `__hN` (once): the temporary is substituted back."""
        for node in ast.walk(self.tree):
            for fld in ("body", "orelse", "finalbody"):
                b = getattr(node, fld, None)
                if not (isinstance(b, list) and b and isinstance(b[0], ast.stmt)):
                    continue
                i = 0
                while i + 1 < len(b):
                    s, nxt = b[i], b[i + 1]
                    if isinstance(s, ast.Assign) and len(s.targets) == 1 and isinstance(s.targets[0], ast.Name) and s.targets[0].id.startswith("__h") \
                            and not isinstance(nxt, (ast.For, ast.While, ast.If, ast.With, ast.Try, ast.FunctionDef, ast.Match)):
                        name = s.targets[0].id
                        uses = [n for n in ast.walk(nxt) if isinstance(n, ast.Name) and n.id == name]
                        total = sum(1 for n in ast.walk(self.tree) if isinstance(n, ast.Name) and n.id == name)
                        if len(uses) == 1 and total == 2 and isinstance(uses[0].ctx, ast.Load):
                            _ReplaceNode(uses[0], s.value).visit(nxt)
                            del b[i]
                            continue
                    i += 1

    def _drop_unreferenced(self) -> None:
        """Remove new private helpers (module level, methods, closures) that nothing refers to any more."""
        def refs(root: ast.AST, skip: ast.AST) -> set[str]:
            out = set()
            stack = [root]
            while stack:
                n = stack.pop()
                if n is skip:
                    continue
                if isinstance(n, ast.Name):
                    out.add(n.id)
                elif isinstance(n, ast.Attribute):
                    out.add(n.attr)
                elif isinstance(n, ast.Constant) and isinstance(n.value, str):
                    out.add(n.value)
                stack.extend(ast.iter_child_nodes(n))
            return out

        for container, prefix in [(self.tree, "")] + [(c, c.name + ".") for c in self.tree.body if isinstance(c, ast.ClassDef)]:
            for n in list(container.body):
                if isinstance(n, ast.FunctionDef) and n.name.startswith("_") and not n.name.startswith("__") and self._is_new(prefix + n.name):
                    if n.name not in refs(self.tree, n) and len(container.body) > 1:
                        container.body.remove(n)
        from .normalise import walk_functions

        for qual, fn in walk_functions(self.tree):
            ref_loc = self.ref_locals.get(qual, [])
            for s in list(fn.body):
                if isinstance(s, ast.FunctionDef) and (self._is_new(qual) or (ref_loc is not None and s.name not in ref_loc)):
                    if s.name not in refs(fn, s) and len(fn.body) > 1:
                        fn.body.remove(s)
