"""Abstract evaluation of small "fold a list of steps into a table" functions (C14 `Q1`: make_protocol).

The function is interpreted over a symbolic input of three steps [(d1, p1), (d2, p2), (d3, p3)]: durations and parameter sets are
sympy symbols, `pd.Timedelta(seconds=x)` is the identity on its argument (Timedelta addition is ordinary addition), sequences are
finite Python lists of abstract values, a dict is an ordered list of (key, value) pairs.  Loops run their three iterations; the
sequence tools the repository's idioms use (zip, accumulate, islice, enumerate, reduce, comprehensions, dict(...)) are modelled
exactly.  The result - the (key, value) pairs of the table that is built - is compared by the caller with
[(d1, p1), (d1 + d2, p2), (d1 + d2 + d3, p3)].  Nothing of the repository is executed and no solver is involved: the domain is
polynomials over the step symbols and the loop bound is fixed by the input.  Anything outside the modelled subset raises
AnalysisError (the caller falls back to its structural rules or reports the function as not analysable).
"""

from __future__ import annotations

import ast

from .core import AnalysisError, norm, strip_docstring

N_STEPS = 3


class _Ret(Exception):
    def __init__(self, value):
        self.value = value


class Frame:
    """pd.DataFrame(data) (columns = keys) or its transpose (rows = keys)."""

    def __init__(self, data, rows_are_keys: bool):
        self.data = data
        self.rows_are_keys = rows_are_keys


class Opaque:
    """A value the evaluation does not look into (it may be stored, passed on and returned)."""

    def __init__(self, text: str):
        self.text = text

    def __repr__(self) -> str:
        return f"<{self.text}>"


class SeqEval:
    def __init__(self, mod, fn: ast.FunctionDef):
        import sympy

        self.sp = sympy
        self.mod = mod
        self.fn = fn
        self.d = sympy.symbols("d1 d2 d3", positive=True)
        self.p = sympy.symbols("p1 p2 p3")

    # ------------------------------------------------------------------ entry
    def run(self):
        params = [a.arg for a in self.fn.args.posonlyargs + self.fn.args.args]
        if not params:
            raise AnalysisError(f"{self.fn.name}: no step parameter")
        env = {params[0]: [(self.d[i], self.p[i]) for i in range(N_STEPS)]}
        for a, dflt in zip(reversed(params[1:]), reversed(self.fn.args.defaults)):
            env[a] = self.ev(dflt, {})
        try:
            self.block(strip_docstring(self.fn.body), env)
        except _Ret as r:
            return r.value, env
        return None, env

    # ------------------------------------------------------------------ statements
    def block(self, stmts, env) -> None:
        for s in stmts:
            self.stmt(s, env)

    def assign(self, target, value, env) -> None:
        if isinstance(target, ast.Name):
            env[target.id] = value
        elif isinstance(target, (ast.Tuple, ast.List)):
            vals = list(value)
            if len(vals) != len(target.elts):
                raise AnalysisError("unpacking of a sequence of another length")
            for t, v in zip(target.elts, vals):
                self.assign(t, v, env)
        elif isinstance(target, ast.Subscript):
            cont = self.ev(target.value, env)
            key = self.ev(target.slice, env)
            if isinstance(cont, dict):
                raise AnalysisError("plain dict container")
            if isinstance(cont, _Dict):
                cont.store(key, value, self.sp)
            elif isinstance(cont, list) and getattr(key, "is_Integer", False):
                cont[int(key)] = value
            else:
                raise AnalysisError(f"store into `{norm(target.value)}` not modelled")
        elif isinstance(target, ast.Attribute):
            pass  # attribute of an opaque object / frame (index.name = ..): no effect on the table content
        else:
            raise AnalysisError(f"assignment target `{norm(target)}` not modelled")

    def stmt(self, s, env) -> None:
        if isinstance(s, ast.Expr):
            if isinstance(s.value, ast.Constant):
                return
            self.ev(s.value, env)
        elif isinstance(s, ast.Assign):
            v = self.ev(s.value, env)
            for t in s.targets:
                self.assign(t, v, env)
        elif isinstance(s, ast.AnnAssign):
            if s.value is not None:
                self.assign(s.target, self.ev(s.value, env), env)
        elif isinstance(s, ast.AugAssign):
            cur = self.ev(ast.copy_location(_load(s.target), s), env)
            new = self.binop(s.op, cur, self.ev(s.value, env))
            self.assign(s.target, new, env)
        elif isinstance(s, ast.For):
            seq = self.seq(self.ev(s.iter, env))
            for item in seq:
                self.assign(s.target, item, env)
                try:
                    self.block(s.body, env)
                except _Break:
                    break
                except _Continue:
                    continue
            else:
                self.block(s.orelse, env)
        elif isinstance(s, ast.If):
            c = self.truth(self.ev(s.test, env))
            self.block(s.body if c else s.orelse, env)
        elif isinstance(s, ast.Return):
            raise _Ret(self.ev(s.value, env) if s.value is not None else None)
        elif isinstance(s, ast.Pass):
            return
        elif isinstance(s, ast.Break):
            raise _Break
        elif isinstance(s, ast.Continue):
            raise _Continue
        elif isinstance(s, (ast.FunctionDef,)):
            env[s.name] = s
        else:
            raise AnalysisError(f"statement `{type(s).__name__}` not modelled")

    # ------------------------------------------------------------------ values
    def truth(self, v) -> bool:
        if isinstance(v, bool):
            return v
        if v is None:
            return False
        if isinstance(v, (list, tuple)):
            return bool(v)
        if isinstance(v, _Dict):
            return bool(v.pairs)
        if hasattr(v, "is_number") or hasattr(v, "is_Relational"):
            b = self.sp.simplify(v)
            if b is self.sp.true:
                return True
            if b is self.sp.false:
                return False
            if getattr(b, "is_number", False):
                return bool(b != 0)
        raise AnalysisError("condition depends on the step values")

    def seq(self, v) -> list:
        if isinstance(v, (list, tuple)):
            return list(v)
        if isinstance(v, _Dict):
            return [k for k, _ in v.pairs]
        raise AnalysisError("iteration over a value that is not a finite sequence")

    def binop(self, op, a, b):
        if isinstance(a, (list, tuple)) and isinstance(b, (list, tuple)) and isinstance(op, ast.Add):
            return list(a) + list(b)
        if isinstance(a, list) and getattr(b, "is_Integer", False) and isinstance(op, ast.Mult):
            return a * int(b)
        if isinstance(a, _Dict) and isinstance(b, _Dict) and isinstance(op, ast.BitOr):
            out = _Dict(list(a.pairs))
            for k, v in b.pairs:
                out.store(k, v, self.sp)
            return out
        for x in (a, b):
            if not hasattr(x, "is_number") and not isinstance(x, (int, float)):
                raise AnalysisError("arithmetic on a value that is not a number")
        if isinstance(op, ast.Add):
            return a + b
        if isinstance(op, ast.Sub):
            return a - b
        if isinstance(op, ast.Mult):
            return a * b
        if isinstance(op, ast.Div):
            return a / b
        raise AnalysisError(f"operator {type(op).__name__} not modelled")

    def call_fn(self, f, args, kwargs, env):
        """Call a lambda / local or module function of the analysed file on abstract values."""
        if isinstance(f, ast.Lambda):
            names = [a.arg for a in f.args.args]
            local = dict(env)
            local.update(zip(names, args))
            local.update(kwargs)
            return self.ev(f.body, local)
        if isinstance(f, ast.FunctionDef):
            names = [a.arg for a in f.args.posonlyargs + f.args.args]
            local = dict(zip(names, args))
            local.update(kwargs)
            try:
                self.block(strip_docstring(f.body), local)
            except _Ret as r:
                return r.value
            return None
        if isinstance(f, _Builtin):
            return f.fn(*args, **kwargs)
        raise AnalysisError("call of a value that is not a known function")

    def ev(self, e, env):
        sp = self.sp
        if isinstance(e, ast.Constant):
            if isinstance(e.value, bool) or e.value is None or isinstance(e.value, str):
                return e.value
            if isinstance(e.value, (int, float)):
                return sp.Integer(e.value) if isinstance(e.value, int) else sp.Float(e.value)
            raise AnalysisError("constant not modelled")
        if isinstance(e, ast.Name):
            if e.id in env:
                return env[e.id]
            if e.id in self.mod.functions and "." not in e.id:
                return self.mod.functions[e.id]
            if e.id in ("add",):
                return _Builtin(lambda a, b: self.binop(ast.Add(), a, b))
            raise AnalysisError(f"name `{e.id}` not bound")
        if isinstance(e, (ast.Tuple, ast.List)):
            out = []
            for x in e.elts:
                if isinstance(x, ast.Starred):
                    out.extend(self.seq(self.ev(x.value, env)))
                else:
                    out.append(self.ev(x, env))
            return tuple(out) if isinstance(e, ast.Tuple) else out
        if isinstance(e, ast.Dict):
            d = _Dict([])
            for k, v in zip(e.keys, e.values):
                if k is None:
                    raise AnalysisError("dict unpacking not modelled")
                d.store(self.ev(k, env), self.ev(v, env), sp)
            return d
        if isinstance(e, ast.BinOp):
            return self.binop(e.op, self.ev(e.left, env), self.ev(e.right, env))
        if isinstance(e, ast.UnaryOp) and isinstance(e.op, ast.USub):
            return -self.ev(e.operand, env)
        if isinstance(e, ast.UnaryOp) and isinstance(e.op, ast.Not):
            return not self.truth(self.ev(e.operand, env))
        if isinstance(e, ast.Compare) and len(e.ops) == 1:
            a, b = self.ev(e.left, env), self.ev(e.comparators[0], env)
            op = e.ops[0]
            if isinstance(op, (ast.Is, ast.IsNot)):
                r = a is b or (a is None and b is None)
                return r if isinstance(op, ast.Is) else not r
            if hasattr(a, "is_number") and hasattr(b, "is_number"):
                rel = {ast.Lt: sp.Lt, ast.LtE: sp.Le, ast.Gt: sp.Gt, ast.GtE: sp.Ge, ast.Eq: sp.Eq, ast.NotEq: sp.Ne}.get(type(op))
                if rel is not None:
                    return rel(a, b)
            raise AnalysisError("comparison not modelled")
        if isinstance(e, ast.IfExp):
            return self.ev(e.body if self.truth(self.ev(e.test, env)) else e.orelse, env)
        if isinstance(e, ast.NamedExpr):
            v = self.ev(e.value, env)
            env[e.target.id] = v
            return v
        if isinstance(e, ast.Lambda):
            return e
        if isinstance(e, (ast.ListComp, ast.GeneratorExp, ast.SetComp)):
            return [self.ev(e.elt, le) for le in self.comp_envs(e.generators, env)]
        if isinstance(e, ast.DictComp):
            d = _Dict([])
            for le in self.comp_envs(e.generators, env):
                d.store(self.ev(e.key, le), self.ev(e.value, le), sp)
            return d
        if isinstance(e, ast.Subscript):
            base = self.ev(e.value, env)
            if isinstance(e.slice, ast.Slice):
                lo = None if e.slice.lower is None else int(self.ev(e.slice.lower, env))
                hi = None if e.slice.upper is None else int(self.ev(e.slice.upper, env))
                st = None if e.slice.step is None else int(self.ev(e.slice.step, env))
                return list(self.seq(base))[lo:hi:st] if not isinstance(base, tuple) else tuple(base)[lo:hi:st]
            k = self.ev(e.slice, env)
            if isinstance(base, (list, tuple)) and getattr(k, "is_Integer", False):
                return base[int(k)]
            if isinstance(base, _Dict):
                return base.load(k, sp)
            raise AnalysisError(f"subscript `{norm(e)}` not modelled")
        if isinstance(e, ast.Attribute):
            base = self.ev(e.value, env) if not (isinstance(e.value, ast.Name) and e.value.id in ("pd", "it", "itertools", "functools", "operator", "np")) else None
            if base is None:
                return self.library(norm(e))
            if isinstance(base, Frame) and e.attr == "T":
                return Frame(base.data, not base.rows_are_keys)
            if isinstance(base, (Frame, Opaque)):
                return Opaque(norm(e))
            if isinstance(base, _Dict) and e.attr in ("items", "keys", "values", "copy", "update", "setdefault", "get"):
                return _Method(base, e.attr)
            if isinstance(base, list) and e.attr in ("append", "extend", "copy", "insert"):
                return _Method(base, e.attr)
            raise AnalysisError(f"attribute `{norm(e)}` not modelled")
        if isinstance(e, ast.Call):
            return self.call(e, env)
        if isinstance(e, ast.JoinedStr):
            return Opaque("str")
        raise AnalysisError(f"expression `{type(e).__name__}` not modelled")

    def comp_envs(self, gens, env):
        if not gens:
            yield dict(env)
            return
        g = gens[0]
        for item in self.seq(self.ev(g.iter, env)):
            le = dict(env)
            self.assign(g.target, item, le)
            if all(self.truth(self.ev(c, le)) for c in g.ifs):
                yield from self.comp_envs(gens[1:], le)

    # ------------------------------------------------------------------ library
    def library(self, name: str):
        sp = self.sp
        last = name.split(".")[-1]
        if name in ("pd.Timedelta",):
            def timedelta(*a, **k):
                if "seconds" in k and not a:
                    return k["seconds"]
                if len(a) == 1 and (not k or k.get("unit") in ("s", "sec", "seconds")):
                    if getattr(a[0], "is_zero", False) or k:
                        return a[0]
                raise AnalysisError("pd.Timedelta with a unit other than seconds")
            return _Builtin(timedelta)
        if name in ("pd.to_timedelta",):
            def to_td(x, unit=None, **k):
                if unit in ("s", "sec", "seconds"):
                    return x
                raise AnalysisError("pd.to_timedelta with a unit other than seconds")
            return _Builtin(to_td)
        if last == "accumulate":
            def accumulate(seq_, func=None, *, initial=None):
                out = []
                items = self.seq(seq_)
                acc = initial
                if acc is not None:
                    out.append(acc)
                for x in items:
                    if acc is None:
                        acc = x
                    else:
                        acc = self.binop(ast.Add(), acc, x) if func is None else self.call_fn(func, [acc, x], {}, {})
                    out.append(acc)
                return out
            return _Builtin(accumulate)
        if last == "islice":
            def islice(seq_, *a):
                ints = [None if x is None else int(x) for x in a]
                return self.seq(seq_)[slice(*ints)]
            return _Builtin(islice)
        if last == "reduce":
            def reduce(func, seq_, *init):
                items = self.seq(seq_)
                if init:
                    acc = init[0]
                elif items:
                    acc, items = items[0], items[1:]
                else:
                    raise AnalysisError("reduce of an empty sequence")
                for x in items:
                    acc = self.call_fn(func, [acc, x], {}, {})
                return acc
            return _Builtin(reduce)
        if last == "pairwise":
            return _Builtin(lambda s_: list(zip(self.seq(s_), self.seq(s_)[1:])))
        if last == "chain":
            return _Builtin(lambda *s_: [x for q in s_ for x in self.seq(q)])
        if name in ("operator.add",):
            return _Builtin(lambda a, b: self.binop(ast.Add(), a, b))
        if name in ("operator.itemgetter",):
            return _Builtin(lambda i: _Builtin(lambda x: x[int(i)]))
        if name in ("pd.DataFrame",):
            def frame(data=None, **k):
                if k.get("index") is not None or k.get("columns") is not None:
                    raise AnalysisError("DataFrame with explicit index / columns")
                return Frame(data, False)
            return _Builtin(frame)
        if name in ("pd.DataFrame.from_dict",):
            def from_dict(data, orient="columns", **k):
                return Frame(data, orient == "index")
            return _Builtin(from_dict)
        if name in ("np.cumsum",):
            return self.library("it.accumulate")
        raise AnalysisError(f"library function `{name}` not modelled")

    def call(self, e: ast.Call, env):
        sp = self.sp
        fname = norm(e.func)
        args = []
        for a in e.args:
            if isinstance(a, ast.Starred):
                args.extend(self.seq(self.ev(a.value, env)))
            else:
                args.append(self.ev(a, env))
        kwargs = {}
        for k in e.keywords:
            if k.arg is None:
                raise AnalysisError("**kwargs not modelled")
            kwargs[k.arg] = self.ev(k.value, env)
        if isinstance(e.func, ast.Name) and e.func.id not in env:
            f = e.func.id
            if f in ("list", "iter"):
                return self.seq(args[0]) if args else []
            if f == "tuple":
                return tuple(self.seq(args[0])) if args else ()
            if f == "dict":
                d = _Dict([])
                if args:
                    src = args[0]
                    for pair in (src.pairs if isinstance(src, _Dict) else self.seq(src)):
                        k_, v_ = pair
                        d.store(k_, v_, sp)
                for k_, v_ in kwargs.items():
                    d.store(k_, v_, sp)
                return d
            if f == "zip":
                seqs = [self.seq(a) for a in args]
                if kwargs.get("strict") and len({len(q) for q in seqs}) > 1:
                    raise AnalysisError("zip(strict=True) over sequences of different length: the function raises for every protocol")
                return [tuple(t) for t in zip(*seqs)]
            if f == "enumerate":
                start = int(args[1]) if len(args) > 1 else int(kwargs.get("start", 0))
                return [(sp.Integer(i + start), x) for i, x in enumerate(self.seq(args[0]))]
            if f == "len":
                return sp.Integer(len(self.seq(args[0])))
            if f == "range":
                return [sp.Integer(i) for i in range(*[int(a) for a in args])]
            if f == "sum":
                acc = args[1] if len(args) > 1 else kwargs.get("start", sp.Integer(0))
                for x in self.seq(args[0]):
                    acc = self.binop(ast.Add(), acc, x)
                return acc
            if f == "reversed":
                return list(reversed(self.seq(args[0])))
            if f in ("float", "int", "cast"):
                return args[-1]
            if f in ("accumulate", "islice", "reduce", "pairwise", "chain"):
                return self.library(f).fn(*args, **kwargs)
            if f in self.mod.functions and "." not in f:
                return self.call_fn(self.mod.functions[f], args, kwargs, env)
            if f in ("sorted", "set", "frozenset", "min", "max"):
                raise AnalysisError(f"`{f}` of step values: order depends on the values")
            raise AnalysisError(f"function `{f}` not modelled")
        fv = self.ev(e.func, env)
        if isinstance(fv, _Method):
            return fv.call(args, kwargs, self)
        if isinstance(fv, Opaque):
            return Opaque(fname + "()")
        return self.call_fn(fv, args, kwargs, env)


class _Break(Exception):
    pass


class _Continue(Exception):
    pass


class _Builtin:
    def __init__(self, fn):
        self.fn = fn


class _Dict:
    """Ordered (key, value) pairs; keys are compared symbolically (equal iff their difference simplifies to zero)."""

    def __init__(self, pairs):
        self.pairs = list(pairs)

    @staticmethod
    def _same(a, b, sp) -> bool:
        if hasattr(a, "is_number") and hasattr(b, "is_number"):
            return sp.simplify(a - b) == 0
        return a == b

    def store(self, k, v, sp) -> None:
        for i, (k0, _) in enumerate(self.pairs):
            if self._same(k0, k, sp):
                self.pairs[i] = (k0, v)
                return
        self.pairs.append((k, v))

    def load(self, k, sp):
        for k0, v in self.pairs:
            if self._same(k0, k, sp):
                return v
        raise AnalysisError("lookup of a key that was not stored")


class _Method:
    def __init__(self, obj, name):
        self.obj = obj
        self.name = name

    def call(self, args, kwargs, ev: SeqEval):
        o, n = self.obj, self.name
        if isinstance(o, _Dict):
            if n == "items":
                return [tuple(p) for p in o.pairs]
            if n == "keys":
                return [k for k, _ in o.pairs]
            if n == "values":
                return [v for _, v in o.pairs]
            if n == "copy":
                return _Dict(list(o.pairs))
            if n == "update":
                src = args[0]
                for k, v in (src.pairs if isinstance(src, _Dict) else ev.seq(src)):
                    o.store(k, v, ev.sp)
                return None
            if n == "setdefault":
                try:
                    return o.load(args[0], ev.sp)
                except AnalysisError:
                    o.store(args[0], args[1] if len(args) > 1 else None, ev.sp)
                    return args[1] if len(args) > 1 else None
            if n == "get":
                try:
                    return o.load(args[0], ev.sp)
                except AnalysisError:
                    return args[1] if len(args) > 1 else None
        if isinstance(o, list):
            if n == "append":
                o.append(args[0])
                return None
            if n == "extend":
                o.extend(ev.seq(args[0]))
                return None
            if n == "copy":
                return list(o)
            if n == "insert":
                o.insert(int(args[0]), args[1])
                return None
        raise AnalysisError(f"method `{n}` not modelled")


def _load(t: ast.AST) -> ast.AST:
    import copy

    t2 = copy.deepcopy(t)
    for n in ast.walk(t2):
        if hasattr(n, "ctx"):
            n.ctx = ast.Load()
    return t2


def protocol_table(mod, fn: ast.FunctionDef):
    """-> (pairs, expected, frame_ok): the (end time, values) rows the function builds for three symbolic steps, what they must be,
    and whether the returned frame has one ROW per step."""
    import sympy

    ev = SeqEval(mod, fn)
    ret, env = ev.run()
    frame = ret
    if isinstance(ret, Opaque) or ret is None:
        # `protocol = pd.DataFrame(data).T; protocol.index.name = ..; return protocol`: the frame is found in the environment
        frames = [v for v in env.values() if isinstance(v, Frame)]
        if len(frames) != 1:
            raise AnalysisError(f"{fn.name}: returned table not identified")
        frame = frames[0]
    if not isinstance(frame, Frame) or not isinstance(frame.data, _Dict):
        raise AnalysisError(f"{fn.name}: the returned value is not a frame built from a dict of steps")
    d, p = ev.d, ev.p
    expected = [(sum(d[: i + 1], sympy.Integer(0)), p[i]) for i in range(N_STEPS)]
    return frame.data.pairs, expected, frame.rows_are_keys
