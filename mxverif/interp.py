"""A structured, path-enumerating abstract interpreter over Python statement ASTs.

There is no CFG library for Python; the functions the rules look at are small and use only
structured control flow, so paths are enumerated directly over the statement tree.  States must
be hashable; equal states are merged (that is the only join), so the interpreter is
path-sensitive up to state equality.  Loops are unrolled `loop_unroll` times (0, 1, .. n
iterations); a rule that needs a loop invariant states it itself (see the individual checks).

Subclasses override:
  simple(stmt, state)      -> iterable of (kind, state[, payload]) for non-compound statements;
                               kind in {"normal", "raise", "return"}; payload = exception name for
                               "raise"
  cond(test, state)        -> (true_states, false_states)
  bind_loop(node, state, i)-> state at the start of iteration i of a for-loop
  on_return / on_raise hooks are not needed: the outcome lists carry the states.
"""

from __future__ import annotations

import ast
from dataclasses import dataclass, field

from .core import AnalysisError


@dataclass
class Outcome:
    normal: list = field(default_factory=list)
    returns: list = field(default_factory=list)  # (state, node)
    raises: list = field(default_factory=list)  # (state, node, excname|None)
    breaks: list = field(default_factory=list)
    continues: list = field(default_factory=list)

    def absorb(self, other: "Outcome", *, normal: bool = True) -> None:
        if normal:
            self.normal.extend(other.normal)
        self.returns.extend(other.returns)
        self.raises.extend(other.raises)
        self.breaks.extend(other.breaks)
        self.continues.extend(other.continues)


def _dedup(xs: list) -> list:
    seen = set()
    out = []
    for x in xs:
        k = x if not isinstance(x, tuple) else (x[0], id(x[1]), *x[2:])
        if k in seen:
            continue
        seen.add(k)
        out.append(x)
    return out


CATCH_ALL = {"Exception", "BaseException"}


class PathInterp:
    loop_unroll = 2
    max_states = 5000

    # ---- hooks -----------------------------------------------------------
    def simple(self, stmt: ast.stmt, state):
        yield ("normal", state)

    def cond(self, test: ast.expr, state):
        return [state], [state]

    def bind_loop(self, node: ast.For | ast.While, state, i: int):
        return state

    def enter_loop(self, node, state):
        return state

    def exit_loop(self, node, state):
        return state

    def enter_with(self, node: ast.With, state):
        return state

    def enter_handler(self, handler: ast.ExceptHandler, state, excname):
        return state

    def raise_name(self, stmt: ast.Raise) -> str | None:
        exc = stmt.exc
        if exc is None:
            return None
        if isinstance(exc, ast.Call):
            exc = exc.func
        if isinstance(exc, ast.Name):
            return exc.id
        if isinstance(exc, ast.Attribute):
            return exc.attr
        return None

    def handler_matches(self, handler: ast.ExceptHandler, excname: str | None) -> str:
        """'yes' | 'no' | 'maybe'."""
        if handler.type is None:
            return "yes"
        names = []
        t = handler.type
        for e in t.elts if isinstance(t, ast.Tuple) else [t]:
            if isinstance(e, ast.Name):
                names.append(e.id)
            elif isinstance(e, ast.Attribute):
                names.append(e.attr)
        if any(n in CATCH_ALL for n in names):
            return "yes"
        if excname is None:
            return "maybe"
        return "yes" if excname in names else "no"

    # ---- driver ----------------------------------------------------------
    def run_function(self, fn: ast.FunctionDef, state) -> Outcome:
        from .core import strip_docstring

        out = self.block(strip_docstring(fn.body), [state])
        # falling off the end is a return
        for s in out.normal:
            out.returns.append((s, fn))
        out.normal = []
        return out

    def block(self, stmts: list[ast.stmt], states: list) -> Outcome:
        out = Outcome()
        cur = _dedup(list(states))
        for s in stmts:
            if not cur:
                break
            if len(cur) > self.max_states:
                raise AnalysisError(f"state explosion at line {s.lineno}")
            nxt: list = []
            for st in cur:
                o = self.stmt(s, st)
                nxt.extend(o.normal)
                out.absorb(o, normal=False)
            cur = _dedup(nxt)
        out.normal = cur
        return out

    def stmt(self, s: ast.stmt, st) -> Outcome:
        out = Outcome()
        if isinstance(s, ast.If):
            t, f = self.cond(s.test, st)
            if t:
                out.absorb(self.block(s.body, t))
            if f:
                if s.orelse:
                    out.absorb(self.block(s.orelse, f))
                else:
                    out.normal.extend(f)
        elif isinstance(s, (ast.For, ast.AsyncFor)):
            self._loop(s, st, out)
        elif isinstance(s, ast.While):
            self._loop(s, st, out)
        elif isinstance(s, ast.Try):
            self._try(s, st, out)
        elif isinstance(s, (ast.With, ast.AsyncWith)):
            out.absorb(self.block(s.body, [self.enter_with(s, st)]))
        elif isinstance(s, ast.Match):
            exhaustive = False
            for case in s.cases:
                out.absorb(self.block(case.body, [st]))
                if isinstance(case.pattern, ast.MatchAs) and case.pattern.pattern is None and case.guard is None:
                    exhaustive = True
            if not exhaustive:
                out.normal.append(st)
        elif isinstance(s, ast.Return):
            for kind, st2, *rest in self.simple(s, st):
                if kind == "raise":
                    out.raises.append((st2, s, rest[0] if rest else None))
                else:
                    out.returns.append((st2, s))
        elif isinstance(s, ast.Raise):
            for kind, st2, *rest in self.simple(s, st):
                out.raises.append((st2, s, rest[0] if (rest and kind == "raise") else self.raise_name(s)))
        elif isinstance(s, ast.Break):
            out.breaks.append(st)
        elif isinstance(s, ast.Continue):
            out.continues.append(st)
        elif isinstance(s, (ast.FunctionDef, ast.AsyncFunctionDef, ast.ClassDef)):
            for kind, st2, *rest in self.simple(s, st):
                out.normal.append(st2)
        else:
            for kind, st2, *rest in self.simple(s, st):
                if kind == "normal":
                    out.normal.append(st2)
                elif kind == "raise":
                    out.raises.append((st2, s, rest[0] if rest else None))
                elif kind == "return":
                    out.returns.append((st2, s))
        return out

    def _loop(self, s, st, out: Outcome) -> None:
        is_for = isinstance(s, (ast.For, ast.AsyncFor))
        const_true = (
            not is_for and isinstance(s.test, ast.Constant) and bool(s.test.value) is True
        )
        exits: list = []  # states leaving through exhaustion (run orelse)
        cur = [self.enter_loop(s, st)]
        for i in range(self.loop_unroll + 1):
            if not cur:
                break
            if is_for:
                enter, leave = cur, list(cur)
            elif const_true:
                enter, leave = cur, []
            else:
                enter, leave = [], []
                for c in cur:
                    t, f = self.cond(s.test, c)
                    enter.extend(t)
                    leave.extend(f)
            exits.extend(leave)
            if i == self.loop_unroll:
                break
            body_in = [self.bind_loop(s, c, i) for c in enter]
            o = self.block(s.body, body_in)
            out.returns.extend(o.returns)
            out.raises.extend(o.raises)
            for b in o.breaks:
                out.normal.append(self.exit_loop(s, b))
            cur = _dedup(o.normal + o.continues)
        exits = _dedup([self.exit_loop(s, e) for e in exits])
        if s.orelse:
            out.absorb(self.block(s.orelse, exits))
        else:
            out.normal.extend(exits)

    def _try(self, s: ast.Try, st, out: Outcome) -> None:
        body = self.block(s.body, [st])
        inner = Outcome()
        inner.returns.extend(body.returns)
        inner.breaks.extend(body.breaks)
        inner.continues.extend(body.continues)
        if s.orelse:
            inner.absorb(self.block(s.orelse, body.normal))
        else:
            inner.normal.extend(body.normal)
        for rst, rnode, exc in body.raises:
            caught = False
            for h in s.handlers:
                m = self.handler_matches(h, exc)
                if m == "no":
                    continue
                inner.absorb(self.block(h.body, [self.enter_handler(h, rst, exc)]))
                if m == "yes":
                    caught = True
                    break
            if not caught:
                inner.raises.append((rst, rnode, exc))
        if s.finalbody:
            fin = Outcome()
            for kind in ("normal", "breaks", "continues"):
                sts = getattr(inner, kind)
                if sts:
                    o = self.block(s.finalbody, sts)
                    getattr(fin, kind).extend(o.normal)
                    fin.returns.extend(o.returns)
                    fin.raises.extend(o.raises)
            for rst, rnode in inner.returns:
                o = self.block(s.finalbody, [rst])
                fin.returns.extend((x, rnode) for x in o.normal)
                fin.returns.extend(o.returns)
                fin.raises.extend(o.raises)
            for rst, rnode, exc in inner.raises:
                o = self.block(s.finalbody, [rst])
                fin.raises.extend((x, rnode, exc) for x in o.normal)
                fin.returns.extend(o.returns)
                fin.raises.extend(o.raises)
            out.absorb(fin)
        else:
            out.absorb(inner)
