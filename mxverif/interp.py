"""A structured, path-enumerating abstract interpreter over Python statement ASTs.

There is no CFG library for Python; the functions the rules look at are small and use only
structured control flow, so paths are enumerated directly over the statement tree.  States must
be hashable; equal states are merged (that is the only join), so the interpreter is
path-sensitive up to state equality.  Loops are unrolled `loop_unroll` times (0, 1, .. n
iterations); a rule that needs a loop invariant states it itself (see the individual checks).

Subclasses override:
  simple(stmt, state)      -> iterable of (kind, state[, payload]) for non-compound statements;
                               kind in {"normal", "raise", "return"}; payload = exception name for
                               "raise"
  cond(test, state)        -> (true_states, false_states)
  bind_loop(node, state, i)-> state at the start of iteration i of a for-loop
  on_return / on_raise hooks are not needed: the outcome lists carry the states.
"""

from __future__ import annotations

import ast
from dataclasses import dataclass, field

from .core import AnalysisError


@dataclass
class Outcome:
    normal: list = field(default_factory=list)
    returns: list = field(default_factory=list)  # (state, node)
    raises: list = field(default_factory=list)  # (state, node, excname|None)
    breaks: list = field(default_factory=list)
    continues: list = field(default_factory=list)

    def absorb(self, other: "Outcome", *, normal: bool = True) -> None:
        if normal:
            self.normal.extend(other.normal)
        self.returns.extend(other.returns)
        self.raises.extend(other.raises)
        self.breaks.extend(other.breaks)
        self.continues.extend(other.continues)


def _dedup(xs: list) -> list:
    seen = set()
    out = []
    for x in xs:
        k = x if not isinstance(x, tuple) else (x[0], id(x[1]), *x[2:])
        if k in seen:
            continue
        seen.add(k)
        out.append(x)
    return out


CATCH_ALL = {"Exception", "BaseException"}


class PathInterp:
    loop_unroll = 2
    max_states = 5000

    # ---- hooks -----------------------------------------------------------
    def simple(self, stmt: ast.stmt, state):
        yield ("normal", state)

    def cond(self, test: ast.expr, state):
        return [state], [state]

    def bind_loop(self, node: ast.For | ast.While, state, i: int):
        return state

    def enter_loop(self, node, state):
        return state

    def exit_loop(self, node, state):
        return state

    def enter_with(self, node: ast.With, state):
        return state

    def enter_handler(self, handler: ast.ExceptHandler, state, excname):
        return state

    def raise_name(self, stmt: ast.Raise) -> str | None:
        exc = stmt.exc
        if exc is None:
            return None
        if isinstance(exc, ast.Call):
            exc = exc.func
        if isinstance(exc, ast.Name):
            return exc.id
        if isinstance(exc, ast.Attribute):
            return exc.attr
        return None

    def handler_matches(self, handler: ast.ExceptHandler, excname: str | None) -> str:
        """'yes' | 'no' | 'maybe'."""
        if handler.type is None:
            return "yes"
        names = []
        t = handler.type
        for e in t.elts if isinstance(t, ast.Tuple) else [t]:
            if isinstance(e, ast.Name):
                names.append(e.id)
            elif isinstance(e, ast.Attribute):
                names.append(e.attr)
        if any(n in CATCH_ALL for n in names):
            return "yes"
        if excname is None:
            return "maybe"
        return "yes" if excname in names else "no"

    # ---- driver ----------------------------------------------------------
    def run_function(self, fn: ast.FunctionDef, state) -> Outcome:
        from .core import strip_docstring

        out = self.block(strip_docstring(fn.body), [state])
        # falling off the end is a return
        for s in out.normal:
            out.returns.append((s, fn))
        out.normal = []
        return out

    def block(self, stmts: list[ast.stmt], states: list) -> Outcome:
        out = Outcome()
        cur = _dedup(list(states))
        for s in stmts:
            if not cur:
                break
            if len(cur) > self.max_states:
                raise AnalysisError(f"state explosion at line {s.lineno}")
            nxt: list = []
            for st in cur:
                o = self.stmt(s, st)
                nxt.extend(o.normal)
                out.absorb(o, normal=False)
            cur = _dedup(nxt)
        out.normal = cur
        return out

    def stmt(self, s: ast.stmt, st) -> Outcome:
        out = Outcome()
        if isinstance(s, ast.If):
            t, f = self.cond(s.test, st)
            if t:
                out.absorb(self.block(s.body, t))
            if f:
                if s.orelse:
                    out.absorb(self.block(s.orelse, f))
                else:
                    out.normal.extend(f)
        elif isinstance(s, (ast.For, ast.AsyncFor)):
            self._loop(s, st, out)
        elif isinstance(s, ast.While):
            self._loop(s, st, out)
        elif isinstance(s, ast.Try):
            self._try(s, st, out)
        elif isinstance(s, (ast.With, ast.AsyncWith)):
            out.absorb(self.block(s.body, [self.enter_with(s, st)]))
        elif isinstance(s, ast.Match):
            exhaustive = False
            for case in s.cases:
                out.absorb(self.block(case.body, [st]))
                if isinstance(case.pattern, ast.MatchAs) and case.pattern.pattern is None and case.guard is None:
                    exhaustive = True
            if not exhaustive:
                out.normal.append(st)
        elif isinstance(s, ast.Return):
            for kind, st2, *rest in self.simple(s, st):
                if kind == "raise":
                    out.raises.append((st2, s, rest[0] if rest else None))
                else:
                    out.returns.append((st2, s))
        elif isinstance(s, ast.Raise):
            for kind, st2, *rest in self.simple(s, st):
                out.raises.append((st2, s, rest[0] if (rest and kind == "raise") else self.raise_name(s)))
        elif isinstance(s, ast.Break):
            out.breaks.append(st)
        elif isinstance(s, ast.Continue):
            out.continues.append(st)
        elif isinstance(s, (ast.FunctionDef, ast.AsyncFunctionDef, ast.ClassDef)):
            for kind, st2, *rest in self.simple(s, st):
                out.normal.append(st2)
        else:
            for kind, st2, *rest in self.simple(s, st):
                if kind == "normal":
                    out.normal.append(st2)
                elif kind == "raise":
                    out.raises.append((st2, s, rest[0] if rest else None))
                elif kind == "return":
                    out.returns.append((st2, s))
        return out

    def _loop(self, s, st, out: Outcome) -> None:
        is_for = isinstance(s, (ast.For, ast.AsyncFor))
        const_true = (
            not is_for and isinstance(s.test, ast.Constant) and bool(s.test.value) is True
        )
        exits: list = []  # states leaving through exhaustion (run orelse)
        cur = [self.enter_loop(s, st)]
        for i in range(self.loop_unroll + 1):
            if not cur:
                break
            if is_for:
                enter, leave = cur, list(cur)
            elif const_true:
                enter, leave = cur, []
            else:
                enter, leave = [], []
                for c in cur:
                    t, f = self.cond(s.test, c)
                    enter.extend(t)
                    leave.extend(f)
            exits.extend(leave)
            if i == self.loop_unroll:
                break
            body_in = [self.bind_loop(s, c, i) for c in enter]
            o = self.block(s.body, body_in)
            out.returns.extend(o.returns)
            out.raises.extend(o.raises)
            for b in o.breaks:
                out.normal.append(self.exit_loop(s, b))
            cur = _dedup(o.normal + o.continues)
        exits = _dedup([self.exit_loop(s, e) for e in exits])
        if s.orelse:
            out.absorb(self.block(s.orelse, exits))
        else:
            out.normal.extend(exits)

    def _try(self, s: ast.Try, st, out: Outcome) -> None:
        body = self.block(s.body, [st])
        inner = Outcome()
        inner.returns.extend(body.returns)
        inner.breaks.extend(body.breaks)
        inner.continues.extend(body.continues)
        if s.orelse:
            inner.absorb(self.block(s.orelse, body.normal))
        else:
            inner.normal.extend(body.normal)
        for rst, rnode, exc in body.raises:
            caught = False
            for h in s.handlers:
                m = self.handler_matches(h, exc)
                if m == "no":
                    continue
                inner.absorb(self.block(h.body, [self.enter_handler(h, rst, exc)]))
                if m == "yes":
                    caught = True
                    break
            if not caught:
                inner.raises.append((rst, rnode, exc))
        if s.finalbody:
            fin = Outcome()
            for kind in ("normal", "breaks", "continues"):
                sts = getattr(inner, kind)
                if sts:
                    o = self.block(s.finalbody, sts)
                    getattr(fin, kind).extend(o.normal)
                    fin.returns.extend(o.returns)
                    fin.raises.extend(o.raises)
            for rst, rnode in inner.returns:
                o = self.block(s.finalbody, [rst])
                fin.returns.extend((x, rnode) for x in o.normal)
                fin.returns.extend(o.returns)
                fin.raises.extend(o.raises)
            for rst, rnode, exc in inner.raises:
                o = self.block(s.finalbody, [rst])
                fin.raises.extend((x, rnode, exc) for x in o.normal)
                fin.returns.extend(o.returns)
                fin.raises.extend(o.raises)
            out.absorb(fin)
        else:
            out.absorb(inner)


# ---------------------------------------------------------------------------------------------------------------------
# Forward expression propagation along paths ("what is stored where, in terms of the function's inputs")
# ---------------------------------------------------------------------------------------------------------------------
@dataclass(frozen=True)
class Sym:
    env: tuple = ()      # ((name | "self.attr", expression text in terms of the values at function entry), ..)
    conds: tuple = ()    # ((test text, polarity), ..) decided on this path, in order
    events: tuple = ()   # (("set", target, text) | ("call", text), ..) in execution order

    def get(self, k: str, default=None):
        for n, v in self.env:
            if n == k:
                return v
        return default

    def set(self, k: str, v: str) -> "Sym":
        # rebinding a name forgets what was recorded about its attributes
        drop = (k + ".") if "." not in k else None
        return Sym(tuple((n, x) for n, x in self.env if n != k and not (drop and n.startswith(drop))) + ((k, v),), self.conds, self.events)

    def event(self, *e) -> "Sym":
        return Sym(self.env, self.conds, self.events + (tuple(e),))

    def cond(self, t: str, pol: bool) -> "Sym":
        return Sym(self.env, self.conds + ((t, pol),), self.events)

    def stores(self) -> list:
        """(target text, value text) of every subscript / attribute store on the path, the base object written with the expression
        it was created from (`d = table.setdefault(k, {}); d[x] = v` reads as `table.setdefault(k, {})[x] = v`)."""
        made = {}
        out = []
        for e in self.events:
            if e[0] == "new":
                made[e[1]] = e[2]
            elif e[0] == "store":
                tgt = e[1]
                for name, txt in made.items():
                    if tgt.startswith(name + "[") or tgt.startswith(name + "."):
                        tgt = txt + tgt[len(name):]
                        break
                out.append((tgt, e[2]))
        return out


class _SymSub(ast.NodeTransformer):
    def __init__(self, st: Sym):
        self.st = st
        self.bound: set[str] = set()

    def _scoped(self, node, names):
        old = set(self.bound)
        self.bound |= names
        out = self.generic_visit(node)
        self.bound = old
        return out

    def visit_ListComp(self, n):
        return self._scoped(n, {x.id for g in n.generators for x in ast.walk(g.target) if isinstance(x, ast.Name)})

    visit_SetComp = visit_DictComp = visit_GeneratorExp = visit_ListComp

    def visit_Lambda(self, n):
        return self._scoped(n, {a.arg for a in n.args.args + n.args.kwonlyargs + n.args.posonlyargs})

    def visit_NamedExpr(self, n):
        # the value of `(x := e)` is e
        return self.visit(n.value)

    def visit_Call(self, n):
        # typing.cast(T, e) is e
        if ast.unparse(n.func) in ("cast", "typing.cast", "t.cast") and len(n.args) == 2 and not n.keywords:
            return self.visit(n.args[1])
        return self.generic_visit(n)

    def visit_Name(self, n):
        if isinstance(n.ctx, ast.Load) and n.id not in self.bound:
            v = self.st.get(n.id)
            if v is not None:
                return ast.parse(v, mode="eval").body
        return n

    def visit_Attribute(self, n):
        # attributes of self are state, not staging: they are never substituted (a read after a store means the new value)
        if isinstance(n.value, ast.Name) and n.value.id == "self":
            return n
        if isinstance(n.ctx, ast.Load) and isinstance(n.value, ast.Name) and n.value.id not in self.bound:
            base = n.value.id
            alias = self.st.get(base)
            if alias is not None and alias.isidentifier():
                base = alias  # `p = q` : attributes recorded for q are p's
            v = self.st.get(f"{base}.{n.attr}")
            if v is not None:
                return ast.parse(v, mode="eval").body
        return self.generic_visit(n)


def canon_isinstance(subject: str, classes: list[str]) -> str:
    cl = sorted(set(classes))
    return f"isinstance({subject}, {cl[0]})" if len(cl) == 1 else f"isinstance({subject}, ({', '.join(cl)}))"


def _class_list(e: ast.AST) -> list[str] | None:
    if isinstance(e, ast.Tuple):
        out = []
        for x in e.elts:
            r = _class_list(x)
            if r is None:
                return None
            out += r
        return out
    if isinstance(e, ast.BinOp) and isinstance(e.op, ast.BitOr):
        l_, r_ = _class_list(e.left), _class_list(e.right)
        return None if l_ is None or r_ is None else l_ + r_
    if isinstance(e, (ast.Name, ast.Attribute)):
        return [ast.unparse(e)]
    return None


class _CanonComp(ast.NodeTransformer):
    """Comprehension variables renamed to _c0, _c1, .. in order of appearance (alpha-normal form of the bound names)."""

    def __init__(self) -> None:
        self.n = 0
        self.m: dict[str, str] = {}

    def _comp(self, node):
        old = dict(self.m)
        for g in node.generators:
            g.iter = self.visit(g.iter)
            for t in ast.walk(g.target):
                if isinstance(t, ast.Name):
                    self.m[t.id] = f"_c{self.n}"
                    self.n += 1
            g.target = self.visit(g.target)
            g.ifs = [self.visit(i) for i in g.ifs]
        if isinstance(node, ast.DictComp):
            node.key, node.value = self.visit(node.key), self.visit(node.value)
        else:
            node.elt = self.visit(node.elt)
        self.m = old
        return node

    visit_ListComp = visit_SetComp = visit_GeneratorExp = visit_DictComp = _comp

    def visit_Name(self, n):
        if n.id in self.m:
            return ast.copy_location(ast.Name(id=self.m[n.id], ctx=n.ctx), n)
        return n


class SymInterp(PathInterp):
    """Each path carries the expressions (as normalised text over the entry values) bound to locals and self attributes, the
    branch decisions taken and the sequence of attribute stores / statement-level calls.  Locals are substituted away, so two
    functions that differ only in how they name or stage intermediate values produce the same path summaries."""

    loop_unroll = 1
    mutated: set | None = None   # names whose object is mutated in place somewhere in the analysed code (never substituted)
    epochs = False   # True: the value of an assignment that contains a call is tagged AT(<number of statement-level calls so far>, ..)

    MUTATORS = ("append", "extend", "update", "add", "setdefault", "pop", "remove", "insert", "clear", "discard", "popitem", "sort", "reverse")

    def block(self, stmts, states):
        if self.mutated is None:
            self.mutated = set()
            for s_ in stmts:
                for n in ast.walk(s_):
                    if isinstance(n, (ast.Assign, ast.AugAssign, ast.Delete)):
                        tgts = n.targets if isinstance(n, (ast.Assign, ast.Delete)) else [n.target]
                        for t in tgts:
                            if isinstance(t, (ast.Subscript, ast.Attribute)) and isinstance(t.value, ast.Name) and t.value.id != "self":
                                self.mutated.add(t.value.id)
                    elif isinstance(n, ast.Call) and isinstance(n.func, ast.Attribute) and isinstance(n.func.value, ast.Name) and n.func.attr in self.MUTATORS:
                        self.mutated.add(n.func.value.id)
        return PathInterp.block(self, stmts, states)

    def text(self, e: ast.AST, st: Sym) -> str:
        import copy as _copy

        return ast.unparse(_CanonComp().visit(_SymSub(st).visit(_copy.deepcopy(e))))

    def _walrus(self, e: ast.AST, st: Sym) -> Sym:
        for n in ast.walk(e):
            if isinstance(n, ast.NamedExpr) and isinstance(n.target, ast.Name):
                st = st.set(n.target.id, self.text(n.value, st))
        return st

    def assign(self, target: ast.AST, value_text, st: Sym, value_node: ast.AST | None = None) -> Sym:
        if isinstance(value_text, list):
            # structured item of a loop: destructure along the target, else keep it as a tuple
            if isinstance(target, (ast.Tuple, ast.List)) and len(target.elts) == len(value_text):
                for t, v in zip(target.elts, value_text):
                    st = self.assign(t, v, st)
                return st
            value_text = "(" + ", ".join(self._flat(v) for v in value_text) + ")"
        if isinstance(target, ast.Name):
            if value_node is not None and isinstance(value_node, ast.Call) and isinstance(value_node.func, ast.Attribute) and value_node.func.attr in ("copy", "deepcopy") \
                    and isinstance(value_node.func.value, ast.Name) and value_node.func.value.id == target.id and not value_node.args:
                return st.event("copy", target.id)  # `x = x.copy()`: same content, the binding is kept
            if value_node is not None and isinstance(value_node, ast.Call) and ast.unparse(value_node.func) in ("copy.deepcopy", "copy.copy", "deepcopy") \
                    and len(value_node.args) == 1 and isinstance(value_node.args[0], ast.Name) and value_node.args[0].id == target.id:
                return st.event("copy", target.id)
            if value_node is not None and self.mutated and target.id in self.mutated and not isinstance(value_node, (ast.Name, ast.Constant)):
                # an object that is mutated in place later: it keeps its name
                drop = Sym(tuple((n, x) for n, x in st.env if n != target.id), st.conds, st.events)
                return drop.event("new", target.id, value_text)
            if value_node is not None and ((isinstance(value_node, ast.Dict) and not value_node.keys) or (isinstance(value_node, (ast.List, ast.Set)) and not value_node.elts) or (
                    isinstance(value_node, ast.Call) and ast.unparse(value_node.func) in ("dict", "list", "set", "defaultdict", "collections.defaultdict", "OrderedDict") and not value_node.args)):
                # a fresh mutable container: an object that later statements fill; the name stays (it is not a staging alias)
                drop = Sym(tuple((n, x) for n, x in st.env if n != target.id), st.conds, st.events)
                return drop.event("new", target.id, value_text)
            return st.set(target.id, value_text)
        if isinstance(target, ast.Attribute) and isinstance(target.value, ast.Name) and target.value.id != "self":
            k = f"{target.value.id}.{target.attr}"
            shown = f"{st.get(target.value.id, target.value.id)}.{target.attr}"
            return st.set(k, value_text).event("store", shown, value_text)
        if isinstance(target, ast.Attribute) and isinstance(target.value, ast.Name) and target.value.id == "self":
            k = f"self.{target.attr}"
            return st.set(k, value_text).event("set", k, value_text)
        if isinstance(target, (ast.Tuple, ast.List)) and isinstance(value_node, (ast.Tuple, ast.List)) and len(target.elts) == len(value_node.elts):
            texts = [self.text(v, st) for v in value_node.elts]
            for t, v in zip(target.elts, texts):
                st = self.assign(t, v, st)
            return st
        if isinstance(target, (ast.Tuple, ast.List)):
            for i, t in enumerate(target.elts):
                st = self.assign(t, f"({value_text})[{i}]", st)
            return st
        # subscript / foreign attribute store: an event, no binding
        return st.event("store", self.text(target, st), value_text)

    def _flat(self, v) -> str:
        return v if isinstance(v, str) else "(" + ", ".join(self._flat(x) for x in v) + ")"

    def item(self, it: ast.AST, i: int, st: Sym):
        """The i-th item of an iteration source: a text, or a list of component texts for zip / iterrows / enumerate."""
        if isinstance(it, ast.Call) and ast.unparse(it.func) == "zip":
            return [self.item(a, i, st) for a in it.args]
        if isinstance(it, ast.Call) and ast.unparse(it.func) == "enumerate" and len(it.args) == 1:
            return [str(i), self.item(it.args[0], i, st)]
        if isinstance(it, ast.Call) and isinstance(it.func, ast.Attribute) and it.func.attr == "iterrows" and not it.args:
            base = it.func.value
            idx = self.text(ast.Attribute(value=base, attr="index", ctx=ast.Load()), st)
            return [f"ITEM({i}, {idx})", f"ROW({i}, {self.text(base, st)})"]
        if isinstance(it, ast.Call) and isinstance(it.func, ast.Attribute) and it.func.attr == "items" and not it.args:
            base = self.text(it.func.value, st)
            return [f"KEY({i}, {base})", f"VALUE({i}, {base})"]
        if isinstance(it, (ast.GeneratorExp, ast.ListComp)) and len(it.generators) == 1 and not it.generators[0].ifs:
            g = it.generators[0]
            inner = self.assign(g.target, self.item(g.iter, i, st), st)
            return self.text(it.elt, inner)
        return f"ITEM({i}, {self.text(it, st)})"

    def _tag(self, vt: str, node: ast.AST, st: Sym) -> str:
        if self.epochs and any(isinstance(n, ast.Call) for n in ast.walk(node)):
            try:
                top = ast.parse(vt, mode="eval").body
            except SyntaxError:
                return vt
            if isinstance(top, ast.Call) and ast.unparse(top.func) == "AT":
                return vt
            # only calls that are not already tagged need the epoch of this statement
            k = sum(1 for e in st.events if e[0] == "call")

            class T(ast.NodeTransformer):
                def visit_Call(self_i, n):
                    if ast.unparse(n.func) == "AT":
                        return n
                    if ast.unparse(n.func) in ("ITEM", "KEY", "VALUE", "ROW"):
                        return n
                    self_i.generic_visit(n)
                    return ast.Call(func=ast.Name(id="AT", ctx=ast.Load()), args=[ast.Constant(value=k), n], keywords=[])
            return ast.unparse(T().visit(top))
        return vt

    def simple(self, stmt, st: Sym):
        if isinstance(stmt, ast.Assign):
            st = self._walrus(stmt.value, st)
            v = stmt.value
            # `a, b = (f(x) for x in (p, q))`: element-wise
            if len(stmt.targets) == 1 and isinstance(stmt.targets[0], (ast.Tuple, ast.List)) and isinstance(v, (ast.GeneratorExp, ast.ListComp)) \
                    and len(v.generators) == 1 and not v.generators[0].ifs and isinstance(v.generators[0].iter, (ast.Tuple, ast.List)) \
                    and len(v.generators[0].iter.elts) == len(stmt.targets[0].elts) and isinstance(v.generators[0].target, ast.Name):
                g = v.generators[0]
                for t, item in zip(stmt.targets[0].elts, g.iter.elts):
                    inner = st.set(g.target.id, self.text(item, st))
                    st = self.assign(t, self._tag(self.text(v.elt, inner), v.elt, st), st)
                    if self.epochs and any(isinstance(n, ast.Call) for n in ast.walk(v.elt)):
                        st = st.event("eval", "")
                yield ("normal", st)
                return
            vt = self._tag(self.text(v, st), v, st)
            for t in stmt.targets:
                st = self.assign(t, vt, st, v)
            yield ("normal", st)
        elif isinstance(stmt, ast.AnnAssign) and stmt.value is not None:
            st = self._walrus(stmt.value, st)
            yield ("normal", self.assign(stmt.target, self.text(stmt.value, st), st, stmt.value))
        elif isinstance(stmt, ast.AugAssign):
            op = {ast.Add: "+", ast.Sub: "-", ast.Mult: "*", ast.Div: "/", ast.BitOr: "|", ast.BitAnd: "&"}.get(type(stmt.op), "?")
            cur = st.get(stmt.target.id, stmt.target.id) if isinstance(stmt.target, ast.Name) else self.text(stmt.target, st)
            val = self._tag(self.text(stmt.value, st), stmt.value, st)
            raw = f"({cur}) {op} ({val})"
            try:
                raw = ast.unparse(ast.parse(raw, mode="eval"))  # drops redundant parentheses
            except SyntaxError:
                pass
            yield ("normal", self.assign(stmt.target, raw, st))
        elif isinstance(stmt, ast.Expr):
            st = self._walrus(stmt.value, st)
            if isinstance(stmt.value, ast.Call):
                st = st.event("call", self.text(stmt.value, st))
            yield ("normal", st)
        elif isinstance(stmt, ast.Return):
            if stmt.value is not None:
                st = self._walrus(stmt.value, st)
                st = st.event("return", self.text(stmt.value, st))
            yield ("return", st)
        elif isinstance(stmt, ast.Raise):
            yield ("raise", st.event("raise", self.text(stmt.exc, st) if stmt.exc is not None else ""), self.raise_name(stmt))
        else:
            yield ("normal", st)

    def cond(self, test, st: Sym):
        if isinstance(test, ast.Constant) and isinstance(test.value, bool):
            return ([st], []) if test.value else ([], [st])
        st = self._walrus(test, st)
        pol = True
        t = test
        while isinstance(t, ast.UnaryOp) and isinstance(t.op, ast.Not):
            pol, t = not pol, t.operand
        # canonical polarity: `X is not None` is decided as `X is None` with the opposite outcome; likewise `!=` / `not in`
        if isinstance(t, ast.Compare) and len(t.ops) == 1 and isinstance(t.ops[0], (ast.IsNot, ast.NotEq, ast.NotIn)):
            flip = {ast.IsNot: ast.Is, ast.NotEq: ast.Eq, ast.NotIn: ast.In}[type(t.ops[0])]
            t = ast.copy_location(ast.Compare(left=t.left, ops=[flip()], comparators=t.comparators), t)
            pol = not pol
        txt = self.text(t, st)
        if txt.endswith(" is None") and txt[: -len(" is None")].isidentifier() and any(e[0] == "new" and e[1] == txt[: -len(" is None")] for e in st.events):
            # a name that denotes an object created on this path is not None
            return ([], [st]) if pol else ([st], [])
        if txt in ("None is None", "None is not None"):
            val = (txt == "None is None") == pol
            return ([st], []) if val else ([], [st])
        if isinstance(t, ast.Call) and ast.unparse(t.func) == "isinstance" and len(t.args) == 2 and not t.keywords:
            cl = _class_list(t.args[1])
            if cl:
                txt = canon_isinstance(self.text(t.args[0], st), cl)
        # decided earlier on this path?
        for c, p in st.conds:
            if c == txt:
                return ([st], []) if p == pol else ([], [st])
        return [st.cond(txt, pol)], [st.cond(txt, not pol)]

    def bind_loop(self, node, st: Sym, i: int):
        if isinstance(node, ast.For):
            st = self.assign(node.target, self.item(node.iter, i, st), st)
        return st


def _sym_match(self: SymInterp, s: ast.Match, st: Sym) -> Outcome:
    """match as an isinstance chain: class patterns decide `isinstance(subject, Cls)`, keyword sub-patterns bind
    `subject.attr`, `case _ as e` binds the subject; a case is entered only if the earlier class tests failed."""
    out = Outcome()
    st = self._walrus(s.subject, st)
    subj = self.text(s.subject, st)
    cur = st
    exhaustive = False
    for case in s.cases:
        p = case.pattern
        alts = p.patterns if isinstance(p, ast.MatchOr) else None
        if alts is not None and case.guard is None and all(isinstance(a, ast.MatchClass) and not a.patterns and not a.kwd_patterns for a in alts):
            test = canon_isinstance(subj, [ast.unparse(a.cls) for a in alts])
            out.absorb(self.block(case.body, [cur.cond(test, True)]))
            cur = cur.cond(test, False)
        elif isinstance(p, ast.MatchAs) and isinstance(p.pattern, ast.MatchClass) and not p.pattern.patterns and not p.pattern.kwd_patterns and case.guard is None:
            test = f"isinstance({subj}, {ast.unparse(p.pattern.cls)})"
            inside = cur.cond(test, True)
            if p.name:
                inside = inside.set(p.name, subj)
            out.absorb(self.block(case.body, [inside]))
            cur = cur.cond(test, False)
        elif isinstance(p, ast.MatchClass) and not p.patterns and case.guard is None:
            test = f"isinstance({subj}, {ast.unparse(p.cls)})"
            inside = cur.cond(test, True)
            for name, sub in zip(p.kwd_attrs, p.kwd_patterns):
                if isinstance(sub, ast.MatchAs) and sub.pattern is None and sub.name:
                    inside = inside.set(sub.name, f"{subj}.{name}" if subj.isidentifier() or "." in subj and " " not in subj else f"({subj}).{name}")
            out.absorb(self.block(case.body, [inside]))
            cur = cur.cond(test, False)
        elif isinstance(p, ast.MatchAs) and case.guard is None and (p.pattern is None or (isinstance(p.pattern, ast.MatchAs) and p.pattern.pattern is None and p.pattern.name is None)):
            inside = cur.set(p.name, subj) if p.name else cur
            out.absorb(self.block(case.body, [inside]))
            exhaustive = True
            break
        else:
            # other patterns: entered with no extra knowledge
            out.absorb(self.block(case.body, [cur]))
    if not exhaustive:
        out.normal.append(cur)
    return out


def _sym_stmt(self: SymInterp, s: ast.stmt, st: Sym) -> Outcome:
    if isinstance(s, ast.Match):
        return _sym_match(self, s, st)
    if isinstance(s, ast.Return) and isinstance(s.value, ast.IfExp):
        as_if = ast.If(test=s.value.test, body=[ast.copy_location(ast.Return(value=s.value.body), s)], orelse=[ast.copy_location(ast.Return(value=s.value.orelse), s)])
        ast.copy_location(as_if, s)
        return PathInterp.stmt(self, as_if, st)
    if isinstance(s, ast.Assign) and isinstance(s.value, ast.IfExp):
        # `x = a if c else b` is the two-armed if
        as_if = ast.If(test=s.value.test,
                       body=[ast.copy_location(ast.Assign(targets=s.targets, value=s.value.body), s)],
                       orelse=[ast.copy_location(ast.Assign(targets=s.targets, value=s.value.orelse), s)])
        ast.copy_location(as_if, s)
        return PathInterp.stmt(self, as_if, st)
    return PathInterp.stmt(self, s, st)


SymInterp.stmt = _sym_stmt  # type: ignore[method-assign]


def _sym_try(self: SymInterp, s: ast.Try, st: Sym, out: Outcome) -> None:
    """As PathInterp._try, plus the implicit exceptions: each handler is also entered from the state at the start of the try
    block (the guarded statements raised before completing), recorded as the decision `<Exc> raised`."""
    PathInterp._try(self, s, st, out)
    if s.finalbody:
        return
    for h in s.handlers:
        exc = ast.unparse(h.type) if h.type is not None else "BaseException"
        hst = st.cond(f"{exc} raised", True)
        if h.name:
            hst = hst.set(h.name, f"CAUGHT({exc})")
        out.absorb(self.block(h.body, [hst]))


SymInterp._try = _sym_try  # type: ignore[method-assign]
