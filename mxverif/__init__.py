"""Static-analysis checkers for MxlPy's semantic properties (see /verif/DESIGN.md).

Nothing in this package imports or executes MxlPy code: every verdict is derived
from the source text of /repo's current working tree, parsed on every run.
"""
