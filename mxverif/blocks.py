"""Block abstraction for code that classifies the names of the dependency order of Model._create_cache.

Every name the sorter orders belongs to exactly one block (names are unique across containers, property C03/I2):
  IAv  variable whose initial value is an InitialAssignment      IAp  parameter whose value is an InitialAssignment
  D    derived quantity        R  reaction        S  surrogate
Membership tests on such a name are decided by its block; `all args in the parameter closure` stays unknown and splits the path.
The interpreter runs one loop iteration per block and records what happens to the name.
"""

from __future__ import annotations

import ast
from dataclasses import dataclass

from .core import norm
from .interp import PathInterp

BLOCKS = ("IAv", "IAp", "D", "R", "S")


def subset_atom(t: ast.AST) -> tuple[str, str] | None:
    """`all(i in S for i in X)` / `S.issuperset(X)` / `set(X) <= S` / `set(X).issubset(S)` -> (X text, S text)."""
    if isinstance(t, ast.Call) and norm(t.func) == "all" and len(t.args) == 1 and isinstance(t.args[0], (ast.GeneratorExp, ast.ListComp)):
        g = t.args[0]
        if len(g.generators) == 1 and not g.generators[0].ifs and isinstance(g.elt, ast.Compare) and len(g.elt.ops) == 1 and isinstance(g.elt.ops[0], ast.In) \
                and norm(g.elt.left) == norm(g.generators[0].target):
            return norm(g.generators[0].iter), norm(g.elt.comparators[0])
    if isinstance(t, ast.Call) and isinstance(t.func, ast.Attribute) and len(t.args) == 1 and not t.keywords:
        if t.func.attr == "issuperset":
            return norm(t.args[0]), norm(t.func.value)
        if t.func.attr == "issubset":
            x = t.func.value
            x = x.args[0] if isinstance(x, ast.Call) and norm(x.func) in ("set", "frozenset") and len(x.args) == 1 else x
            return norm(x), norm(t.args[0])
    if isinstance(t, ast.Compare) and len(t.ops) == 1 and isinstance(t.ops[0], (ast.LtE, ast.GtE)):
        a, b = (t.left, t.comparators[0]) if isinstance(t.ops[0], ast.LtE) else (t.comparators[0], t.left)
        a = a.args[0] if isinstance(a, ast.Call) and norm(a.func) in ("set", "frozenset") and len(a.args) == 1 else a
        return norm(a), norm(b)
    return None


@dataclass(frozen=True)
class BS:
    block: str
    static: int = 0
    dyn: int = 0
    closure: int = 0
    evaluated: int = 0
    frozen: str = ""          # text of the value stored into the frozen table for this name ("" = none)
    subset: str = "?"         # "T" / "F" / "?": the all-args-in-closure predicate on this path
    subset_of: str = ""       # what the predicate was asked of: "<X> <= <S>"


class BlockInterp(PathInterp):
    loop_unroll = 1

    def __init__(self, var: str, names: dict[str, str]):
        """names: roles -> source text: static, dyn (lists), closure (set), table (frozen dict), dep (evaluation mapping)."""
        self.var = var
        self.n = names
        self.walrus: dict[str, str] = {}

    # three-valued evaluation of membership tests under the state's block
    def tv(self, t: ast.AST, st: BS):
        v = self.var
        if isinstance(t, ast.UnaryOp) and isinstance(t.op, ast.Not):
            r = self.tv(t.operand, st)
            return None if r is None else not r
        if isinstance(t, ast.BoolOp):
            rs = [self.tv(x, st) for x in t.values]
            if isinstance(t.op, ast.Or):
                return True if any(r is True for r in rs) else (False if all(r is False for r in rs) else None)
            return False if any(r is False for r in rs) else (True if all(r is True for r in rs) else None)
        if isinstance(t, ast.Compare) and len(t.ops) == 1 and isinstance(t.ops[0], (ast.In, ast.NotIn)) and norm(t.left) == v:
            cont = norm(t.comparators[0])
            table = {"self._variables": {"IAv"}, "self._parameters": {"IAp"}, "self._derived": {"D"}, "self._reactions": {"R"}, "self._surrogates": {"S"},
                     "initial_assignments": {"IAv", "IAp"}}
            if cont in table:
                r = st.block in table[cont]
                return r if isinstance(t.ops[0], ast.In) else not r
            return None
        if isinstance(t, ast.Compare) and len(t.ops) == 1 and isinstance(t.ops[0], (ast.Is, ast.IsNot)) and isinstance(t.comparators[0], ast.Constant) and t.comparators[0].value is None:
            e = t.left.value if isinstance(t.left, ast.NamedExpr) else t.left
            txt = self.walrus.get(norm(e), norm(e))
            for cont, blk in (("self._derived", {"D"}), ("self._reactions", {"R"}), ("self._surrogates", {"S"}), ("initial_assignments", {"IAv", "IAp"})):
                if txt == f"{cont}.get({v})":
                    present = st.block in blk
                    return (not present) if isinstance(t.ops[0], ast.Is) else present
            return None
        if isinstance(t, ast.Call) and norm(t.func) == "isinstance" and len(t.args) == 2 and norm(t.args[0]) in (f"to_sort[{v}]",):
            cls_ = norm(t.args[1])
            m = {"Derived": {"D"}, "Reaction": {"R"}, "AbstractSurrogate": {"S"}, "InitialAssignment": {"IAv", "IAp"}}
            if cls_ in m:
                return st.block in m[cls_]
        return None

    def cond(self, test, st: BS):
        for n in ast.walk(test):
            if isinstance(n, ast.NamedExpr) and isinstance(n.target, ast.Name):
                self.walrus[n.target.id] = norm(n.value)
        r = self.tv(test, st)
        if r is True:
            return [st], []
        if r is False:
            return [], [st]
        sa = subset_atom(test)
        neg = False
        if sa is None and isinstance(test, ast.UnaryOp) and isinstance(test.op, ast.Not):
            sa, neg = subset_atom(test.operand), True
        if sa is not None:
            x = sa[0]
            head = x.split(".")[0]
            if head in self.walrus:
                x = self.walrus[head] + x[len(head):]
            of = f"{x} <= {sa[1]}"
            yes = BS(st.block, st.static, st.dyn, st.closure, st.evaluated, st.frozen, "T", of)
            no = BS(st.block, st.static, st.dyn, st.closure, st.evaluated, st.frozen, "F", of)
            return ([no], [yes]) if neg else ([yes], [no])
        if isinstance(test, ast.Call) and norm(test.func) == "any":
            # a weaker predicate than all(..): recorded so that the rule can name it
            bad = BS(st.block, st.static, st.dyn, st.closure, st.evaluated, st.frozen, st.subset, f"any: {norm(test)[:60]}")
            return [bad], [bad]
        return [st], [st]

    def simple(self, stmt, st: BS):
        v, n = self.var, self.n
        static, dyn, closure, evaluated, frozen = st.static, st.dyn, st.closure, st.evaluated, st.frozen
        for c in ast.walk(stmt):
            if isinstance(c, ast.NamedExpr) and isinstance(c.target, ast.Name):
                self.walrus[c.target.id] = norm(c.value)
            if isinstance(c, ast.Call) and isinstance(c.func, ast.Attribute) and len(c.args) >= 1 and norm(c.args[0]) == v:
                recv = norm(c.func.value)
                if c.func.attr == "append" and recv == n.get("static"):
                    static += 1
                elif c.func.attr == "append" and recv == n.get("dyn"):
                    dyn += 1
                elif c.func.attr == "add" and recv == n.get("closure"):
                    closure += 1
                elif c.func.attr in ("calculate_inpl",) and recv == f"to_sort[{v}]":
                    evaluated += 1
        if isinstance(stmt, ast.Assign) and isinstance(stmt.targets[0], ast.Name) and isinstance(stmt.value, (ast.Subscript, ast.Call, ast.Attribute)):
            self.walrus[stmt.targets[0].id] = norm(stmt.value)
        if isinstance(stmt, ast.Assign) and isinstance(stmt.targets[0], ast.Subscript) and norm(stmt.targets[0].value) == n.get("table") and norm(stmt.targets[0].slice) == v:
            frozen = norm(stmt.value)
        if isinstance(stmt, ast.Raise):
            yield ("raise", st, None)
            return
        yield ("normal", BS(st.block, static, dyn, closure, evaluated, frozen, st.subset, st.subset_of))


def run_blocks(loop: ast.For, names: dict[str, str], blocks=BLOCKS) -> dict[str, list[BS]]:
    """End states of one iteration of `loop` for a name of each block (paths that raise are dropped)."""
    out = {}
    for b in blocks:
        bi = BlockInterp(norm(loop.target), names)
        o = bi.block(loop.body, [BS(b)])
        out[b] = list(o.normal) + list(o.continues)
    return out


def partition_summary(fn: ast.FunctionDef) -> dict[str, set[tuple[str, str, bool]]]:
    """Which dicts of a cache builder are filled from which container entries, split on `value is an InitialAssignment`:
    name -> {(container attribute, value attribute, is-assignment)}.  Understands dict comprehensions (also united with `|`)
    and loops over `self.<container>.items()` that store under the entry's key (decided on the loop body's path summaries)."""
    from .interp import Sym, SymInterp

    out: dict[str, set[tuple[str, str, bool]]] = {}

    def comp_entry(dc: ast.DictComp):
        if len(dc.generators) != 1:
            return None
        g = dc.generators[0]
        src = norm(g.iter)
        if not (src.startswith("self._") and src.endswith(".items()") and isinstance(g.target, ast.Tuple) and len(g.target.elts) == 2 and len(g.ifs) == 1):
            return None
        k, v = norm(g.target.elts[0]), norm(g.target.elts[1])
        t = g.ifs[0]
        pol = True
        while isinstance(t, ast.UnaryOp) and isinstance(t.op, ast.Not):
            pol, t = not pol, t.operand
        if not (isinstance(t, ast.Call) and norm(t.func) == "isinstance" and len(t.args) == 2 and norm(t.args[1]) == "InitialAssignment"):
            return None
        a0 = t.args[0]
        wal = a0.target.id if isinstance(a0, ast.NamedExpr) else None
        val = a0.value if isinstance(a0, ast.NamedExpr) else a0
        if not (isinstance(val, ast.Attribute) and norm(val.value) == v and norm(dc.key) == k and norm(dc.value) in (wal, norm(val))):
            return None
        return src[len("self."):-len(".items()")], val.attr, pol

    def flat(e):
        if isinstance(e, ast.BinOp) and isinstance(e.op, ast.BitOr):
            return flat(e.left) + flat(e.right)
        return [e]

    body = [s for s in fn.body if not (isinstance(s, ast.Expr) and isinstance(s.value, ast.Constant))]
    for s in body:
        if isinstance(s, ast.Assign) and isinstance(s.targets[0], ast.Name):
            parts = flat(s.value)
            ents = [comp_entry(p) for p in parts if isinstance(p, ast.DictComp)]
            if ents and all(e is not None for e in ents) and len(ents) == len(parts):
                out.setdefault(s.targets[0].id, set()).update(ents)
        elif isinstance(s, ast.For) and norm(s.iter).startswith("self._") and norm(s.iter).endswith(".items()") and isinstance(s.target, ast.Tuple) and len(s.target.elts) == 2:
            cont = norm(s.iter)[len("self."):-len(".items()")]
            si = SymInterp()
            st0 = si.assign(s.target, si.item(s.iter, 0, Sym()), Sym())
            o = si.block(s.body, [st0])
            K, V = f"KEY(0, self.{cont})", f"VALUE(0, self.{cont})"
            for st in list(o.normal) + list(o.continues):
                for e in st.events:
                    if e[0] != "store" or not e[1].endswith(f"[{K}]") or not e[2].startswith(V + "."):
                        continue
                    attr = e[2][len(V) + 1:]
                    pol = [p_ for c, p_ in st.conds if c == f"isinstance({V}.{attr}, InitialAssignment)"]
                    if pol and attr.isidentifier():
                        out.setdefault(e[1][: -len(f"[{K}]")], set()).add((cont, attr, pol[-1]))
    return out
