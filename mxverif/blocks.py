"""Block abstraction for code that classifies the names of the dependency order of Model._create_cache.

Every name the sorter orders belongs to exactly one block (names are unique across containers, property C03/I2):
  IAv  variable whose initial value is an InitialAssignment      IAp  parameter whose value is an InitialAssignment
  D    derived quantity        R  reaction        S  surrogate
Membership tests on such a name are decided by its block; `all args in the parameter closure` stays unknown and splits the path.
The interpreter runs one loop iteration per block and records what happens to the name.
"""

from __future__ import annotations

import ast
from dataclasses import dataclass

from .core import norm
from .interp import PathInterp

BLOCKS = ("IAv", "IAp", "D", "R", "S")


def subset_atom(t: ast.AST) -> tuple[str, str] | None:
    """`all(i in S for i in X)` / `S.issuperset(X)` / `set(X) <= S` / `set(X).issubset(S)` -> (X text, S text)."""
    if isinstance(t, ast.Call) and norm(t.func) == "all" and len(t.args) == 1 and isinstance(t.args[0], (ast.GeneratorExp, ast.ListComp)):
        g = t.args[0]
        if len(g.generators) == 1 and not g.generators[0].ifs and isinstance(g.elt, ast.Compare) and len(g.elt.ops) == 1 and isinstance(g.elt.ops[0], ast.In) \
                and norm(g.elt.left) == norm(g.generators[0].target):
            return norm(g.generators[0].iter), norm(g.elt.comparators[0])
    if isinstance(t, ast.Call) and isinstance(t.func, ast.Attribute) and len(t.args) == 1 and not t.keywords:
        if t.func.attr == "issuperset":
            return norm(t.args[0]), norm(t.func.value)
        if t.func.attr == "issubset":
            x = t.func.value
            x = x.args[0] if isinstance(x, ast.Call) and norm(x.func) in ("set", "frozenset") and len(x.args) == 1 else x
            return norm(x), norm(t.args[0])
    if isinstance(t, ast.Compare) and len(t.ops) == 1 and isinstance(t.ops[0], (ast.LtE, ast.GtE)):
        a, b = (t.left, t.comparators[0]) if isinstance(t.ops[0], ast.LtE) else (t.comparators[0], t.left)
        a = a.args[0] if isinstance(a, ast.Call) and norm(a.func) in ("set", "frozenset") and len(a.args) == 1 else a
        return norm(a), norm(b)
    return None


@dataclass(frozen=True)
class BS:
    block: str
    static: int = 0
    dyn: int = 0
    closure: int = 0
    evaluated: int = 0
    frozen: str = ""          # text of the value stored into the frozen table for this name ("" = none)
    subset: str = "?"         # "T" / "F" / "?": the all-args-in-closure predicate on this path
    subset_of: str = ""       # what the predicate was asked of: "<X> <= <S>"


class BlockInterp(PathInterp):
    loop_unroll = 1

    def __init__(self, var: str, names: dict[str, str]):
        """names: roles -> source text: static, dyn (lists), closure (set), table (frozen dict), dep (evaluation mapping)."""
        self.var = var
        self.n = names
        self.walrus: dict[str, str] = {}

    # three-valued evaluation of membership tests under the state's block
    def tv(self, t: ast.AST, st: BS):
        v = self.var
        if isinstance(t, ast.UnaryOp) and isinstance(t.op, ast.Not):
            r = self.tv(t.operand, st)
            return None if r is None else not r
        if isinstance(t, ast.BoolOp):
            rs = [self.tv(x, st) for x in t.values]
            if isinstance(t.op, ast.Or):
                return True if any(r is True for r in rs) else (False if all(r is False for r in rs) else None)
            return False if any(r is False for r in rs) else (True if all(r is True for r in rs) else None)
        if isinstance(t, ast.Compare) and len(t.ops) == 1 and isinstance(t.ops[0], (ast.In, ast.NotIn)) and norm(t.left) == v:
            cont = norm(t.comparators[0])
            table = {"self._variables": {"IAv"}, "self._parameters": {"IAp"}, "self._derived": {"D"}, "self._reactions": {"R"}, "self._surrogates": {"S"},
                     "initial_assignments": {"IAv", "IAp"}}
            if cont in table:
                r = st.block in table[cont]
                return r if isinstance(t.ops[0], ast.In) else not r
            return None
        if isinstance(t, ast.Compare) and len(t.ops) == 1 and isinstance(t.ops[0], (ast.Is, ast.IsNot)) and isinstance(t.comparators[0], ast.Constant) and t.comparators[0].value is None:
            e = t.left.value if isinstance(t.left, ast.NamedExpr) else t.left
            txt = self.walrus.get(norm(e), norm(e))
            for cont, blk in (("self._derived", {"D"}), ("self._reactions", {"R"}), ("self._surrogates", {"S"}), ("initial_assignments", {"IAv", "IAp"})):
                if txt == f"{cont}.get({v})":
                    present = st.block in blk
                    return (not present) if isinstance(t.ops[0], ast.Is) else present
            return None
        if isinstance(t, ast.Call) and norm(t.func) == "isinstance" and len(t.args) == 2 and norm(t.args[0]) in (f"to_sort[{v}]",):
            cls_ = norm(t.args[1])
            m = {"Derived": {"D"}, "Reaction": {"R"}, "AbstractSurrogate": {"S"}, "InitialAssignment": {"IAv", "IAp"}}
            if cls_ in m:
                return st.block in m[cls_]
        return None

    def cond(self, test, st: BS):
        for n in ast.walk(test):
            if isinstance(n, ast.NamedExpr) and isinstance(n.target, ast.Name):
                self.walrus[n.target.id] = norm(n.value)
        r = self.tv(test, st)
        if r is True:
            return [st], []
        if r is False:
            return [], [st]
        sa = subset_atom(test)
        neg = False
        if sa is None and isinstance(test, ast.UnaryOp) and isinstance(test.op, ast.Not):
            sa, neg = subset_atom(test.operand), True
        if sa is not None:
            x = sa[0]
            head = x.split(".")[0]
            if head in self.walrus:
                x = self.walrus[head] + x[len(head):]
            of = f"{x} <= {sa[1]}"
            yes = BS(st.block, st.static, st.dyn, st.closure, st.evaluated, st.frozen, "T", of)
            no = BS(st.block, st.static, st.dyn, st.closure, st.evaluated, st.frozen, "F", of)
            return ([no], [yes]) if neg else ([yes], [no])
        if isinstance(test, ast.Call) and norm(test.func) == "any":
            # a weaker predicate than all(..): recorded so that the rule can name it
            bad = BS(st.block, st.static, st.dyn, st.closure, st.evaluated, st.frozen, st.subset, f"any: {norm(test)[:60]}")
            return [bad], [bad]
        return [st], [st]

    def simple(self, stmt, st: BS):
        v, n = self.var, self.n
        static, dyn, closure, evaluated, frozen = st.static, st.dyn, st.closure, st.evaluated, st.frozen
        for c in ast.walk(stmt):
            if isinstance(c, ast.NamedExpr) and isinstance(c.target, ast.Name):
                self.walrus[c.target.id] = norm(c.value)
            if isinstance(c, ast.Call) and isinstance(c.func, ast.Attribute) and len(c.args) >= 1 and norm(c.args[0]) == v:
                recv = norm(c.func.value)
                if c.func.attr == "append" and recv == n.get("static"):
                    static += 1
                elif c.func.attr == "append" and recv == n.get("dyn"):
                    dyn += 1
                elif c.func.attr == "add" and recv == n.get("closure"):
                    closure += 1
                elif c.func.attr in ("calculate_inpl",) and recv == f"to_sort[{v}]":
                    evaluated += 1
        if isinstance(stmt, ast.Assign) and isinstance(stmt.targets[0], ast.Name) and isinstance(stmt.value, (ast.Subscript, ast.Call, ast.Attribute)):
            self.walrus[stmt.targets[0].id] = norm(stmt.value)
        if isinstance(stmt, ast.Assign) and isinstance(stmt.targets[0], ast.Subscript) and norm(stmt.targets[0].value) == n.get("table") and norm(stmt.targets[0].slice) == v:
            frozen = norm(stmt.value)
        if isinstance(stmt, ast.Raise):
            yield ("raise", st, None)
            return
        yield ("normal", BS(st.block, static, dyn, closure, evaluated, frozen, st.subset, st.subset_of))


def run_blocks(loop: ast.For, names: dict[str, str], blocks=BLOCKS) -> dict[str, list[BS]]:
    """End states of one iteration of `loop` for a name of each block (paths that raise are dropped)."""
    out = {}
    for b in blocks:
        bi = BlockInterp(norm(loop.target), names)
        o = bi.block(loop.body, [BS(b)])
        out[b] = list(o.normal) + list(o.continues)
    return out
