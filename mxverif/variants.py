"""Seeded-variant sweep: validation of the *checker* (DESIGN.md section 3, Appendix B).

A variant is a single edit of one function of /repo's current sources, computed on the
formatting-independent `ast.unparse` text of that function and applied **in memory** (the
analyser's Program takes source overrides; nothing is written to disk and /repo is never
touched).  `must_fire` variants break a rule and must be reported as a *new* VIOLATED obligation
whose key contains `expect`; `must_stay_silent` variants are behaviour-preserving rewrites and
must not change the set of violated / undecided obligations.

A variant whose `old` text does not occur (the tree moved on, or the construct is already in its
broken form) is *skipped* and counted.  A miss is an analysis error (exit 2) - the property is
not thereby violated, but the checker cannot be trusted on this tree.
"""

from __future__ import annotations

import ast
import os
import textwrap
from concurrent.futures import ProcessPoolExecutor
from dataclasses import dataclass
from pathlib import Path

from .core import UNDECIDED, VIOLATED, AnalysisError, Check, Program, evaluate


@dataclass
class Variant:
    name: str
    module: str
    function: str  # qualname; "" = whole module
    old: str
    new: str
    expect: str = ""  # substring of the key of the new violation (must_fire)
    quick: bool = False  # also run in the quick tier (tiny positive example per rule)
    count: int = 1  # required number of occurrences (0 = any, at least one)
    regex: bool = False


def apply_variant(prog: Program, v: Variant) -> Program | None:
    """Return a Program with the edit applied, or None when the anchor text is absent."""
    mod = prog.module(v.module)
    src = mod.source
    if v.function == "":
        text = ast.unparse(mod.tree)
        if text.count(v.old) != v.count:
            return None
        return prog.with_override(v.module, text.replace(v.old, v.new))
    if not mod.has_func(v.function):
        return None
    fn = mod.func(v.function)
    text = ast.unparse(fn)
    if v.regex:
        import re

        n = len(re.findall(v.old, text))
        if n == 0 or (v.count and n != v.count):
            return None
        new_text = re.sub(v.old, v.new, text)
    else:
        n = text.count(v.old)
        if n == 0 or (v.count and n != v.count):
            return None
        new_text = text.replace(v.old, v.new)
    try:
        ast.parse(new_text)
    except SyntaxError as e:
        raise AnalysisError(f"variant {v.name}: edit does not parse: {e}") from e
    lines = src.splitlines(keepends=True)
    first = min([fn.lineno] + [d.lineno for d in fn.decorator_list]) - 1
    last = fn.end_lineno or fn.lineno
    indent = " " * fn.col_offset
    repl = textwrap.indent(new_text, indent) + "\n"
    new_src = "".join(lines[:first]) + repl + "".join(lines[last:])
    return prog.with_override(v.module, new_src)


def _signature(cls: type[Check], prog: Program, tier: str):
    chk = cls(prog, tier)
    evaluate(chk)
    viol = {o.key for o in chk.obs if o.verdict == VIOLATED}
    und = {o.key for o in chk.obs if o.verdict == UNDECIDED}
    return viol, und


def _run_one(args):
    cls, repo, tier, v, kind, base_viol, base_und = args
    try:
        prog = Program(repo)
        p2 = apply_variant(prog, v)
        if p2 is None:
            # an anchor that is absent although the function is still the reference function means the variant itself is stale
            try:
                from .normalise import alpha_hash, ref_table

                ref = ref_table().get(v.module, {}).get(v.function)
                mod = prog.module(v.module)
                if not v.function:
                    import ast as _ast
                    import hashlib as _hl

                    from .normalise import pre_normalise

                    raw = pre_normalise(_ast.parse(mod.source), v.module, use_ref=False)
                    if _hl.sha1(_ast.dump(raw, include_attributes=False).encode()).hexdigest()[:16] == ref_table().get(v.module, {}).get("__module_hash__"):
                        return (v.name, kind, "STALE", "anchor text not present although the module is unchanged: the variant must be rewritten")
                if ref and v.function and mod.has_func(v.function) and alpha_hash(mod.func(v.function))[0] == ref["hash"]:
                    return (v.name, kind, "STALE", "anchor text not present although the function is unchanged: the variant must be rewritten")
            except Exception:  # noqa: BLE001
                pass
            return (v.name, kind, "skipped", "anchor text not present")
        try:
            viol, und = _signature(cls, p2, "quick")
        except AnalysisError as e:
            return (v.name, kind, "analysis-error", str(e))
        new = viol - base_viol
        new_und = und - base_und
        if kind == "fire":
            hits = [k for k in new if v.expect in k]
            if hits:
                return (v.name, kind, "fired", sorted(hits)[0])
            if new_und:
                return (v.name, kind, "analysis-error", "undecided: " + sorted(new_und)[0])
            return (v.name, kind, "MISSED", f"new violations: {sorted(new)[:3]}")
        if new or new_und:
            return (v.name, kind, "FALSE-ALARM", str(sorted(new | new_und)[:3]))
        return (v.name, kind, "silent", "")
    except Exception as e:  # noqa: BLE001
        return (v.name, kind, "analysis-error", f"{type(e).__name__}: {e}")


def sweep(cls: type[Check], tier: str, repo: Path | None):
    """Run the variant sweep; returns (selftest dict, rc)."""
    try:
        prog = Program(repo)
        probe = cls(prog, "quick")
        fire = probe.must_fire()
        silent = probe.must_stay_silent()
        if tier == "quick":
            fire = [v for v in fire if v.quick]
            silent = [v for v in silent if v.quick]
        if not fire and not silent:
            return {"variants": 0, "note": "no variants declared for this tier"}, 0
        base_viol, base_und = _signature(cls, prog, "quick")
    except AnalysisError:
        # the main run will report the analysis error itself
        return {"variants": 0, "note": "baseline analysis failed; see analysis_errors"}, 0
    jobs = [(cls, repo, tier, v, "fire", base_viol, base_und) for v in fire] + [
        (cls, repo, tier, v, "silent", base_viol, base_und) for v in silent
    ]
    if len(jobs) > 6 and (os.cpu_count() or 1) > 1:
        with ProcessPoolExecutor(max_workers=min(16, len(jobs))) as ex:
            results = list(ex.map(_run_one, jobs))
    else:
        results = [_run_one(j) for j in jobs]
    rc = 0
    summary = {
        "variants": len(jobs),
        "fired": sum(1 for r in results if r[2] == "fired"),
        "silent_ok": sum(1 for r in results if r[2] == "silent"),
        "skipped": sum(1 for r in results if r[2] == "skipped"),
        "stale": [r[0] for r in results if r[2] == "STALE"],
        "refused_as_analysis_error": sum(1 for r in results if r[2] == "analysis-error"),
        "missed": [r[0] for r in results if r[2] == "MISSED"],
        "false_alarms": [r[0] for r in results if r[2] == "FALSE-ALARM"],
        "results": [{"variant": r[0], "kind": r[1], "outcome": r[2], "detail": r[3]} for r in results],
    }
    for r in results:
        if r[2] == "analysis-error" and "edit does not parse" in str(r[3]):
            print(f"ANALYSIS-ERROR property={cls.pid} selftest variant '{r[0]}' is broken: {r[3]}")
            rc = 2
        elif r[2] == "STALE":
            print(f"ANALYSIS-ERROR property={cls.pid} selftest variant '{r[0]}' is stale: {r[3]}")
            rc = 2
        elif r[2] in ("MISSED", "FALSE-ALARM"):
            print(f"ANALYSIS-ERROR property={cls.pid} selftest variant '{r[0]}' ({r[1]}): {r[2]} {r[3]}")
            rc = 2
        elif r[2] == "analysis-error" and r[1] == "silent":
            print(f"ANALYSIS-ERROR property={cls.pid} selftest preserving variant '{r[0]}' not analysable: {r[3]}")
            rc = 2
    print(
        f"{cls.pid} selftest[{tier}]: variants={summary['variants']} fired={summary['fired']} "
        f"silent_ok={summary['silent_ok']} skipped={summary['skipped']} "
        f"refused={summary['refused_as_analysis_error']} missed={len(summary['missed'])} "
        f"false_alarms={len(summary['false_alarms'])}"
    )
    return summary, rc
