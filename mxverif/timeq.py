"""Time-qualifier dataflow for simulator.py (DESIGN A.2; used by C04 and C14).

Qualifiers: ABS (absolute model time: public arguments, result index), REL (what the integrator sees),
SHIFT (Simulator._time_shift), DUR (a duration), LIT (numeric literal, polymorphic), OTHER.
Frames: "F:<q>" = a data frame whose index has qualifier q; FRAMES = the list self.variables.
"""

from __future__ import annotations

import ast
from dataclasses import dataclass

from .core import dotted, is_self_attr, norm
from .interp import PathInterp

ABS, REL, SHIFT, DUR, LIT, OTHER, FRAMES = "ABS", "REL", "SHIFT", "DUR", "LIT", "OTHER", "FRAMES"
TIMEQ = {ABS, REL, SHIFT, DUR}

ADD = {
    (REL, SHIFT): ABS, (SHIFT, REL): ABS,
    (ABS, DUR): ABS, (DUR, ABS): ABS,
    (REL, DUR): REL, (DUR, REL): REL,
    (DUR, DUR): DUR,
}
SUB = {
    (ABS, SHIFT): REL,
    (ABS, DUR): ABS, (REL, DUR): REL,
    (ABS, ABS): DUR, (REL, REL): DUR, (DUR, DUR): DUR,
}


@dataclass(frozen=True)
class Env:
    vars: frozenset = frozenset()

    def get(self, k: str) -> str:
        for n, q in self.vars:
            if n == k:
                return q
        return OTHER

    def set(self, k: str, q: str) -> "Env":
        return Env(frozenset({(n, v) for n, v in self.vars if n != k} | {(k, q)}))


class TimeInterp(PathInterp):
    """Interprets one Simulator method; violations are reported through `report(kind, node, why)`."""

    loop_unroll = 1

    def __init__(self, report, frame_index_q: str, shift_attr: str = "_time_shift", frames_attr: str = "variables") -> None:
        self.report = report
        self.frame_q = frame_index_q
        self.shift_attr = shift_attr
        self.frames_attr = frames_attr
        self.appended: list[tuple[str, ast.AST]] = []  # qualifiers of frames stored into self.variables

    # ---- expression qualifier
    def q(self, e: ast.AST | None, env: Env) -> str:
        if e is None:
            return OTHER
        if isinstance(e, ast.Constant):
            return LIT if isinstance(e.value, (int, float)) and not isinstance(e.value, bool) else OTHER
        if isinstance(e, ast.Name):
            return env.get(e.id)
        if isinstance(e, ast.NamedExpr):
            return self.q(e.value, env)
        if is_self_attr(e, self.shift_attr):
            return SHIFT
        if is_self_attr(e, self.frames_attr):
            return FRAMES
        if isinstance(e, ast.Attribute):
            key = norm(e)
            got = env.get(key)
            if got != OTHER:
                return got
            base = self.q(e.value, env)
            if base == "TC":
                return REL if e.attr == "time" else OTHER
            if e.attr in ("seconds", "days", "microseconds", "nanoseconds", "components") and base in TIMEQ:
                self.report("lossy", e, f"`{norm(e)}` takes one component of a {base} time span (Timedelta.{e.attr} drops whole days / fractions); "
                                        "the span in seconds is .total_seconds()")
                return OTHER
            if e.attr == "index":
                if base == FRAMES:
                    return self.frame_q
                if base.startswith("F:"):
                    return base[2:]
                return base if base in TIMEQ else OTHER
            if e.attr in ("iloc", "loc", "values", "T"):
                return base if base.startswith("F:") or base == FRAMES else OTHER
            return OTHER
        if isinstance(e, ast.Subscript):
            self.check_expr(e.slice, env)
            return self.q(e.value, env)
        if isinstance(e, ast.UnaryOp):
            return self.q(e.operand, env) if isinstance(e.op, (ast.USub, ast.UAdd)) else OTHER
        if isinstance(e, ast.IfExp):
            self.check_expr(e.test, env)
            return self.join(self.q(e.body, env), self.q(e.orelse, env), e)
        if isinstance(e, ast.BinOp):
            a, b = self.q(e.left, env), self.q(e.right, env)
            return self.binop(e.op, a, b, e)
        if isinstance(e, ast.Compare):
            self.check_compare(e, env)
            return OTHER
        if isinstance(e, ast.BoolOp):
            for v in e.values:
                self.q(v, env)
            return OTHER
        if isinstance(e, (ast.Tuple, ast.List)):
            qs = [self.q(x, env) for x in e.elts]
            out = LIT if qs else OTHER
            for x in qs:
                out = self.join(out, x, e)
            return out
        if isinstance(e, ast.Call):
            name = dotted(e.func)
            last = name.split(".")[-1] if name else (e.func.attr if isinstance(e.func, ast.Attribute) else "")
            args = list(e.args)
            if last in ("array", "asarray", "float", "Index", "atleast_1d", "sort", "unique") and args:
                return self.q(args[0], env)
            if last == "cast" and len(args) == 2:
                return self.q(args[1], env)
            if last == "Timedelta" and args:
                return self.q(args[0], env)
            if last == "DataFrame":
                kw = {k.arg: k.value for k in e.keywords}
                if "index" in kw:
                    return "F:" + self.q(kw["index"], env)
                return OTHER
            if isinstance(e.func, ast.Attribute):
                recv = self.q(e.func.value, env)
                if last in ("total_seconds", "copy", "to_numpy", "astype", "max", "min"):
                    return recv
                if last in ("join", "union", "append") and args and recv in TIMEQ | {LIT}:
                    return self.join(recv, self.q(args[0], env), e)
                for a in args:
                    self.q(a, env)
                for k in e.keywords:
                    self.q(k.value, env)
                return OTHER
            for a in args:
                self.q(a, env)
            return OTHER
        return OTHER

    def join(self, a: str, b: str, node) -> str:
        if a == b:
            return a
        if a == LIT:
            return b
        if b == LIT:
            return a
        if a in TIMEQ and b in TIMEQ:
            self.report("mix", node, f"`{norm(node)}` joins a {a} time with a {b} time")
            return OTHER
        return OTHER

    def binop(self, op, a: str, b: str, node) -> str:
        if isinstance(op, (ast.Mult, ast.Div, ast.FloorDiv, ast.Mod, ast.Pow)):
            return OTHER
        if isinstance(op, (ast.BitAnd, ast.BitOr)):
            return OTHER
        table = ADD if isinstance(op, ast.Add) else SUB if isinstance(op, ast.Sub) else None
        if table is None:
            return OTHER
        if a == LIT and b == LIT:
            return LIT
        if a == LIT:
            return b if b in TIMEQ else OTHER
        if b == LIT:
            return a if a in TIMEQ else OTHER
        if a in TIMEQ and b in TIMEQ:
            r = table.get((a, b))
            if r is None:
                self.report("arith", node, f"`{norm(node)}`: {a} {'+' if isinstance(op, ast.Add) else '-'} {b} is not a time")
                return OTHER
            return r
        return OTHER

    def check_compare(self, e: ast.Compare, env: Env) -> None:
        prev = self.q(e.left, env)
        for c in e.comparators:
            cur = self.q(c, env)
            if prev in TIMEQ and cur in TIMEQ and prev != cur:
                self.report("compare", e, f"`{norm(e)}` compares a {prev} time with a {cur} time")
            prev = cur

    def check_expr(self, e: ast.AST, env: Env) -> None:
        self.q(e, env)

    # ---- sinks
    def sinks(self, stmt: ast.AST, env: Env) -> None:
        for c in ast.walk(stmt):
            if not isinstance(c, ast.Call) or not isinstance(c.func, ast.Attribute):
                continue
            recv = norm(c.func.value)
            meth = c.func.attr
            kw = {k.arg: k.value for k in c.keywords}
            if recv == "self.integrator" and meth.startswith("integrate"):
                for name in ("t_end", "time_points"):
                    if name in kw:
                        got = self.q(kw[name], env)
                        if got in TIMEQ and got != REL:
                            self.report("sink-integrator", c, f"self.integrator.{meth}({name}=..) receives a {got} time, the integrator works in REL time")
            if recv == "self" and meth in ("simulate", "simulate_time_course"):
                arg = c.args[0] if c.args else kw.get("t_end", kw.get("time_points"))
                if arg is not None:
                    got = self.q(arg, env)
                    if got in TIMEQ and got != ABS:
                        self.report("sink-public", c, f"self.{meth}(..) receives a {got} time, its argument is absolute model time")
            if recv == f"self.{self.frames_attr}" and meth == "append" and c.args:
                got = self.q(c.args[0], env)
                self.appended.append((got, c))

    # ---- statements
    def simple(self, stmt, env: Env):
        self.sinks(stmt, env)
        if isinstance(stmt, (ast.Assign, ast.AnnAssign)):
            value = stmt.value
            targets = stmt.targets if isinstance(stmt, ast.Assign) else [stmt.target]
            # walrus targets inside the value are bound first (they are evaluated before their uses)
            env = self.bind_walrus(value, env)
            qv = self.q(value, env)
            for t in targets:
                if isinstance(t, (ast.Tuple, ast.List)) and isinstance(value, (ast.Tuple, ast.List)) and len(t.elts) == len(value.elts):
                    qs = [self.q(x, env) for x in value.elts]
                    for tt, qq in zip(t.elts, qs):
                        if isinstance(tt, ast.Name):
                            env = env.set(tt.id, qq)
                        elif isinstance(tt, ast.Attribute):
                            env = env.set(norm(tt), qq)
                elif isinstance(t, ast.Name):
                    env = env.set(t.id, qv)
                    if isinstance(value, ast.Name):
                        # `p = q`: what is known about q's attributes (q.index ..) holds for p
                        for n_, q_ in list(env.vars):
                            if n_.startswith(value.id + "."):
                                env = env.set(t.id + n_[len(value.id):], q_)
                elif is_self_attr(t, self.frames_attr):
                    if isinstance(value, ast.List):
                        for x in value.elts:
                            self.appended.append((self.q(x, env), stmt))
                elif isinstance(t, ast.Attribute):
                    env = env.set(norm(t), qv)
        elif isinstance(stmt, ast.AugAssign):
            a = self.q(stmt.target, env)
            b = self.q(stmt.value, env)
            r = self.binop(stmt.op, a, b, stmt)
            if isinstance(stmt.target, ast.Name):
                env = env.set(stmt.target.id, r)
            elif isinstance(stmt.target, ast.Attribute):
                env = env.set(norm(stmt.target), r)
        elif isinstance(stmt, (ast.Expr, ast.Return)):
            if stmt.value is not None:
                env = self.bind_walrus(stmt.value, env)
                self.q(stmt.value, env)
        elif isinstance(stmt, ast.Raise):
            yield ("raise", env, self.raise_name(stmt))
            return
        yield ("normal", env)

    def bind_walrus(self, e: ast.AST | None, env: Env) -> Env:
        if e is None:
            return env
        for n in ast.walk(e):
            if isinstance(n, ast.NamedExpr) and isinstance(n.target, ast.Name):
                env = env.set(n.target.id, self.q(n.value, env))
        return env

    def cond(self, test, env: Env):
        env = self.bind_walrus(test, env)
        self.q(test, env)
        # `isinstance(x, TimeCourse)`: on that side x is an integrator result, whose .time is REL
        pol, t = True, test
        while isinstance(t, ast.UnaryOp) and isinstance(t.op, ast.Not):
            pol, t = not pol, t.operand
        if isinstance(t, ast.Call) and norm(t.func) == "isinstance" and len(t.args) == 2 and norm(t.args[1]).endswith("TimeCourse") \
                and isinstance(t.args[0], (ast.Name, ast.Attribute)):
            tc = env.set(norm(t.args[0]), "TC")
            return ([tc], [env]) if pol else ([env], [tc])
        return [env], [env]

    def stmt(self, s, env):
        # the conversion idiom: `if self._time_shift is not None: <shift statements>` is analysed as
        # unconditional (a missing shift is a zero shift)
        if isinstance(s, ast.If) and not s.orelse and isinstance(s.test, ast.Compare) \
                and is_self_attr(s.test.left, self.shift_attr) and len(s.test.ops) == 1 \
                and isinstance(s.test.ops[0], ast.IsNot) and isinstance(s.test.comparators[0], ast.Constant) \
                and s.test.comparators[0].value is None:
            return self.block(s.body, [env])
        # `if <..>_as_relative: x += t_start`: inside the branch the array holds durations
        if isinstance(s, ast.If) and isinstance(s.test, ast.Name) and s.test.id.endswith("as_relative"):
            from .interp import Outcome

            out = Outcome()
            env_t = env
            for n in ast.walk(ast.Module(body=s.body, type_ignores=[])):
                if isinstance(n, ast.AugAssign) and isinstance(n.target, ast.Name):
                    env_t = env_t.set(n.target.id, DUR)
            out.absorb(self.block(s.body, [env_t]))
            if s.orelse:
                out.absorb(self.block(s.orelse, [env]))
            else:
                out.normal.append(env)
            return out
        if isinstance(s, ast.Match):
            from .interp import Outcome

            out = Outcome()
            self.q(s.subject, env)
            for case in s.cases:
                e2 = env
                p = case.pattern
                if isinstance(p, ast.MatchClass) and norm(p.cls).endswith("TimeCourse"):
                    for name, sub in zip(p.kwd_attrs, p.kwd_patterns):
                        if isinstance(sub, ast.MatchAs) and sub.name:
                            e2 = e2.set(sub.name, REL if name == "time" else OTHER)
                out.absorb(self.block(case.body, [e2]))
            return out
        return super().stmt(s, env)

    def bind_loop(self, node, env: Env, i: int):
        if isinstance(node, ast.For):
            it = node.iter
            if isinstance(it, ast.Call) and isinstance(it.func, ast.Attribute) and it.func.attr == "iterrows" \
                    and isinstance(node.target, ast.Tuple) and isinstance(node.target.elts[0], ast.Name):
                base = norm(it.func.value)
                qidx = env.get(f"{base}.index")
                env = env.set(node.target.elts[0].id, qidx)
        return env
