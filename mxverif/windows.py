"""Window arithmetic of "cut one long array into consecutive per-segment pieces" code (C10 per-row factors, C05 label strings).

The slices `a[lo:hi]` taken for segments 1..3 are computed as polynomials in the symbolic segment lengths l1, l2, l3 by
interpreting the small amount of integer arithmetic involved (running offsets, `accumulate`, `cumsum`, `range(len(..))` indexing).
The caller compares them with the partition [0:l1], [l1:l1+l2], [l1+l2:l1+l2+l3].  Abstract interpretation over a polynomial
domain with the loop unrolled for three segments; nothing of the repository is executed.
"""

from __future__ import annotations

import ast

from .core import AnalysisError, norm, strip_docstring

N_SEG = 3


class _Seg:
    def __repr__(self) -> str:
        return "SEG"


SEG = _Seg()


def slice_windows(fn: ast.FunctionDef, seg_list: str | None, len_list: str | None):
    """-> (windows, anchor) with windows = [(k, lo, hi, node)] for k = 0..2, anchor = the loop / comprehension node.

    seg_list: name of the sequence of segments (each segment's length is a symbol; `len(seg)` / `seg.shape[0]` read it);
    len_list: name of a sequence holding the lengths themselves.  Raises AnalysisError when the shape is not understood."""
    import sympy

    L = sympy.symbols("l1 l2 l3", integer=True, positive=True)
    env: dict[str, object] = {}
    lists: dict[str, object] = {}

    def lst(e):
        """Interpret e as a per-segment sequence; returns k -> value, or None."""
        if isinstance(e, ast.Name):
            if e.id == seg_list:
                return lambda k: SEG
            if e.id == len_list:
                return lambda k: L[k]
            return lists.get(e.id)
        if isinstance(e, ast.Call) and norm(e.func) in ("list", "tuple", "np.array", "np.asarray", "iter") and len(e.args) == 1:
            return lst(e.args[0])
        if isinstance(e, ast.Call) and norm(e.func) == "range" and len(e.args) == 1 and isinstance(e.args[0], ast.Call) and norm(e.args[0].func) == "len" \
                and norm(e.args[0].args[0]) in (seg_list, len_list):
            return lambda k: sympy.Integer(k)
        if isinstance(e, ast.Call) and norm(e.func).split(".")[-1] in ("accumulate", "cumsum") and len(e.args) == 1:
            inner = lst(e.args[0])
            if inner is None:
                return None
            kw = {k.arg: k.value for k in e.keywords}
            if not kw:
                return lambda k: sum((inner(j) for j in range(k + 1)), sympy.Integer(0))
            if set(kw) == {"initial"} and isinstance(kw["initial"], ast.Constant) and kw["initial"].value == 0:
                return lambda k: sum((inner(j) for j in range(k)), sympy.Integer(0))
            return None
        if isinstance(e, ast.Call) and norm(e.func).split(".")[-1] == "pairwise" and len(e.args) == 1 and not e.keywords:
            inner = lst(e.args[0])
            return None if inner is None else (lambda k: (inner(k), inner(k + 1)))
        if isinstance(e, (ast.ListComp, ast.GeneratorExp)) and len(e.generators) == 1 and not e.generators[0].ifs and isinstance(e.generators[0].target, ast.Name):
            src = lst(e.generators[0].iter)
            if src is None:
                return None
            var = e.generators[0].target.id

            def f(k, e=e, src=src, var=var):
                old = env.get(var)
                env[var] = src(k)
                try:
                    return ev(e.elt, k)
                finally:
                    if old is None:
                        env.pop(var, None)
                    else:
                        env[var] = old
            return f
        # [0, *accumulate(x)]  /  [0] + list(accumulate(x)): exclusive prefix sums
        if isinstance(e, ast.List) and len(e.elts) == 2 and isinstance(e.elts[0], ast.Constant) and e.elts[0].value == 0 and isinstance(e.elts[1], ast.Starred):
            inner = lst(e.elts[1].value)
            return None if inner is None else (lambda k: sympy.Integer(0) if k == 0 else inner(k - 1))
        if isinstance(e, ast.BinOp) and isinstance(e.op, ast.Add) and norm(e.left) == "[0]":
            inner = lst(e.right)
            return None if inner is None else (lambda k: sympy.Integer(0) if k == 0 else inner(k - 1))
        return None

    def ev(e, k):
        if isinstance(e, ast.Constant) and isinstance(e.value, int) and not isinstance(e.value, bool):
            return sympy.Integer(e.value)
        if isinstance(e, ast.Name) and e.id in env and env[e.id] is not SEG:
            return env[e.id]
        if isinstance(e, ast.Call) and norm(e.func) == "len" and len(e.args) == 1 and isinstance(e.args[0], ast.Name) and env.get(e.args[0].id) is SEG:
            return L[k]
        if isinstance(e, ast.Subscript) and isinstance(e.value, ast.Attribute) and e.value.attr == "shape" and isinstance(e.value.value, ast.Name) \
                and env.get(e.value.value.id) is SEG and norm(e.slice) == "0":
            return L[k]
        if isinstance(e, ast.Subscript) and isinstance(e.value, ast.Name) and e.value.id == len_list and not isinstance(e.slice, ast.Slice):
            i = ev(e.slice, k)
            if i.is_Integer and 0 <= int(i) < N_SEG:
                return L[int(i)]
            raise AnalysisError(f"window arithmetic: index `{norm(e.slice)}` of the length list is not a segment number")
        if isinstance(e, ast.BinOp) and isinstance(e.op, (ast.Add, ast.Sub, ast.Mult)):
            a, b = ev(e.left, k), ev(e.right, k)
            return a + b if isinstance(e.op, ast.Add) else a - b if isinstance(e.op, ast.Sub) else a * b
        raise AnalysisError(f"window arithmetic: `{norm(e)}` not interpretable")

    def bind(target, it, k) -> bool:
        """Bind the iteration target(s) for segment k; False if the iterable is not a per-segment sequence."""
        if isinstance(it, ast.Call) and norm(it.func) == "zip" and isinstance(target, ast.Tuple) and len(target.elts) == len(it.args):
            return all(bind(t, a, k) for t, a in zip(target.elts, it.args))
        if isinstance(it, ast.Call) and norm(it.func) == "enumerate" and isinstance(target, ast.Tuple) and len(target.elts) == 2 and len(it.args) == 1:
            env[norm(target.elts[0])] = sympy.Integer(k)
            return bind(target.elts[1], it.args[0], k)
        src = lst(it)
        if src is None:
            return False
        val = src(k)
        if isinstance(target, ast.Tuple) and isinstance(val, tuple) and len(val) == len(target.elts) and all(isinstance(t, ast.Name) for t in target.elts):
            for t, v in zip(target.elts, val):
                env[t.id] = v
            return True
        if not isinstance(target, ast.Name):
            return False
        env[target.id] = val
        return True

    body = strip_docstring(fn.body)
    loop = None
    comp = None
    for s in body:
        if isinstance(s, ast.For):
            loop = s
            break
        cs = [n for n in ast.walk(s) if isinstance(n, ast.ListComp) and any(isinstance(x, ast.Subscript) and isinstance(x.slice, ast.Slice) for x in ast.walk(n.elt))] \
            if isinstance(s, (ast.Return, ast.Assign)) else []
        if cs:
            comp = cs[0]
            loop = s
            break
        if isinstance(s, ast.Assign) and isinstance(s.targets[0], ast.Name):
            if isinstance(s.value, ast.Constant) and isinstance(s.value.value, int):
                env[s.targets[0].id] = sympy.Integer(s.value.value)
            else:
                l_ = lst(s.value)
                if l_ is not None:
                    lists[s.targets[0].id] = l_
    if loop is None:
        raise AnalysisError("per-segment loop not recognised")

    windows = []
    for k in range(N_SEG):
        if comp is not None:
            if len(comp.generators) != 1 or comp.generators[0].ifs or not bind(comp.generators[0].target, comp.generators[0].iter, k):
                raise AnalysisError("per-segment comprehension does not iterate the segments in a recognised way")
            stmts = [ast.Expr(value=comp.elt)]
        else:
            if not bind(loop.target, loop.iter, k):
                raise AnalysisError("per-segment loop does not iterate the segments in a recognised way")
            stmts = loop.body
        for s in stmts:
            # record slices used in this statement (before its own assignment effect)
            for n in ast.walk(s):
                if isinstance(n, ast.Subscript) and isinstance(n.slice, ast.Slice) and n.slice.lower is not None and n.slice.upper is not None:
                    windows.append((k, ev(n.slice.lower, k), ev(n.slice.upper, k), n))
            if isinstance(s, ast.Assign) and isinstance(s.targets[0], ast.Name):
                try:
                    env[s.targets[0].id] = ev(s.value, k)
                except AnalysisError:
                    pass
            elif isinstance(s, ast.AugAssign) and isinstance(s.target, ast.Name) and s.target.id in env:
                v = ev(s.value, k)
                env[s.target.id] = env[s.target.id] + v if isinstance(s.op, ast.Add) else env[s.target.id] - v
    return windows, loop, L


def partition_violation(windows, L):
    """First window that is not the k-th piece of the partition: (k, lo, hi, want_lo, want_hi, node) or None."""
    import sympy

    for k, lo, hi, node in windows:
        want_lo = sum(L[:k], sympy.Integer(0))
        want_hi = sum(L[: k + 1], sympy.Integer(0))
        if sympy.simplify(lo - want_lo) != 0 or sympy.simplify(hi - want_hi) != 0:
            return k, lo, hi, want_lo, want_hi, node
    return None
