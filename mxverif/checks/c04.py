"""C04 - continued simulation: time bookkeeping and continuation typestate (DESIGN 4/C04, A.2)."""

from __future__ import annotations

import ast
from dataclasses import dataclass

from ..core import AnalysisError, Check, Scope, is_self_attr, norm, strip_docstring, walk_no_nested
from ..interp import PathInterp, Sym, SymInterp
from ..timeq import ABS, DUR, OTHER, REL, Env, TimeInterp
from ..variants import Variant

SIM = "simulator.py"
CLS = "Simulator"


def run_time_rule(chk: Check, rule: str, methods: list[str], entry: dict[str, str]) -> str:
    """Runs the qualifier dataflow over `methods` of Simulator; returns the inferred frame-index qualifier."""
    mod = chk.prog.module(SIM)
    # pass 0: infer the qualifier of the index of frames stored in self.variables
    handler = mod.func(f"{CLS}._handle_simulation_results")
    seen: list = []
    ti = TimeInterp(lambda *a: None, ABS)
    ti.run_function(handler, Env())
    quals = {q for q, _ in ti.appended}
    if not quals:
        raise AnalysisError("no frame is stored into self.variables in _handle_simulation_results")
    frame_q = ABS
    q = f"{CLS}._handle_simulation_results"
    for got, node in ti.appended:
        cons = f"store-frame {norm(node)[:60]}"
        if got == "F:ABS":
            chk.holds(rule, SIM, q, cons, node, "frame stored with an ABS (shifted-back) index")
        elif got.startswith("F:"):
            chk.violated(rule, SIM, q, cons, node,
                         f"a frame indexed by {got[2:]} time is stored in the accumulated result, whose index is absolute model time",
                         witness="simulate(10); update_variable('x', 2); simulate(15): the second segment is indexed 0..5")
            frame_q = got[2:]
        else:
            chk.undecided_ob(rule, SIM, q, cons, node, f"qualifier of the stored frame's index not inferable ({got})")
    for name in methods:
        fn = mod.func(f"{CLS}.{name}")
        qn = f"{CLS}.{name}"
        found: dict[str, tuple] = {}
        okc: dict[str, ast.AST] = {}

        def report(kind, node, why, _found=found):
            _found.setdefault(f"{kind} {norm(node)[:80]}", (node, why))

        class TI(TimeInterp):
            def check_compare(self, e, env):
                super().check_compare(e, env)
                qs = [self.q(e.left, env)] + [self.q(c, env) for c in e.comparators]
                if all(x in (ABS, REL, DUR, "SHIFT") for x in qs) and len(set(qs)) == 1:
                    okc.setdefault(f"compare {norm(e)[:80]}", e)

            def sinks(self, stmt, env):
                before = dict(found)
                super().sinks(stmt, env)
                for c in ast.walk(stmt):
                    if isinstance(c, ast.Call) and isinstance(c.func, ast.Attribute):
                        recv = norm(c.func.value)
                        if (recv == "self.integrator" and c.func.attr.startswith("integrate")) or \
                                (recv == "self" and c.func.attr in ("simulate", "simulate_time_course")):
                            key = f"sink {norm(c.func)}"
                            if not any(k.startswith("sink") and norm(c)[:40] in k for k in found):
                                okc.setdefault(key, c)

        t = TI(report, frame_q)
        env = Env()
        params = [a.arg for a in fn.args.args + fn.args.kwonlyargs]
        for p in params:
            if p in entry:
                env = env.set(p, entry[p])
            if p == "protocol":
                env = env.set("protocol.index", DUR)
        t.run_function(fn, env)
        for key, (node, why) in found.items():
            okc.pop(key.replace("sink-integrator", "sink").replace("sink-public", "sink"), None)
            chk.violated(
                rule, SIM, qn, key, node, why,
                witness="s=Simulator(m); s.simulate(10); s.update_variable('x', 2.0); s.simulate(15) -> ValueError although 15 > 10"
                if key.startswith("compare") else "",
            )
        for key, node in okc.items():
            if not any(k.split(" ", 1)[1] == key.split(" ", 1)[1] for k in found):
                chk.holds(rule, SIM, qn, key, node, "time qualifiers agree")
    return frame_q


@dataclass(frozen=True)
class HS:
    frames: int = 0
    params: int = 0
    errors: int = 0
    case: str = ""


class HandlerInterp(PathInterp):
    def simple(self, stmt, st: HS):
        f, p, e = st.frames, st.params, st.errors
        for n in ast.walk(stmt):
            if isinstance(n, ast.Call) and isinstance(n.func, ast.Attribute) and n.func.attr == "append":
                tgt = norm(n.func.value)
                if tgt == "self.variables":
                    f += 1
                elif tgt == "self.simulation_parameters":
                    p += 1
                elif tgt == "self._errors":
                    e += 1
        if isinstance(stmt, ast.Assign) and is_self_attr(stmt.targets[0], "variables") and isinstance(stmt.value, ast.List):
            f += len(stmt.value.elts)
        if isinstance(stmt, ast.Assign) and is_self_attr(stmt.targets[0], "simulation_parameters") and isinstance(stmt.value, ast.List):
            p += len(stmt.value.elts)
        if isinstance(stmt, ast.Raise):
            yield ("raise", st, None)
            return
        yield ("normal", HS(f, p, e, st.case))

    def cond(self, test, st: HS):
        """`isinstance(<result value>, TimeCourse)` (possibly negated) splits into the success and the failure case."""
        pol = True
        t = test
        while isinstance(t, ast.UnaryOp) and isinstance(t.op, ast.Not):
            pol, t = not pol, t.operand
        if isinstance(t, ast.Call) and norm(t.func) == "isinstance" and len(t.args) == 2 and st.case == "":
            cls_ = norm(t.args[1])
            if cls_.endswith("TimeCourse"):
                yes, no = HS(st.frames, st.params, st.errors, "success"), HS(st.frames, st.params, st.errors, "failure")
                return ([yes], [no]) if pol else ([no], [yes])
            if cls_.endswith(("Exception", "BaseException", "Failure", "Error")) or cls_ == "Exception":
                yes, no = HS(st.frames, st.params, st.errors, "failure"), HS(st.frames, st.params, st.errors, "success")
                return ([yes], [no]) if pol else ([no], [yes])
        return [st], [st]

    def stmt(self, s, st):
        if isinstance(s, ast.Match):
            from ..interp import Outcome

            out = Outcome()
            for case in s.cases:
                kind = "success" if isinstance(case.pattern, ast.MatchClass) and norm(case.pattern.cls).endswith("TimeCourse") else "failure"
                out.absorb(self.block(case.body, [HS(st.frames, st.params, st.errors, kind)]))
            return out
        return super().stmt(s, st)


@dataclass(frozen=True)
class IS:
    t0: str = ""  # name the continuation time was taken from ("*" = set by a delegate)
    y0: str = ""
    reset: bool = False


class IntegInterp(PathInterp):
    """Tracks whether self.t0 / self.y0 were advanced to the last returned row."""

    def __init__(self):
        self.success_returns: list = []
        self.delegates = False

    def simple(self, stmt, st: IS):
        t0, y0, reset = st.t0, st.y0, st.reset
        for n in ast.walk(stmt):
            if isinstance(n, ast.Call) and norm(n.func) == "self.reset":
                reset = True
                t0 = y0 = ""
            if isinstance(n, ast.Call) and norm(n.func) in ("self.integrate_time_course", "self.integrate"):
                self.delegates = True
                t0 = y0 = "*"
        if isinstance(stmt, ast.Assign):
            for t in stmt.targets:
                v = stmt.value
                src = ""
                if isinstance(v, ast.Subscript) and norm(v.slice) == "-1" and isinstance(v.value, ast.Name):
                    src = v.value.id
                elif isinstance(v, ast.Name):
                    src = v.id
                if is_self_attr(t, "t0"):
                    t0 = src
                if is_self_attr(t, "y0"):
                    y0 = src
        st2 = IS(t0, y0, reset)
        if isinstance(stmt, ast.Return):
            if stmt.value is not None and "TimeCourse(" in norm(stmt.value):
                tc = [c for c in ast.walk(stmt.value) if isinstance(c, ast.Call) and norm(c.func).endswith("TimeCourse")][0]
                kw = {k.arg: k.value for k in tc.keywords}
                tn = {n.id for n in ast.walk(kw.get("time", tc.args[0] if tc.args else ast.Constant(0))) if isinstance(n, ast.Name)}
                vn = {n.id for n in ast.walk(kw.get("values", tc.args[1] if len(tc.args) > 1 else ast.Constant(0))) if isinstance(n, ast.Name)}
                ok_t = st2.t0 == "*" or st2.t0 in tn
                ok_y = st2.y0 == "*" or st2.y0 in vn
                self.success_returns.append((st2, stmt, ok_t and ok_y))
            yield ("return", st2)
            return
        if isinstance(stmt, ast.Raise):
            yield ("raise", st2, None)
            return
        yield ("normal", st2)


class C04(Check):
    pid = "C04"
    title = "Continued simulation: absolute increasing time axis, piecewise-exact states"
    rules = {
        "T1": "time qualifiers: no comparison, mask, join or +/- mixes absolute (public/result) time with integrator-relative "
              "time; integrator arguments are REL, public arguments and stored frame indices are ABS",
        "T2": "integrator continuation typestate: every integrate* method that returns a course starts from the current "
              "(t0, y0) and leaves (t0, y0) at the last returned row",
        "T3": "result bookkeeping: a frame and its parameter record are appended together exactly once per successful "
              "call, failures go to the error list only, the duplicated boundary row is dropped exactly for continuing calls",
        "T4": "override restart: y0 := last row | overrides (overrides win), _time_shift := last absolute time, then the "
              "integrator is re-initialised",
        "T5": "clear_results resets every result-group field initialised in __init__ and re-initialises the integrator",
        "T8": "single writer of the result lists: self.variables and self.simulation_parameters are only ever stored / appended to by "
              "__init__, clear_results and the result handler (which appends exactly one frame with its parameter record, T3); no other method "
              "merges, trims or rewrites them, so every stored segment keeps the parameter record it was computed under",
        "T7": "caller-owned arrays: a public array argument that is shifted in place (+=, -=) is first converted with a copying "
              "constructor (np.array / .copy()); np.asarray / np.asanyarray / copy=False alias the caller's array, whose requested points "
              "would be altered for every later call",
        "T6": "refusal condition is `requested_end <= reached` in both continuation entry points, with `reached` the last index entry of the LAST "
              "stored frame (0.0 when nothing is stored); requested points before `reached` are removed before the integrator sees them",
    }
    floors = {"T1": 5, "T2": 6, "T3": 3, "T4": 3, "T5": 4, "T6": 2, "T7": 2, "T8": 1}
    decided = [
        "the accumulated result is indexed by absolute time and every time comparison compares like with like",
        "a continuation is refused exactly when the requested end is not later than the time reached (in absolute time)",
        "segments continue from the previous final state; overrides restart from last state | overrides at the last absolute time",
        "frames and parameter records stay aligned; clearing resets all of it",
    ]
    undecided = [
        "trajectories to integrator tolerance (SciPy's solve_ivp)",
        "that each requested point appears exactly once (depends on solve_ivp's t_eval and on floating-point linspace)",
    ]
    assumptions = [
        "public t_end / time_points are absolute model time; TimeCourse.time returned by an integrator is integrator-relative",
        "`if self._time_shift is not None: x -= self._time_shift` is the ABS->REL conversion (None = zero shift)",
    ]

    def run(self) -> None:
        mod = self.prog.module(SIM)
        run_time_rule(self, "T1", ["simulate", "simulate_time_course", "update_variables"],
                      {"t_end": ABS, "time_points": ABS})
        self.t3(mod)
        self.t4(mod)
        self.t5(mod)
        self.t6(mod)
        self.t7(mod)
        self.t8(mod)
        self.t2("integrators/int_scipy.py", "Scipy", confirmed=True)
        self.t2_start("integrators/int_scipy.py", "Scipy")

    def run_thorough(self) -> None:
        for rel, cls in (("integrators/int_diffrax.py", "Diffrax"), ("integrators/int_assimulo.py", "Assimulo")):
            if rel in self.prog.sources:
                self.t2(rel, cls, confirmed=False)

    # ------------------------------------------------------------------
    def t2(self, rel: str, cls: str, confirmed: bool) -> None:
        mod = self.prog.module(rel)
        methods = mod.methods(cls)
        for name in ("integrate_time_course", "integrate", "integrate_to_steady_state"):
            if name not in methods:
                raise AnalysisError(f"{rel}: {cls}.{name} missing")
            fn = methods[name]
            q = f"{cls}.{name}"
            ii = IntegInterp()
            ii.run_function(fn, IS())
            keeps_own_state = "self.t0" not in norm(mod.cls(cls)) and "self.y0" not in norm(fn)
            if not ii.success_returns and not ii.delegates:
                self.undecided_ob("T2", rel, q, "success-return", fn, "no success return recognised")
                continue
            problems = []
            # a finally block that writes (t0, y0) runs after every return inside its try: whatever the success path advanced is overwritten
            rewound = set()
            for tr in ast.walk(fn):
                if isinstance(tr, ast.Try) and tr.finalbody:
                    writes = [t_ for s_ in tr.finalbody for a_ in ast.walk(s_) if isinstance(a_, (ast.Assign, ast.AugAssign))
                              for t0_ in (a_.targets if isinstance(a_, ast.Assign) else [a_.target]) for t_ in ast.walk(t0_) if is_self_attr(t_, "t0") or is_self_attr(t_, "y0")]
                    if writes:
                        for s_ in tr.body:
                            for r_ in ast.walk(s_):
                                if isinstance(r_, ast.Return):
                                    rewound.add(id(r_))
            for st, node, advanced in ii.success_returns:
                if id(node) in rewound:
                    problems.append(("state-rewound-in-finally", node,
                                     "the course is returned from inside a try whose finally block writes (t0, y0): the state the integration reached is overwritten "
                                     "on the successful path as well, so the next call continues from where this one started"))
                    continue
                if st.reset:
                    problems.append(("starts-from-reset", node,
                                     "the method resets the integrator to its ORIGINAL state before integrating: it does not "
                                     "continue from the state the previous call reached"))
                if not advanced and not keeps_own_state:
                    problems.append(("state-not-advanced", node,
                                     "a successful course is returned without advancing (t0, y0) to its last row: the next "
                                     "call continues from a stale state/time"))
            if not problems:
                self.holds("T2", rel, q, "continuation", fn,
                           "delegates to a conforming method" if ii.delegates and not ii.success_returns else
                           f"{len(ii.success_returns)} success return(s): all advance (t0, y0) and none resets"
                           + (" (state kept by the wrapped third-party integrator)" if keeps_own_state else ""))
            seen = set()
            for cons, node, why in problems:
                if cons in seen:
                    continue
                seen.add(cons)
                if confirmed:
                    self.violated("T2", rel, q, cons, node, why,
                                  witness="s.simulate(1000); s.simulate_to_steady_state() -> result time axis [..., 1000, 200]; "
                                          "a following s.simulate(2000) restarts from t0=0")
                else:
                    self.info("T2", rel, q, cons, node, why + " [sibling back end; optional dependency not installed here, not confirmed by hand]")

    def t2_start(self, rel: str, cls: str) -> None:
        """Scipy-shaped integrators: each integrate* starts from the current (t0, y0)."""
        mod = self.prog.module(rel)
        m = mod.methods(cls)
        it = m["integrate"]
        lin = [c for c in ast.walk(it) if isinstance(c, ast.Call) and norm(c.func) in ("np.linspace", "numpy.linspace")]
        if lin and norm(lin[0].args[0]) == "self.t0":
            self.holds("T2", rel, f"{cls}.integrate", "starts-at-current-time", lin[0], "time grid starts at self.t0")
        else:
            self.violated("T2", rel, f"{cls}.integrate", "starts-at-current-time", lin[0] if lin else it, "the time grid of a continued run does not start at the time reached (self.t0)",
                          witness="simulate(5); simulate(10): the second segment is integrated from t = 0 with the state reached at t = 5")
        tc = m["integrate_time_course"]
        solver = [c for c in ast.walk(tc) if isinstance(c, ast.Call) and norm(c.func).endswith(("solve_ivp", "diffeqsolve"))]
        kw = {k.arg: norm(k.value) for k in solver[0].keywords} if solver else {}
        if kw.get("y0") == "self.y0":
            self.holds("T2", rel, f"{cls}.integrate_time_course", "starts-from-current-state", solver[0], "solver started from self.y0")
        else:
            self.violated("T2", rel, f"{cls}.integrate_time_course", "starts-from-current-state", solver[0] if solver else tc, f"solver started from y0={kw.get('y0')}, not from the state reached",
                          witness="simulate(5); simulate(10): the second segment restarts from the initial state")
        guard = [s for s in strip_docstring(tc.body) if isinstance(s, ast.If) and norm(s.test) == "time_points[0] != self.t0"
                 and [norm(b) for b in s.body] == ["time_points = np.insert(time_points, 0, self.t0)"]]
        span_ok = kw.get("t_span") in ("(time_points[0], time_points[-1])",) or kw.get("t0") == "time_points[0]"
        if guard and span_ok:
            self.holds("T2", rel, f"{cls}.integrate_time_course", "starts-at-current-time", guard[0], "self.t0 is prepended when missing; integration span starts at time_points[0]")
        else:
            self.violated("T2", rel, f"{cls}.integrate_time_course", "starts-at-current-time", tc, "the integration span does not start at the time reached (self.t0 not prepended / span start differs)",
                          witness="simulate_time_course([1,2]); simulate_time_course([3,4]): the second call integrates from t = 3 with the state of t = 2")

    def t3(self, mod) -> None:
        fn = mod.func(f"{CLS}._handle_simulation_results")
        q = f"{CLS}._handle_simulation_results"
        hi = HandlerInterp()
        out = hi.run_function(fn, HS())
        states = [s for s, _ in out.returns]
        succ = [s for s in states if s.case == "success"]
        fail = [s for s in states if s.case == "failure"]
        if not succ or not fail:
            raise AnalysisError(f"{q}: success/failure cases not recognised")
        bad = [s for s in succ if (s.frames, s.params, s.errors) != (1, 1, 0)]
        if bad:
            s = bad[0]
            self.violated("T3", SIM, q, "frame-and-parameters-together", fn,
                          f"a success path stores {s.frames} frame(s), {s.params} parameter record(s), {s.errors} error(s): the "
                          "two lists are no longer zip-able / a segment is lost",
                          witness="Simulation(raw_variables, raw_parameters) zips the lists with strict=True")
        else:
            self.holds("T3", SIM, q, "frame-and-parameters-together", fn, f"{len(succ)} success path(s): exactly one frame and one parameter record each")
        badf = [s for s in fail if (s.frames, s.params) != (0, 0) or s.errors != 1]
        if badf:
            self.violated("T3", SIM, q, "failure-to-errors-only", fn, "a failed integration stores a frame/parameters or is not recorded as an error")
        else:
            self.holds("T3", SIM, q, "failure-to-errors-only", fn, "failure value appended to _errors only")
        # boundary row
        sc = Scope(fn)
        drops = [n for n in ast.walk(fn) if isinstance(n, ast.Subscript) and norm(n.value).endswith(".iloc")
                 and norm(n.slice).replace(" ", "").startswith("(1:")]
        ok = False
        for d in drops:
            gs = [(norm(t), pol) for t, pol in sc.guards(d)]
            if ("skipfirst", True) in gs and ("self.variables is None", False) in gs:
                ok = True
        full_first = any(isinstance(n, ast.Assign) and is_self_attr(n.targets[0], "variables") and
                         ("self.variables is None", True) in [(norm(t), p) for t, p in sc.guards(n)] and "iloc" not in norm(n.value)
                         for n in ast.walk(fn))
        callers = {}
        for name in ("simulate", "simulate_time_course", "simulate_to_steady_state"):
            f2 = mod.func(f"{CLS}.{name}")
            for c in ast.walk(f2):
                if isinstance(c, ast.Call) and norm(c.func) == "self._handle_simulation_results":
                    callers[name] = {k.arg: norm(k.value) for k in c.keywords}.get("skipfirst")
        want = {"simulate": "True", "simulate_time_course": "True", "simulate_to_steady_state": "False"}
        if ok and full_first and callers == want:
            self.holds("T3", SIM, q, "boundary-row", fn, "first frame kept whole; later frames drop row 0 iff skipfirst; callers pass " + str(callers))
        else:
            self.violated("T3", SIM, q, "boundary-row", fn,
                          f"duplicated boundary row handling changed (drop under skipfirst & not-first: {ok}; first frame whole: {full_first}; callers: {callers})",
                          witness="simulate(5); simulate(10): the row at t=5 appears twice (or the first row of the first segment is lost)")

    def t4(self, mod) -> None:
        """Path summaries of update_variables (expressions propagated to the entry values, so staging through locals does not matter)."""
        import re

        fn = mod.func(f"{CLS}.update_variables")
        q = f"{CLS}.update_variables"
        param = fn.args.args[1].arg
        out = SymInterp().run_function(fn, Sym())
        paths = [st for st, _ in out.returns]

        def polarity(st):
            for c, p in st.conds:
                if c == "self.variables is None":
                    return p
                if c == "self.variables is not None":
                    return not p
                if c == "self.variables":
                    return not p
            return None

        first = [st for st in paths if polarity(st) is True]
        cont = [st for st in paths if polarity(st) is False]
        if not first or not cont or len(first) + len(cont) != len(paths):
            raise AnalysisError(f"{q}: first-run / continuation paths not recognised")

        def last_set(st, attr):
            idx = [i for i, e in enumerate(st.events) if e[0] == "set" and e[1] == attr]
            return (idx[-1], st.events[idx[-1]][2]) if idx else (None, None)

        def node_of(attr, pol):
            for n in ast.walk(fn):
                if isinstance(n, ast.Assign) and is_self_attr(n.targets[0], attr.split(".")[1]):
                    return n
            return fn

        last_row = re.compile(r"^self\.variables\[-1\]\.iloc\[-1(, :)?\](\.to_dict\(\))? \| " + re.escape(param) + "$")
        bad = [st for st in cont if not last_row.match(last_set(st, "self.y0")[1] or "")]
        n_y0 = node_of("self.y0", False)
        if not bad:
            self.holds("T4", SIM, q, "y0-merge", n_y0, f"y0 := last row | {param} (right-biased: overrides win)")
        else:
            self.violated("T4", SIM, q, "y0-merge", n_y0,
                          f"`{last_set(bad[0], 'self.y0')[1]}` is not `last row | {param}`: the restart state loses the override or the reached state",
                          witness="simulate(5); update_variable('x', 2); simulate(10) continues from the un-overridden x (or from the initial y)")
        badf = [st for st in first if last_set(st, "self.y0")[1] != f"self.y0 | {param}"]
        if not badf:
            self.holds("T4", SIM, q, "y0-merge-before-first-run", n_y0, f"before any run: y0 := y0 | {param} (overrides win)")
        else:
            self.violated("T4", SIM, q, "y0-merge-before-first-run", n_y0, f"`{last_set(badf[0], 'self.y0')[1]}` is not `self.y0 | {param}`: an override given before the first run is lost",
                          witness="Simulator(m).update_variable('x', 2.0).simulate(1) starts from the model's x")
        n_sh = node_of("self._time_shift", False)
        bads = [st for st in cont if last_set(st, "self._time_shift")[1] not in ("float(self.variables[-1].index[-1])", "self.variables[-1].index[-1]")]
        if not bads:
            self.holds("T4", SIM, q, "shift-is-last-abs-time", n_sh, "_time_shift := last absolute time of the result")
        else:
            self.violated("T4", SIM, q, "shift-is-last-abs-time", n_sh, f"_time_shift := {last_set(bads[0], 'self._time_shift')[1]} is not the last absolute time reached")
        late = []
        for st in paths:
            calls = [i for i, e in enumerate(st.events) if e[0] == "call" and e[1] == "self._initialise_integrator()"]
            sets = [i for i in (last_set(st, "self.y0")[0], last_set(st, "self._time_shift")[0]) if i is not None]
            if not calls or (sets and calls[-1] < max(sets)):
                late.append(st)
        if not late:
            self.holds("T4", SIM, q, "reinitialise-after", fn, "integrator re-initialised after y0 and _time_shift are set, on every path")
        else:
            self.violated("T4", SIM, q, "reinitialise-after", fn, "the integrator is not re-initialised after the override: it continues from the old state")

    def t5(self, mod) -> None:
        init = mod.func(f"{CLS}.__init__")
        clr = mod.func(f"{CLS}.clear_results")
        q = f"{CLS}.clear_results"

        def lits(fn):
            out = {}
            for s in strip_docstring(fn.body):
                if isinstance(s, ast.Assign) and is_self_attr(s.targets[0]):
                    v = s.value
                    if (isinstance(v, ast.Constant) and v.value is None) or (isinstance(v, (ast.List, ast.Dict)) and not getattr(v, "elts", getattr(v, "keys", []))):
                        out[s.targets[0].attr] = norm(v)
            return out

        group = lits(init)
        got = lits(clr)
        if len(group) < 4:
            raise AnalysisError(f"result group of {CLS}.__init__ not recognised: {group}")
        for f, v in group.items():
            if got.get(f) == v:
                self.holds("T5", SIM, q, f"reset {f}", clr, f"self.{f} reset to {v}")
            else:
                self.violated("T5", SIM, q, f"reset {f}", clr, f"clear_results leaves self.{f} (initialised to {v} in __init__) untouched",
                              witness="simulate(10); update_variable(..); clear_results(); simulate(5) is judged against stale bookkeeping")
        if any(norm(s) == "self._initialise_integrator()" for s in clr.body):
            self.holds("T5", SIM, q, "reinitialise", clr, "integrator re-initialised")
        else:
            self.violated("T5", SIM, q, "reinitialise", clr, "clear_results does not re-initialise the integrator: the next run continues from the old t0/y0")

    def t8(self, mod) -> None:
        owners = {"__init__", "__post_init__", "clear_results", "_handle_simulation_results"}
        lists = ("self.variables", "self.simulation_parameters")
        foreign = []
        n_w = 0
        for name, fn in mod.methods(CLS).items():
            for n in walk_no_nested(fn):
                hit = None
                if isinstance(n, (ast.Assign, ast.AugAssign, ast.AnnAssign, ast.Delete)):
                    tg = n.targets if isinstance(n, (ast.Assign, ast.Delete)) else [n.target]
                    for t in tg:
                        for x in ast.walk(t):
                            if isinstance(x, ast.Attribute) and norm(x) in lists:
                                hit = n
                elif isinstance(n, ast.Call) and isinstance(n.func, ast.Attribute) and norm(n.func.value) in lists \
                        and n.func.attr in ("append", "extend", "insert", "pop", "clear", "remove", "sort", "reverse", "__setitem__", "__delitem__"):
                    hit = n
                if hit is not None:
                    n_w += 1
                    if name not in owners:
                        foreign.append((name, hit))
        if foreign:
            name, hit = foreign[0]
            self.violated("T8", SIM, f"{CLS}.{name}", "single-writer-of-result-lists", hit,
                          f"`{norm(hit)[:80]}` rewrites the stored result outside the result handler: frames and parameter records can get out of step "
                          "(merged, trimmed or re-parameterised segments)",
                          witness="a two-step protocol: both steps end up in one frame paired with the last step's parameters - fluxes of step 1 are computed under step 2's values")
        else:
            self.holds("T8", SIM, CLS, "single-writer-of-result-lists", mod.cls(CLS), f"{n_w} stores into the result lists, all in {sorted(owners)}")

    def t7(self, mod) -> None:
        COPYING = ("np.array", "numpy.array", "np.copy", "list", "np.fromiter", "copy.deepcopy", "copy.copy")
        ALIASING = ("np.asarray", "np.asanyarray", "numpy.asarray", "np.ascontiguousarray")
        for name in ("simulate_time_course", "simulate_protocol_time_course"):
            fn = mod.func(f"{CLS}.{name}")
            q = f"{CLS}.{name}"
            params = {a.arg for a in fn.args.args + fn.args.kwonlyargs} - {"self"}
            owned: dict[str, bool] = {p: False for p in params}  # name -> is a private copy?
            verdicts = []
            for s in strip_docstring(fn.body):
                for n in [s] + [x for x in ast.walk(s) if isinstance(x, ast.stmt)]:
                    if isinstance(n, ast.Assign) and isinstance(n.targets[0], ast.Name):
                        t, v = n.targets[0].id, n.value
                        srcs = {x.id for x in ast.walk(v) if isinstance(x, ast.Name)} & set(owned)
                        if isinstance(v, ast.Call):
                            fname = norm(v.func)
                            kw = {k.arg: norm(k.value) for k in v.keywords}
                            if fname in COPYING and kw.get("copy") not in ("False", "None"):
                                owned[t] = True
                            elif isinstance(v.func, ast.Attribute) and v.func.attr == "copy":
                                owned[t] = True
                            elif (fname in ALIASING or kw.get("copy") == "False") and srcs:
                                owned[t] = all(owned[x] for x in srcs)
                            elif srcs:
                                owned[t] = True  # result of some other computation: a new object
                        elif isinstance(v, ast.Subscript) and srcs:
                            base = v.value.id if isinstance(v.value, ast.Name) else None
                            # boolean-mask indexing copies; slicing does not - stay conservative: inherits ownership
                            owned[t] = owned.get(base, True)
                        elif isinstance(v, ast.Name) and v.id in owned:
                            owned[t] = owned[v.id]
                    if isinstance(n, ast.AugAssign) and isinstance(n.target, ast.Name) and n.target.id in owned and isinstance(n.op, (ast.Add, ast.Sub)):
                        verdicts.append((n, owned[n.target.id]))
            if not verdicts:
                self.undecided_ob("T7", SIM, q, "in-place-shift-on-private-copy", fn, "no in-place shift of the requested time points found")
                continue
            bad = [n for n, ok in verdicts if not ok]
            if bad:
                self.violated("T7", SIM, q, "in-place-shift-on-private-copy", bad[0],
                              f"`{norm(bad[0])}` shifts an array that may still be the caller's own object (not converted with a copying constructor): "
                              "the caller's requested time points are modified, so a reused array requests different times on the next call",
                              witness="tp = np.array([1., 2., 3.]); s.simulate_protocol_time_course(p, tp, time_points_as_relative=True) three times: the third call drops requested points")
            else:
                self.holds("T7", SIM, q, "in-place-shift-on-private-copy", verdicts[0][0], f"{len(verdicts)} in-place shift(s), all on a private copy of the argument")

    def t6(self, mod) -> None:
        """Refusal of a continuation that does not end later than the time reached, from the path summaries: the time reached is the
        last index entry of the LAST stored frame (0.0 when nothing is stored), the requested end is t_end / the last requested point."""
        import re as _re

        from ..interp import Sym, SymInterp

        class I1(SymInterp):
            loop_unroll = 1

        FR = "self.variables"
        REACHED = {f"{FR}[-1].index[-1]", f"{FR}[-1].index.max()", f"{FR}[-1].index.values[-1]", f"{FR}[-1].index.to_numpy()[-1]", f"{FR}[-1].index[len({FR}[-1].index) - 1]",
                   f"{FR}[len({FR}) - 1].index[-1]", f"float({FR}[-1].index[-1])"}
        ZERO = {"0.0", "0", "float(0)"}
        for name, is_req in (("simulate", lambda t: t == "t_end"), ("simulate_time_course", lambda t: "time_points" in t and (t.endswith("[-1]") or t.endswith(".max()")))):
            fn = mod.func(f"{CLS}.{name}")
            q = f"{CLS}.{name}"
            out = I1().run_function(fn, Sym())
            paths = [st for st, _ in out.returns if ("len(self._errors) > 0", True) not in st.conds]
            if not paths:
                raise AnalysisError(f"{q}: no returning path")
            anchor = next((n for n in walk_no_nested(fn) if isinstance(n, ast.If) and any(isinstance(x, ast.Raise) for x in n.body)), fn)
            problems = []
            n_ok = 0
            for st in paths:
                none = dict((c, v) for c, v in st.conds).get(f"{FR} is None")
                found = False
                for c, v in st.conds:
                    m = _re.match(r"^(?P<a>.+?) (?P<op><=|>=|<|>) (?P<b>.+)$", c)
                    if not m or c.startswith("len(") or ".all()" in c or c.startswith("any(") or c.startswith("("):
                        continue
                    a, op, b = m.group("a"), m.group("op"), m.group("b")
                    # normalise to "req OP reached" being the CONTINUE condition
                    if is_req(a):
                        req, reached, cont = a, b, {"<=": not v, ">": v}.get(op)
                    elif is_req(b):
                        req, reached, cont = b, a, {">=": not v, "<": v}.get(op)
                    else:
                        continue
                    if cont is None:
                        problems.append(f"`{c}` lets a continuation end AT the time reached (or refuses a later end)")
                        found = True
                        continue
                    found = True
                    want = ZERO if none else REACHED
                    if not cont:
                        problems.append(f"a path continues although `{c}` is {v}")
                    elif reached not in want:
                        problems.append(f"the time reached is taken as `{reached}`" + (" although nothing is stored" if none else f", not the end of the last stored frame `{FR}[-1].index[-1]`"))
                    else:
                        n_ok += 1
                if not found:
                    problems.append("a path reaches the integrator without comparing the requested end with the time reached")
            if problems:
                self.violated("T6", SIM, q, "refusal", anchor, "; ".join(sorted(set(problems))[:3]),
                              witness="simulate(5); simulate(5) is accepted (duplicate end point), simulate(5); simulate(6) refused, or - with three segments - the end of the FIRST segment decides")
            else:
                self.holds("T6", SIM, q, "refusal", anchor, f"every continuing path has established requested end > end of the last stored frame (0.0 when nothing is stored) [{n_ok} paths]")
            if name != "simulate_time_course":
                continue
            # requested points before the time reached are removed before the integrator sees them
            oproblems = []
            for st in paths:
                if dict((c, v) for c, v in st.conds).get(f"{FR} is None") is not False:
                    continue
                sinks = [e[1] for e in st.events if e[0] == "call" and "integrate_time_course(" in e[1]]
                if not sinks:
                    continue
                allc = [(c, v) for c, v in st.conds if c.endswith(").all()") and "time_points" in c]
                proven = any(v and _re.match(r"^\((?P<arr>.+) >=? (?P<r>.+)\)\.all\(\)$", c) and _re.match(r"^\((?P<arr>.+) >=? (?P<r>.+)\)\.all\(\)$", c).group("r") in REACHED for c, v in allc)
                masked = any(_re.search(r"\[[^\[\]]*time_points[^\[\]]* >=? " + _re.escape(r_) + r"\]", sinks[0]) for r_ in REACHED)
                if not (proven or masked):
                    oproblems.append("requested points that lie before the time reached are handed to the integrator")
            if oproblems:
                self.violated("T6", SIM, q, "overlap-removed", anchor, oproblems[0] + ": the time axis of the result is not increasing",
                              witness="simulate_time_course([0, 1, 2]); simulate_time_course([1, 2, 3]): the second frame starts before the first one ends")
            else:
                self.holds("T6", SIM, q, "overlap-removed", anchor, "points before the time reached are masked out unless all points are proven not earlier")

    # ------------------------------------------------------------------
    def must_fire(self):
        S = f"{CLS}.simulate"
        TC = f"{CLS}.simulate_time_course"
        H = f"{CLS}._handle_simulation_results"
        return [
            Variant("compare-after-shift-simulate", SIM, S,
                    "    prior_t_end = 0.0 if (variables := self.variables) is None else variables[-1].index[-1]\n    if t_end <= prior_t_end:\n        msg = 'End time point has to be larger than previous end time point'\n        raise ValueError(msg)\n    if self._time_shift is not None:\n        t_end -= self._time_shift\n",
                    "    if self._time_shift is not None:\n        t_end -= self._time_shift\n    prior_t_end = 0.0 if (variables := self.variables) is None else variables[-1].index[-1]\n    if t_end <= prior_t_end:\n        msg = 'End time point has to be larger than previous end time point'\n        raise ValueError(msg)\n",
                    expect="T1|simulator.py|Simulator.simulate|compare", quick=True),
            Variant("drop-shift-simulate", SIM, S, "    if self._time_shift is not None:\n        t_end -= self._time_shift\n", "",
                    expect="T1|simulator.py|Simulator.simulate|sink", quick=True),
            Variant("drop-shift-back", SIM, H, "            if self._time_shift is not None:\n                time += self._time_shift\n", "",
                    expect="T1|simulator.py|Simulator._handle_simulation_results|store-frame", quick=True),
            Variant("drop-shift-time-course", SIM, TC, "    if self._time_shift is not None:\n        time_points -= self._time_shift\n", "",
                    expect="T1|simulator.py|Simulator.simulate_time_course|sink"),
            Variant("shift-added-instead", SIM, S, "t_end -= self._time_shift", "t_end += self._time_shift", expect="T1|"),
            Variant("refusal-strict", SIM, S, "if t_end <= prior_t_end:", "if t_end < prior_t_end:", expect="T6|", quick=True),
            Variant("refusal-strict-tc", SIM, TC, "if time_points[-1] <= prior_t_end:", "if time_points[-1] < prior_t_end:", expect="T6|"),
            Variant("merge-reversed", SIM, f"{CLS}.update_variables", "self.variables[-1].iloc[-1, :].to_dict() | variables",
                    "variables | self.variables[-1].iloc[-1, :].to_dict()", expect="T4|", quick=True),
            Variant("shift-from-first-row", SIM, f"{CLS}.update_variables", "float(self.variables[-1].index[-1])", "float(self.variables[-1].index[0])", expect="T4|"),
            Variant("no-reinit-after-override", SIM, f"{CLS}.update_variables",
                    "    self._time_shift = float(self.variables[-1].index[-1])\n    self._initialise_integrator()", "    self._time_shift = float(self.variables[-1].index[-1])", expect="T4|"),
            Variant("protocol-merges-frames", SIM, f"{CLS}.simulate_protocol", "    return self", "    self.variables = [pd.concat(self.variables)] if self.variables else self.variables\n    return self", expect="T8|", count=0, quick=True),
            Variant("clear-forgets-shift", SIM, f"{CLS}.clear_results", "    self._time_shift = None\n", "", expect="T5|", quick=True),
            Variant("clear-forgets-errors", SIM, f"{CLS}.clear_results", "    self._errors = []\n", "", expect="T5|"),
            Variant("clear-no-reinit", SIM, f"{CLS}.clear_results", "    self._initialise_integrator()", "    pass", expect="T5|"),
            Variant("params-not-recorded", SIM, H, "            self.simulation_parameters.append(self.model.get_parameter_values())\n", "", expect="T3|", quick=True),
            Variant("always-skipfirst", SIM, H, "            elif skipfirst:", "            elif True:", expect="T3|"),
            Variant("steady-state-skipfirst", SIM, f"{CLS}.simulate_to_steady_state", "skipfirst=False", "skipfirst=True", expect="T3|"),
            Variant("failure-stored-as-frame", SIM, H, "            self._errors.append(e)", "            self.variables = [e]", expect="T3|"),
            Variant("asarray-aliases-caller", SIM, f"{CLS}.simulate_protocol_time_course", "time_points = np.array(time_points, dtype=float)", "time_points = np.asarray(time_points, dtype=float)", expect="T7|", quick=True),
            Variant("asarray-aliases-caller-tc", SIM, f"{CLS}.simulate_time_course", "time_points = np.array(time_points, dtype=float)", "time_points = np.asarray(time_points, dtype=float)", expect="T7|"),
            Variant("scipy-integrate-from-zero", "integrators/int_scipy.py", "Scipy.integrate", "np.linspace(self.t0, t_end, steps, dtype=float)", "np.linspace(0, t_end, steps, dtype=float)", expect="T2|", quick=True),
            Variant("scipy-restart-from-original-state", "integrators/int_scipy.py", "Scipy.integrate_time_course", "y0=self.y0", "y0=self._y0_orig", expect="T2|"),
            Variant("scipy-no-t0-prepend", "integrators/int_scipy.py", "Scipy.integrate_time_course", "    if time_points[0] != self.t0:\n        time_points = np.insert(time_points, 0, self.t0)\n", "", expect="T2|"),
            Variant("first-override-lost", SIM, f"{CLS}.update_variables", "self.y0 = self.y0 | variables", "self.y0 = variables | self.y0", expect="T4|"),
            Variant("scipy-no-t0-advance", "integrators/int_scipy.py", "Scipy.integrate_time_course", "        self.t0 = t[-1]\n", "", expect="T2|", quick=True),
            Variant("scipy-no-y0-advance", "integrators/int_scipy.py", "Scipy.integrate_time_course", "        self.y0 = y[-1]\n", "", expect="T2|"),
            Variant("scipy-y0-first-row", "integrators/int_scipy.py", "Scipy.integrate_time_course", "self.y0 = y[-1]", "self.y0 = y[0]", expect="T2|"),
            Variant("reintroduce-steady-state-reset", "integrators/int_scipy.py", "Scipy.integrate_to_steady_state",
                    "    integ = spi.ode(", "    self.reset()\n    integ = spi.ode(", expect="T2|integrators/int_scipy.py|Scipy.integrate_to_steady_state|starts-from-reset", quick=True),
            Variant("steady-state-not-advanced", "integrators/int_scipy.py", "Scipy.integrate_to_steady_state",
                    "            self.t0 = t\n            self.y0 = y2\n", "", expect="T2|integrators/int_scipy.py|Scipy.integrate_to_steady_state|state-not-advanced"),
            Variant("steady-state-previous-iterate", "integrators/int_scipy.py", "Scipy.integrate_to_steady_state",
                    "self.y0 = y2", "self.y0 = y1", expect="T2|"),
        ]

    def must_stay_silent(self):
        S = f"{CLS}.simulate"
        return [
            Variant("rename-prior", SIM, S, r"\bprior_t_end\b", "prior_end", count=0, regex=True, quick=True),
            Variant("refusal-negated-form", SIM, S, "if t_end <= prior_t_end:", "if not t_end > prior_t_end:"),
            Variant("local-rel-copy", SIM, S, "        t_end -= self._time_shift\n", "        t_end = t_end - self._time_shift\n"),
            Variant("no-float-cast", SIM, f"{CLS}.update_variables", "float(self.variables[-1].index[-1])", "self.variables[-1].index[-1]"),
        ]


CHECK = C04
