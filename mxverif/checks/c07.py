"""C07 - generated Python / TypeScript / Rust / Julia model functions (DESIGN 4/C07, rules G1-G7)."""

from __future__ import annotations

import ast
import re as _re
import string

from ..core import expand_locals, single_defs, AnalysisError, Check, Scope, dotted, norm, strip_docstring, walk_no_nested
from ..interp import Sym, SymInterp
from ..variants import Variant
from .c06 import call_site_visibility

MOD = "meta/codegen_model.py"
GEN = "_generate_model_code"
BACKENDS = {"generate_model_code_py": "python", "generate_model_code_ts": "typescript", "generate_model_code_rs": "rust", "generate_model_code_jl": "julia"}
TOPO = ("model._create_cache().order", "cache.order")


def fields(template: str) -> list[str]:
    return [f if f is not None else "" for _, f, _, _ in string.Formatter().parse(template) if f is not None]


class C07(Check):
    pid = "C07"
    title = "Generated Python/TypeScript/Rust/Julia right-hand sides equal the model"
    rules = {
        "G10": "(shared with C06) semantics of the function translator every back end prints from: rules S2-S7, S9-S13 of C06 (field consumption, relations, branch isolation, fall-through, substitution, tables, operators, numbers-only calls, augmented assignment)",
        "G1": "definitions before uses: assignments for derived quantities and reactions are emitted while iterating the cached "
              "dependency order (either may name the other); derivative sums come after them",
        "G2": "every referable name is defined: the emitted parameters cover plain and initial-assignment parameters (minus the free ones)",
        "G3": "return shape: one derivative per variable, in declaration order, full length (no filtering)",
        "G4": "template fields: each back end's assignment template consumes both the name {k} and the value {v}; header, unpack and "
              "return templates consume what .format supplies",
        "G5": "the Python unpack template is shape-correct for a single variable (the target is a tuple/list pattern)",
        "G6": "an untranslatable function makes generation raise",
        "G8": "derivative sums: d<var>dt = sum over the variable's reactions of coefficient * rate (numeric and computed coefficients alike, "
              "accumulated with +), built from every (reaction, variable) stoichiometry entry",
        "G9": "the names returned are the names assigned: derivative sums are assigned to d<variable>dt and the return lists d<variable>dt",
        "G11": "no constant frozen from a free input: constants resolved once from the model's cache are emitted while free parameters become inputs, so "
               "the generator must relate the free parameters to the arguments of the computed components (and refuse or re-emit what depends on them); "
               "a generator that never looks at any `.args` together with the free parameters cannot know which constants went stale",
        "G7": "the four back ends agree on free-parameter handling (removed from the assignments, appended to the signature)",
    }
    floors = {"G10": 10, "G1": 2, "G2": 1, "G3": 2, "G4": 12, "G5": 2, "G6": 3, "G7": 4, "G8": 2, "G9": 1, "G11": 1}
    decided = [
        "generated functions never read a derived quantity / reaction / parameter before it is assigned",
        "template well-formedness at the level of format fields; Python unpacking shape",
        "untranslatable functions raise; free parameters become extra inputs in all four languages",
    ]
    undecided = ["numeric equivalence of the printed expressions", "well-formedness in TypeScript / Rust / Julia beyond template fields (no parser for those languages in this technique family)",
                 "surrogates and data sets (outside the statement)"]
    assumptions = ["sympy code printers emit valid expressions of the target language"]

    def run(self) -> None:
        mod = self.prog.module(MOD)
        gen = mod.func(GEN)
        body = strip_docstring(gen.body)
        sc = Scope(gen)
        self.borrow("C06", ("S2", "S3", "S4", "S5", "S6", "S7", "S9", "S10", "S11", "S12", "S13", "S14"), "G10")
        # ---- G1
        emit_loops = []
        for lp in [s for s in body if isinstance(s, ast.For)]:
            emits = [c for c in ast.walk(lp) if isinstance(c, ast.Call) and norm(c.func) == "assignment_template.format"]
            tr = [c for c in ast.walk(lp) if isinstance(c, ast.Call) and dotted(c.func).split(".")[-1] == "fn_to_sympy"]
            if emits and tr:
                emit_loops.append(lp)
        if not emit_loops:
            raise AnalysisError(f"{GEN}: emission loop for derived quantities / reactions not found")
        defs = single_defs(gen)
        for lp in emit_loops:
            it = norm(expand_locals(lp.iter, defs))
            kinds = [k for k in ("derived", "reaction", "rxn") if k in norm(lp)]
            cons = f"emission-loop over {it[:45]}"
            if it in TOPO:
                self.holds("G1", MOD, GEN, "emission-order", lp, f"assignments are emitted while iterating {it}")
            else:
                self.violated("G1", MOD, GEN, "emission-order", lp,
                              f"assignments that later assignments may read are emitted while iterating `{it}` (declaration order)",
                              witness="add_derived('d2', f, args=['d1']) before add_derived('d1', g, args=['x']): generated code assigns d2 = f(d1) before d1")
        if len(emit_loops) > 1:
            self.violated("G1", MOD, GEN, "single-ordered-pass", emit_loops[1],
                          "derived quantities and reactions are emitted in separate passes: a derived quantity that names a reaction rate is assigned before the rate",
                          witness="add_derived('d', f, args=['v1']) with reaction v1: generated code reads v1 before it is assigned")
        else:
            both = "derived" in norm(emit_loops[0]) and ("rxn" in norm(emit_loops[0]) or "reaction" in norm(emit_loops[0]))
            if both:
                self.holds("G1", MOD, GEN, "single-ordered-pass", emit_loops[0], "derived quantities and reactions share one dependency-ordered pass")
            else:
                self.violated("G1", MOD, GEN, "single-ordered-pass", emit_loops[0], "only one component kind is emitted in the ordered pass")
        dl = [s for s in body if isinstance(s, (ast.For, ast.Expr)) and "stoichiometries_to_sympy" in norm(s)]
        if dl and body.index(dl[0]) > max(body.index(l) for l in emit_loops):
            self.holds("G1", MOD, GEN, "sums-after-rates", dl[0], "derivative sums are emitted after all rates and derived quantities")
        else:
            self.violated("G1", MOD, GEN, "sums-after-rates", dl[0] if dl else gen, "derivative sums are not emitted after the reaction rates they read")
        # ---- G2
        fill = [s for s in body if isinstance(s, ast.For) and norm(s.iter) == "model.get_parameter_names()" and
                any(isinstance(x, ast.Assign) and norm(x.targets[0]).startswith("parameters[") for x in ast.walk(s))]
        src = [s for s in body if isinstance(s, ast.Assign) and norm(s.targets[0]) == "parameters"]
        from ..core import expand_locals as _xl, single_defs as _sd

        defs_g2 = {k_: v_ for k_, v_ in _sd(gen, anywhere=True).items() if "all_parameter_values" in norm(v_)}

        def _cache_based(e_):
            return "all_parameter_values" in norm(_xl(e_, defs_g2, depth=2))

        merged = [s for s in body if isinstance(s, ast.AugAssign) and norm(s.target) == "parameters" and isinstance(s.op, ast.BitOr)
                  and "model.get_parameter_names()" in norm(s.value) and _cache_based(s.value)]
        merged += [s for s in body if isinstance(s, ast.Expr) and isinstance(s.value, ast.Call) and norm(s.value.func) == "parameters.update" and s.value.args
                   and "model.get_parameter_names()" in norm(s.value.args[0]) and _cache_based(s.value.args[0])]
        fill = fill or merged
        # the fill adds exactly the names that are missing: a name not yet among the plain values gets its cached value
        fill_bad = None
        if fill and isinstance(fill[0], ast.For):
            class I1g(SymInterp):
                loop_unroll = 1

            o_ = I1g().block(fill[0].body, [Sym()])
            tv = norm(fill[0].target)
            n_add = 0
            for st_ in list(o_.normal) + list(o_.continues):
                missing = [v_ for c_, v_ in st_.conds if c_ == f"{tv} not in parameters"] + [not v_ for c_, v_ in st_.conds if c_ == f"{tv} in parameters"]
                stores_ = [e_ for e_ in st_.events if e_[0] == "store" and e_[1] == f"parameters[{tv}]"]
                if missing and missing[0] and not stores_:
                    fill_bad = "a parameter name that is not among the plain values gets no value"
                if stores_ and missing and not missing[0]:
                    fill_bad = "the plain values are overwritten while the assignment-defined parameters get no value"
                if stores_ and "all_parameter_values" not in stores_[0][2] and not any(k_ in stores_[0][2] for k_ in defs_g2):
                    fill_bad = f"the added value is `{stores_[0][2][:50]}`, not the cached resolved value"
                n_add += 1 if stores_ else 0
            if not n_add:
                fill_bad = fill_bad or "no path of the loop adds a value"
        elif merged:
            comps_ = [c_ for c_ in ast.walk(merged[0]) if isinstance(c_, ast.DictComp)]
            if comps_ and comps_[0].generators[0].ifs:
                t_ = comps_[0].generators[0].ifs[0]
                if not (isinstance(t_, ast.Compare) and len(t_.ops) == 1 and isinstance(t_.ops[0], ast.NotIn) and norm(t_.comparators[0]) == "parameters"):
                    fill_bad = f"the merged names are filtered by `{norm(t_)[:50]}` instead of `name not in parameters`"
        if fill_bad:
            self.violated("G2", MOD, GEN, "parameters-cover-initial-assignments", fill[0], fill_bad + ": a parameter defined by an initial assignment is referred to but never defined in the generated function",
                          witness="a model with a parameter p := InitialAssignment(2*k): the generated function reads p without defining it (NameError / compile error)")
        elif fill or (src and "all_parameter_values" in norm(src[0].value)):
            self.holds("G2", MOD, GEN, "parameters-cover-initial-assignments", fill[0] if fill else src[0], "every name of get_parameter_names() gets a value (assignment-defined ones from the cached frozen values)")
        else:
            self.violated("G2", MOD, GEN, "parameters-cover-initial-assignments", src[0] if src else gen,
                          f"emitted parameters come from `{norm(src[0].value) if src else '?'}` only: parameters defined by an initial assignment are never assigned",
                          witness="add_parameter('k', InitialAssignment(f, ['x'])) used by a reaction: generated code reads undefined k")
        # ---- G3
        rcall = [c for c in ast.walk(gen) if isinstance(c, ast.Call) and norm(c.func) == "return_template.format" and c.args]
        if not rcall:
            raise AnalysisError(f"{GEN}: return_template.format(..) not found")
        rexp = expand_locals(rcall[0].args[0], defs)
        self.ret_expr = rexp
        over_vars = [g for n in ast.walk(rexp) if isinstance(n, (ast.ListComp, ast.GeneratorExp)) for g in n.generators if norm(g.iter) in ("variables", "model.get_initial_conditions()", "list(variables)")]
        filt = [g for g in over_vars if g.ifs]
        node3 = ([s for s in body if isinstance(s, ast.Assign) and any(isinstance(n, (ast.ListComp, ast.GeneratorExp)) and any(g.ifs and norm(g.iter) == "variables" for g in n.generators)
                                                                        for n in ast.walk(s.value))] or [rcall[0]])[0]
        if not over_vars:
            self.undecided_ob("G3", MOD, GEN, "return-one-per-variable", rcall[0], f"returned sequence `{norm(rexp)[:80]}` is not built from the variables")
        elif filt:
            self.violated("G3", MOD, GEN, "return-one-per-variable", node3,
                          f"`{norm(rexp)[:90]}` filters the variables: a variable that no reaction touches is missing from the returned derivatives",
                          witness="variables x, y with one reaction on x: generated model returns one value for a two-variable state")
        else:
            self.holds("G3", MOD, GEN, "return-one-per-variable", node3, "returns one derivative per variable in declaration order")
        placeholder = [n for n in ast.walk(rexp) if isinstance(n, ast.IfExp) and any(isinstance(x, ast.Constant) and x.value == "()" for x in (n.body, n.orelse))]
        node3b = ([s for s in body if isinstance(s, ast.Assign) and "'()'" in norm(s.value)] or [rcall[0]])[0]
        if placeholder:
            self.violated("G3", MOD, GEN, "return-empty-placeholder", node3b,
                          "without reactions the generated function returns `()` instead of one zero per variable",
                          witness="a model with variables and no reactions: generated model returns () for a non-empty state")
        else:
            self.holds("G3", MOD, GEN, "return-empty-placeholder", node3b, "no special-cased empty return")
        # ---- G4 / G5 / G7 per back end
        for fname, lang in BACKENDS.items():
            f = mod.func(fname)
            calls = [c for c in ast.walk(f) if isinstance(c, ast.Call) and norm(c.func) == GEN]
            if len(calls) != 1:
                raise AnalysisError(f"{fname}: call of {GEN} not found")
            kw = {k.arg: k.value for k in calls[0].keywords}
            tpl = {k: v.value for k, v in kw.items() if isinstance(v, ast.Constant) and isinstance(v.value, str)}
            at = tpl.get("assignment_template", "")
            fs = fields(at)
            if set(fs) == {"k", "v"}:
                self.holds("G4", MOD, fname, "assignment-template", kw["assignment_template"], f"{at!r} consumes k and v")
            else:
                self.violated("G4", MOD, fname, "assignment-template", kw.get("assignment_template", calls[0]),
                              f"{lang} assignment template {at!r} consumes fields {fs} instead of k and v: every value is assigned to the same literal name",
                              witness=f"any model: the generated {lang} code never defines the parameters / rates it later reads")
            for name, want in (("variables_template", [""]), ("return_template", [""])):
                t = tpl.get(name, "")
                if fields(t) == want:
                    self.holds("G4", MOD, fname, name, kw[name], f"{t!r} consumes the one positional field it is given")
                else:
                    self.violated("G4", MOD, fname, name, kw.get(name, calls[0]), f"{lang} {name} {t!r} has fields {fields(t)}")
            if lang == "python":
                vt = tpl.get("variables_template", "")
                line = vt.format("x").strip()
                try:
                    tgt = ast.parse(line).body[0].targets[0]
                    ok = isinstance(tgt, (ast.Tuple, ast.List))
                except (SyntaxError, AttributeError, IndexError):
                    ok = False
                joiner = [c for c in ast.walk(gen) if isinstance(c, ast.Call) and norm(c.func) == "variables_template.format"]
                jarg = norm(joiner[0].args[0]) if joiner else ""
                if ok:
                    self.holds("G5", MOD, fname, "single-variable-unpack", kw["variables_template"], f"`{line}` unpacks a one-element sequence")
                else:
                    self.violated("G5", MOD, fname, "single-variable-unpack", kw["variables_template"],
                                  f"for one variable the template yields `{line}` (joined with {jarg}): the name is bound to the whole sequence, not to its element",
                                  witness="a one-variable model: generated model(t, [1.0]) computes with x = [1.0] (TypeError or list arithmetic)")
            if lang == "python":
                rt_ = tpl.get("return_template", "")
                line = rt_.format("dxdt").strip()
                try:
                    val = ast.parse(line).body[0].value
                    okr = isinstance(val, (ast.Tuple, ast.List))
                except (SyntaxError, AttributeError, IndexError):
                    okr = False
                if okr:
                    self.holds("G5", MOD, fname, "single-variable-return", kw["return_template"], f"`{line}` returns a one-element sequence")
                else:
                    self.violated("G5", MOD, fname, "single-variable-return", kw["return_template"],
                                  f"for one variable the template yields `{line}`: a bare number is returned instead of one derivative per variable as a sequence",
                                  witness="a one-variable model: list(model(t, [1.0])) raises TypeError")
            if norm(kw.get("free_parameters")) == "free_parameters" and "free_parameters" in norm(f.body[-2] if len(f.body) > 1 else f) and "args" in norm(f):
                self.holds("G7", MOD, fname, "free-parameters", calls[0], "free parameters are forwarded to the generator and appended to the signature")
            else:
                self.violated("G7", MOD, fname, "free-parameters", calls[0], f"{lang} back end does not forward / declare the free parameters")
        def _removes_free(s_):
            for l_ in ast.walk(s_):
                if isinstance(l_, ast.For) and norm(l_.iter) == "free_parameters" and isinstance(l_.target, ast.Name):
                    v_ = l_.target.id
                    if any((isinstance(x_, ast.Call) and norm(x_.func) == "parameters.pop" and x_.args and norm(x_.args[0]) == v_)
                           or (isinstance(x_, ast.Delete) and any(norm(t_) == f"parameters[{v_}]" for t_ in x_.targets)) for x_ in ast.walk(l_)):
                        return True
            return False

        pops = [s for s in body if isinstance(s, ast.If) and norm(s.test) in ("free_parameters is not None", "free_parameters") and _removes_free(s)]
        emit_p = [i for i, s in enumerate(body) if isinstance(s, ast.If) and norm(s.test) in ("len(parameters) > 0", "parameters", "len(parameters) != 0")]
        # nothing may put names back into `parameters` after the free ones were removed
        refill = [i for i, s_ in enumerate(body) if pops and body.index(pops[0]) < i < (emit_p[0] if emit_p else len(body)) and any(
            (isinstance(x, ast.Assign) and isinstance(x.targets[0], ast.Subscript) and norm(x.targets[0].value) == "parameters")
            or (isinstance(x, ast.AugAssign) and norm(x.target) == "parameters")
            or (isinstance(x, ast.Assign) and norm(x.targets[0]) == "parameters")
            or (isinstance(x, ast.Call) and norm(x.func) in ("parameters.update", "parameters.setdefault")) for x in ast.walk(s_))]
        if refill:
            self.violated("G7", MOD, GEN, "free-parameters-not-assigned", body[refill[0]],
                          f"`{norm(body[refill[0]])[:70]}` fills `parameters` again after the free parameters were removed: they are assigned inside the generated function and shadow the extra inputs",
                          witness="generate_model_code_py(m, free_parameters=['k1']): the body assigns k1 = <model value>, the argument is ignored")
        elif pops and emit_p and body.index(pops[0]) < emit_p[0]:
            self.holds("G7", MOD, GEN, "free-parameters-not-assigned", pops[0], "free parameters are removed before the parameter assignments are emitted")
        else:
            self.violated("G7", MOD, GEN, "free-parameters-not-assigned", gen, "free parameters are still assigned inside the generated function (shadowing the extra inputs)")
        # ---- G11: free parameters vs constants resolved from the cache
        if "free_parameters" in [a.arg for a in gen.args.args + gen.args.kwonlyargs]:
            cached_consts = [n for n in walk_no_nested(gen) if isinstance(n, ast.Subscript) and "all_parameter_values" in norm(n.value)] or \
                            [n for n in walk_no_nested(gen) if isinstance(n, ast.Attribute) and n.attr == "all_parameter_values"]
            tainted = {"free_parameters"}
            argsy: set[str] = set()
            for _ in range(4):
                for x in walk_no_nested(gen):
                    tgt = val = None
                    if isinstance(x, ast.Assign) and len(x.targets) == 1 and isinstance(x.targets[0], ast.Name):
                        tgt, val = x.targets[0].id, x.value
                    elif isinstance(x, ast.NamedExpr):
                        tgt, val = x.target.id, x.value
                    if tgt is None:
                        continue
                    if any(isinstance(y, ast.Name) and y.id in tainted for y in ast.walk(val)):
                        tainted.add(tgt)
                    if any((isinstance(y, ast.Attribute) and y.attr == "args") or (isinstance(y, ast.Constant) and y.value == "args") or (isinstance(y, ast.Name) and y.id in argsy)
                           for y in ast.walk(val)):
                        argsy.add(tgt)

            def mentions(e, names, attr=False):
                return any((isinstance(y, ast.Name) and y.id in names) or (attr and isinstance(y, ast.Attribute) and y.attr == "args") for y in ast.walk(e))

            relation = None
            for x in walk_no_nested(gen):
                tests = [x.test] if isinstance(x, (ast.If, ast.IfExp, ast.While)) else list(x.ifs) if isinstance(x, ast.comprehension) else []
                for t in tests:
                    if mentions(t, tainted) and mentions(t, argsy, attr=True):
                        relation = x
            if not cached_consts:
                self.holds("G11", MOD, GEN, "frozen-constants-vs-free-parameters", gen, "no constant is taken from the cache")
            elif relation is not None and not any(
                    (isinstance(x, ast.Call) and isinstance(x.func, ast.Attribute) and x.func.attr in ("add", "update") and isinstance(x.func.value, ast.Name) and x.func.value.id in tainted)
                    or (isinstance(x, ast.AugAssign) and isinstance(x.target, ast.Name) and x.target.id in tainted)
                    for lp_ in ast.walk(gen) if isinstance(lp_, (ast.For, ast.While)) and any(relation is y for y in ast.walk(lp_)) for x in ast.walk(lp_)):
                self.violated("G11", MOD, GEN, "frozen-constants-vs-free-parameters", relation,
                              "the free parameters are compared with the arguments of the computed components, but the set of moving names never grows: a constant that depends on a free "
                              "parameter through a derived quantity (or through another assignment-defined parameter) is still frozen",
                              witness="k free, kd = Derived(2*k), p := InitialAssignment(kd + 1): the generated function called with another k keeps p at its default-k value")
            elif relation is not None:
                self.holds("G11", MOD, GEN, "frozen-constants-vs-free-parameters", relation, f"`{norm(getattr(relation, 'test', relation))[:60]}` relates the free parameters to component arguments")
            else:
                self.violated("G11", MOD, GEN, "frozen-constants-vs-free-parameters", cached_consts[0],
                              "parameters computed by an initial assignment are emitted as constants resolved at the model's current values, free parameters become inputs, and nothing "
                              "relates the two: a constant computed from a free parameter keeps the value it had at generation time",
                              witness="q := InitialAssignment(2*p), free_parameters=['p']: the generated function called with p = 3 uses q = 2.0; the model with p = 3 uses q = 6.0")
        # ---- G6: on every path of one iteration over the sorted order, whatever is emitted was tested against None first
        order_loops = [l for l in body if isinstance(l, ast.For) and any(isinstance(c, ast.Call) and dotted(c.func).split(".")[-1] == "fn_to_sympy" for c in ast.walk(l))]
        if not order_loops:
            raise AnalysisError(f"{GEN}: emission loop for derived quantities / reactions not found")
        ol = order_loops[0]
        interp = SymInterp()
        o = interp.block(ol.body, [Sym()])
        iter_paths = list(o.normal) + list(o.continues)
        anchor6 = [c for c in walk_no_nested(gen) if isinstance(c, ast.Call) and dotted(c.func).split(".")[-1] == "fn_to_sympy"]
        emitted: dict[str, bool] = {}
        for stp in iter_paths:
            for e in stp.events:
                if e[0] != "call" or not _re.match(r"^\w+\.append\(assignment_template\.format\(", e[1]):
                    continue
                c = ast.parse(e[1], mode="eval").body.args[0]
                kwv = {k.arg: k.value for k in c.keywords}.get("v")
                inner = kwv.args[0] if isinstance(kwv, ast.Call) and norm(kwv.func) == "sympy_inline_fn" and kwv.args else kwv
                txt = norm(inner)
                tested = (f"{txt} is None", False) in stp.conds or (f"{txt} is not None", True) in stp.conds
                for f2s in [x for x in ast.walk(inner) if isinstance(x, ast.Call) and dotted(x.func).split(".")[-1] == "fn_to_sympy" and x.args]:
                    k = norm(f2s.args[0])
                    emitted[k] = emitted.get(k, True) and tested
        if len(emitted) < 2:
            raise AnalysisError(f"{GEN}: emission of translated derived quantities / reactions not recognised")
        for k, ok in sorted(emitted.items()):
            cons = f"untranslatable@{k}"
            if ok:
                self.holds("G6", MOD, GEN, cons, anchor6[0], "a None translation raises ValueError before anything is emitted for it")
            else:
                self.violated("G6", MOD, GEN, cons, anchor6[0], "a failed translation does not make generation raise",
                              witness="a rate law using an unsupported construct is emitted as `None`")
        st = self.prog.module("meta/sympy_tools.py").func("stoichiometries_to_sympy")
        lps = [l for l in strip_docstring(st.body) if isinstance(l, ast.For) and isinstance(l.target, ast.Tuple) and len(l.target.elts) == 2]
        if not lps:
            raise AnalysisError("stoichiometries_to_sympy: loop over the stoichiometry not found")
        rn, rs = norm(lps[0].target.elts[0]), norm(lps[0].target.elts[1])
        acc_names = [norm(s_.targets[0]) for s_ in strip_docstring(st.body) if isinstance(s_, ast.Assign) and isinstance(s_.targets[0], ast.Name) and "Integer(0)" in norm(s_.value)]
        acc = acc_names[0] if acc_names else "expr"
        o8 = SymInterp().block(lps[0].body, [Sym()])
        got = set()
        for stp in list(o8.normal) + list(o8.continues):
            val = stp.get(acc)
            derived = any(c == f"isinstance({rs}, Derived)" and p_ for c, p_ in stp.conds)
            want_c = f"fn_to_sympy({rs}.fn, origin=origin, model_args=list_of_symbols({rs}.args))" if derived else rs
            got.add("ok" if val in (f"{acc} + {want_c} * sympy.Symbol({rn})", f"{acc} + sympy.Symbol({rn}) * {want_c}") else f"{'Derived' if derived else 'numeric'}: {val}")
        adds = [a_ for a_ in ast.walk(st) if isinstance(a_, ast.Assign) and norm(a_.targets[0]) == acc and isinstance(a_.value, ast.BinOp)]
        if got == {"ok"} and len(o8.normal) + len(o8.continues) >= 2 and norm(lps[0].iter) == "stoichs.items()":
            self.holds("G8", "meta/sympy_tools.py", st.name, "sum-of-coefficient-times-rate", adds[0] if adds else st, "expr accumulates + coefficient * Symbol(reaction) for computed and numeric coefficients")
        else:
            self.violated("G8", "meta/sympy_tools.py", st.name, "sum-of-coefficient-times-rate", adds[0] if adds else st, f"derivative sums are built from {sorted(got - {'ok'})} instead of + coefficient * rate",
                          witness="the generated model returns derivatives with a flipped sign / without a coefficient")
        defs = single_defs(gen)
        fill = [l for l in body if isinstance(l, ast.For) and norm(expand_locals(l.iter, defs)) == "model.get_raw_reactions().items()" and "diff_eqs" in norm(l)]
        okf = False
        if fill and isinstance(fill[0].target, ast.Tuple) and len(fill[0].target.elts) == 2:
            inner8 = [l for l in fill[0].body if isinstance(l, ast.For)]
            rxn_n, rxn_o = norm(fill[0].target.elts[0]), norm(fill[0].target.elts[1])
            if len(inner8) == 1 and len(fill[0].body) == 1 and norm(inner8[0].iter) == f"{rxn_o}.stoichiometry.items()" and isinstance(inner8[0].target, ast.Tuple):
                si8 = SymInterp()
                st8 = si8.assign(inner8[0].target, si8.item(inner8[0].iter, 0, Sym()), Sym())
                o_ = si8.block(inner8[0].body, [st8])
                ends8 = list(o_.normal) + list(o_.continues)
                K8, V8 = f"KEY(0, {rxn_o}.stoichiometry)", f"VALUE(0, {rxn_o}.stoichiometry)"
                good8 = (f"diff_eqs[{K8}][{rxn_n}]", f"diff_eqs.setdefault({K8}, {{}})[{rxn_n}]")
                okf = bool(ends8) and not o_.breaks and all(
                    [t_ for t_, v_ in st.stores() if t_.endswith(f"[{rxn_n}]")] in ([good8[0]], [good8[1]]) and all(v_ == V8 for t_, v_ in st.stores() if t_.endswith(f"[{rxn_n}]"))
                    and (good8[1] in [t_ for t_, _ in st.stores()] or norm(defs.get("diff_eqs")) == "defaultdict(dict)"
                         or any(t_ == f"diff_eqs[{K8}]" and v_ == "{}" for t_, v_ in st.stores()) or (f"{K8} in diff_eqs", True) in st.conds)
                    for st in ends8)
        if okf:
            self.holds("G8", MOD, GEN, "every-stoichiometry-entry", fill[0], "diff_eqs[variable][reaction] = coefficient for every entry of every reaction")
        else:
            self.violated("G8", MOD, GEN, "every-stoichiometry-entry", fill[0] if fill else gen, "not every (reaction, variable) stoichiometry entry reaches the derivative sums")
        asg = [c for c in ast.walk(gen) if isinstance(c, ast.Call) and norm(c.func) == "assignment_template.format" and "dt" in norm(c)]
        retn = [n.elt for n in ast.walk(self.ret_expr) if isinstance(n, (ast.GeneratorExp, ast.ListComp)) and isinstance(n.elt, ast.JoinedStr)]
        ka = {k.arg: k.value for k in asg[0].keywords}.get("k") if asg else None
        pat_a = "".join(v.value if isinstance(v, ast.Constant) else "{}" for v in ka.values) if isinstance(ka, ast.JoinedStr) else None
        pat_r = "".join(v.value if isinstance(v, ast.Constant) else "{}" for v in retn[0].values) if retn else None
        if pat_a is not None and pat_a == pat_r:
            self.holds("G9", MOD, GEN, "returned-names-are-assigned", asg[0], f"assigned and returned as `{pat_a}`")
        else:
            self.violated("G9", MOD, GEN, "returned-names-are-assigned", asg[0] if asg else gen, f"derivative sums are assigned to `{pat_a}` but `{pat_r}` is returned",
                          witness="the generated function returns names that were never assigned")
        sc2 = Scope(st)
        for c in [c for c in walk_no_nested(st) if isinstance(c, ast.Call) and dotted(c.func).split(".")[-1] == "fn_to_sympy"]:
            ok, why = call_site_visibility(c, sc2, st)
            if ok:
                self.holds("G6", "meta/sympy_tools.py", st.name, "untranslatable-coefficient", c, why)
            else:
                self.violated("G6", "meta/sympy_tools.py", st.name, "untranslatable-coefficient", c, "an untranslatable coefficient does not raise")

    def must_fire(self):
        return [
            Variant("constants-frozen-from-free-inputs", MOD, GEN, "if moving.isdisjoint(args):", "if True:", expect="G11|", quick=True),
            Variant("declaration-order-again", MOD, GEN, "reactions_by_name = model.get_raw_reactions()\n    for name in model._create_cache().order:",
                    "reactions_by_name = model.get_raw_reactions()\n    for name in [*derived_by_name, *reactions_by_name]:", expect="G1|", quick=True),
            Variant("no-initial-assignment-parameters", MOD, GEN,
                    "    for name in model.get_parameter_names():\n        if name not in parameters:\n            parameters[name] = all_parameter_values[name]\n", "", expect="G2|", quick=True),
            Variant("reintroduce-python-bare-unpack", MOD, "generate_model_code_py", "variables_template='    ({},) = variables'", "variables_template='    {} = variables'", expect="G5|", quick=True),
            Variant("reintroduce-python-bare-return", MOD, "generate_model_code_py", "return_template='    return ({},)'", "return_template='    return {}'", expect="G5|"),
            Variant("ts-template-drops-k", MOD, "generate_model_code_ts", "'    let {k}: number = {v};'", "'    let k: number = {v};'", expect="G4|", quick=True),
            Variant("rs-return-template-no-field", MOD, "generate_model_code_rs", "return_template='    return [{}]'", "return_template='    return []'", expect="G4|"),
            Variant("reaction-none-emitted", MOD, GEN, "            if expr is None:\n                msg = f\"Unable to parse fn for reaction value '{name}'\"\n                raise ValueError(msg)\n", "", expect="G6|", quick=True),
            Variant("derivative-name-mismatch", MOD, GEN, "k=f'd{variable}dt'", "k=f'd{variable}'", expect="G9|"),
            Variant("derivative-sum-sign", "meta/sympy_tools.py", "stoichiometries_to_sympy", "expr = expr + rxn_stoich * sympy.Symbol(rxn_name)", "expr = expr - rxn_stoich * sympy.Symbol(rxn_name)", expect="G8|"),
            Variant("rust-ignores-free-parameters", MOD, "generate_model_code_rs", "free_parameters=free_parameters", "free_parameters=None", expect="G7|"),
            Variant("free-parameters-still-assigned", MOD, GEN, "        for key in free_parameters:\n            parameters.pop(key)\n", "", expect="G7|"),
        ]

    def must_stay_silent(self):
        return [
            Variant("rename-name", MOD, GEN, r"\brxn\b", "reaction", count=0, regex=True, quick=True),
        ]


CHECK = C07
