"""C07 - generated Python / TypeScript / Rust / Julia model functions (DESIGN 4/C07, rules G1-G7)."""

from __future__ import annotations

import ast
import string

from ..core import AnalysisError, Check, Scope, dotted, norm, strip_docstring, walk_no_nested
from ..variants import Variant
from .c06 import call_site_visibility

MOD = "meta/codegen_model.py"
GEN = "_generate_model_code"
BACKENDS = {"generate_model_code_py": "python", "generate_model_code_ts": "typescript", "generate_model_code_rs": "rust", "generate_model_code_jl": "julia"}
TOPO = ("model._create_cache().order", "cache.order")


def fields(template: str) -> list[str]:
    return [f if f is not None else "" for _, f, _, _ in string.Formatter().parse(template) if f is not None]


class C07(Check):
    pid = "C07"
    title = "Generated Python/TypeScript/Rust/Julia right-hand sides equal the model"
    rules = {
        "G1": "definitions before uses: assignments for derived quantities and reactions are emitted while iterating the cached "
              "dependency order (either may name the other); derivative sums come after them",
        "G2": "every referable name is defined: the emitted parameters cover plain and initial-assignment parameters (minus the free ones)",
        "G3": "return shape: one derivative per variable, in declaration order, full length (no filtering)",
        "G4": "template fields: each back end's assignment template consumes both the name {k} and the value {v}; header, unpack and "
              "return templates consume what .format supplies",
        "G5": "the Python unpack template is shape-correct for a single variable (the target is a tuple/list pattern)",
        "G6": "an untranslatable function makes generation raise",
        "G8": "derivative sums: d<var>dt = sum over the variable's reactions of coefficient * rate (numeric and computed coefficients alike, "
              "accumulated with +), built from every (reaction, variable) stoichiometry entry",
        "G9": "the names returned are the names assigned: derivative sums are assigned to d<variable>dt and the return lists d<variable>dt",
        "G7": "the four back ends agree on free-parameter handling (removed from the assignments, appended to the signature)",
    }
    floors = {"G1": 2, "G2": 1, "G3": 2, "G4": 12, "G5": 2, "G6": 3, "G7": 4, "G8": 2, "G9": 1}
    decided = [
        "generated functions never read a derived quantity / reaction / parameter before it is assigned",
        "template well-formedness at the level of format fields; Python unpacking shape",
        "untranslatable functions raise; free parameters become extra inputs in all four languages",
    ]
    undecided = ["numeric equivalence of the printed expressions", "well-formedness in TypeScript / Rust / Julia beyond template fields (no parser for those languages in this technique family)",
                 "surrogates and data sets (outside the statement)"]
    assumptions = ["sympy code printers emit valid expressions of the target language"]

    def run(self) -> None:
        mod = self.prog.module(MOD)
        gen = mod.func(GEN)
        body = strip_docstring(gen.body)
        sc = Scope(gen)
        # ---- G1
        emit_loops = []
        for lp in [s for s in body if isinstance(s, ast.For)]:
            emits = [c for c in ast.walk(lp) if isinstance(c, ast.Call) and norm(c.func) == "assignment_template.format"]
            tr = [c for c in ast.walk(lp) if isinstance(c, ast.Call) and dotted(c.func).split(".")[-1] == "fn_to_sympy"]
            if emits and tr:
                emit_loops.append(lp)
        if not emit_loops:
            raise AnalysisError(f"{GEN}: emission loop for derived quantities / reactions not found")
        for lp in emit_loops:
            it = norm(lp.iter)
            kinds = [k for k in ("derived", "reaction", "rxn") if k in norm(lp)]
            cons = f"emission-loop over {it[:45]}"
            if it in TOPO:
                self.holds("G1", MOD, GEN, "emission-order", lp, f"assignments are emitted while iterating {it}")
            else:
                self.violated("G1", MOD, GEN, "emission-order", lp,
                              f"assignments that later assignments may read are emitted while iterating `{it}` (declaration order)",
                              witness="add_derived('d2', f, args=['d1']) before add_derived('d1', g, args=['x']): generated code assigns d2 = f(d1) before d1")
        if len(emit_loops) > 1:
            self.violated("G1", MOD, GEN, "single-ordered-pass", emit_loops[1],
                          "derived quantities and reactions are emitted in separate passes: a derived quantity that names a reaction rate is assigned before the rate",
                          witness="add_derived('d', f, args=['v1']) with reaction v1: generated code reads v1 before it is assigned")
        else:
            both = "derived" in norm(emit_loops[0]) and ("rxn" in norm(emit_loops[0]) or "reaction" in norm(emit_loops[0]))
            if both:
                self.holds("G1", MOD, GEN, "single-ordered-pass", emit_loops[0], "derived quantities and reactions share one dependency-ordered pass")
            else:
                self.violated("G1", MOD, GEN, "single-ordered-pass", emit_loops[0], "only one component kind is emitted in the ordered pass")
        dl = [s for s in body if isinstance(s, ast.For) and "stoichiometries_to_sympy" in norm(s)]
        if dl and body.index(dl[0]) > max(body.index(l) for l in emit_loops):
            self.holds("G1", MOD, GEN, "sums-after-rates", dl[0], "derivative sums are emitted after all rates and derived quantities")
        else:
            self.violated("G1", MOD, GEN, "sums-after-rates", dl[0] if dl else gen, "derivative sums are not emitted after the reaction rates they read")
        # ---- G2
        fill = [s for s in body if isinstance(s, ast.For) and norm(s.iter) == "model.get_parameter_names()" and
                any(isinstance(x, ast.Assign) and norm(x.targets[0]).startswith("parameters[") for x in ast.walk(s))]
        src = [s for s in body if isinstance(s, ast.Assign) and norm(s.targets[0]) == "parameters"]
        if fill or (src and "all_parameter_values" in norm(src[0].value)):
            self.holds("G2", MOD, GEN, "parameters-cover-initial-assignments", fill[0] if fill else src[0], "every name of get_parameter_names() gets a value (assignment-defined ones from the cached frozen values)")
        else:
            self.violated("G2", MOD, GEN, "parameters-cover-initial-assignments", src[0] if src else gen,
                          f"emitted parameters come from `{norm(src[0].value) if src else '?'}` only: parameters defined by an initial assignment are never assigned",
                          witness="add_parameter('k', InitialAssignment(f, ['x'])) used by a reaction: generated code reads undefined k")
        # ---- G3
        ro = [s for s in body if isinstance(s, ast.Assign) and norm(s.targets[0]) == "ret_order"]
        if not ro:
            raise AnalysisError(f"{GEN}: ret_order not found")
        v = ro[0].value
        filt = isinstance(v, ast.ListComp) and v.generators[0].ifs
        if filt or norm(v) not in ("list(variables)", "[i for i in variables]"):
            self.violated("G3", MOD, GEN, "return-one-per-variable", ro[0],
                          f"`{norm(ro[0])}` filters the variables: a variable that no reaction touches is missing from the returned derivatives",
                          witness="variables x, y with one reaction on x: generated model returns one value for a two-variable state")
        else:
            self.holds("G3", MOD, GEN, "return-one-per-variable", ro[0], "returns one derivative per variable in declaration order")
        rt = [s for s in body if isinstance(s, ast.Assign) and norm(s.targets[0]) == "ret"]
        if rt and "'()'" in norm(rt[0].value):
            self.violated("G3", MOD, GEN, "return-empty-placeholder", rt[0],
                          "without reactions the generated function returns `()` instead of one zero per variable",
                          witness="a model with variables and no reactions: generated model returns () for a non-empty state")
        elif rt:
            self.holds("G3", MOD, GEN, "return-empty-placeholder", rt[0], "no special-cased empty return")
        # ---- G4 / G5 / G7 per back end
        for fname, lang in BACKENDS.items():
            f = mod.func(fname)
            calls = [c for c in ast.walk(f) if isinstance(c, ast.Call) and norm(c.func) == GEN]
            if len(calls) != 1:
                raise AnalysisError(f"{fname}: call of {GEN} not found")
            kw = {k.arg: k.value for k in calls[0].keywords}
            tpl = {k: v.value for k, v in kw.items() if isinstance(v, ast.Constant) and isinstance(v.value, str)}
            at = tpl.get("assignment_template", "")
            fs = fields(at)
            if set(fs) == {"k", "v"}:
                self.holds("G4", MOD, fname, "assignment-template", kw["assignment_template"], f"{at!r} consumes k and v")
            else:
                self.violated("G4", MOD, fname, "assignment-template", kw.get("assignment_template", calls[0]),
                              f"{lang} assignment template {at!r} consumes fields {fs} instead of k and v: every value is assigned to the same literal name",
                              witness=f"any model: the generated {lang} code never defines the parameters / rates it later reads")
            for name, want in (("variables_template", [""]), ("return_template", [""])):
                t = tpl.get(name, "")
                if fields(t) == want:
                    self.holds("G4", MOD, fname, name, kw[name], f"{t!r} consumes the one positional field it is given")
                else:
                    self.violated("G4", MOD, fname, name, kw.get(name, calls[0]), f"{lang} {name} {t!r} has fields {fields(t)}")
            if lang == "python":
                vt = tpl.get("variables_template", "")
                line = vt.format("x").strip()
                try:
                    tgt = ast.parse(line).body[0].targets[0]
                    ok = isinstance(tgt, (ast.Tuple, ast.List))
                except (SyntaxError, AttributeError, IndexError):
                    ok = False
                joiner = [c for c in ast.walk(gen) if isinstance(c, ast.Call) and norm(c.func) == "variables_template.format"]
                jarg = norm(joiner[0].args[0]) if joiner else ""
                if ok:
                    self.holds("G5", MOD, fname, "single-variable-unpack", kw["variables_template"], f"`{line}` unpacks a one-element sequence")
                else:
                    self.violated("G5", MOD, fname, "single-variable-unpack", kw["variables_template"],
                                  f"for one variable the template yields `{line}` (joined with {jarg}): the name is bound to the whole sequence, not to its element",
                                  witness="a one-variable model: generated model(t, [1.0]) computes with x = [1.0] (TypeError or list arithmetic)")
            if lang == "python":
                rt_ = tpl.get("return_template", "")
                line = rt_.format("dxdt").strip()
                try:
                    val = ast.parse(line).body[0].value
                    okr = isinstance(val, (ast.Tuple, ast.List))
                except (SyntaxError, AttributeError, IndexError):
                    okr = False
                if okr:
                    self.holds("G5", MOD, fname, "single-variable-return", kw["return_template"], f"`{line}` returns a one-element sequence")
                else:
                    self.violated("G5", MOD, fname, "single-variable-return", kw["return_template"],
                                  f"for one variable the template yields `{line}`: a bare number is returned instead of one derivative per variable as a sequence",
                                  witness="a one-variable model: list(model(t, [1.0])) raises TypeError")
            if norm(kw.get("free_parameters")) == "free_parameters" and "free_parameters" in norm(f.body[-2] if len(f.body) > 1 else f) and "args" in norm(f):
                self.holds("G7", MOD, fname, "free-parameters", calls[0], "free parameters are forwarded to the generator and appended to the signature")
            else:
                self.violated("G7", MOD, fname, "free-parameters", calls[0], f"{lang} back end does not forward / declare the free parameters")
        pops = [s for s in body if isinstance(s, ast.If) and norm(s.test) == "free_parameters is not None" and "parameters.pop(key)" in norm(s)]
        emit_p = [i for i, s in enumerate(body) if isinstance(s, ast.If) and norm(s.test) == "len(parameters) > 0"]
        if pops and emit_p and body.index(pops[0]) < emit_p[0]:
            self.holds("G7", MOD, GEN, "free-parameters-not-assigned", pops[0], "free parameters are removed before the parameter assignments are emitted")
        else:
            self.violated("G7", MOD, GEN, "free-parameters-not-assigned", gen, "free parameters are still assigned inside the generated function (shadowing the extra inputs)")
        # ---- G6
        for c in [c for c in walk_no_nested(gen) if isinstance(c, ast.Call) and dotted(c.func).split(".")[-1] == "fn_to_sympy"]:
            ok, why = call_site_visibility(c, sc, gen)
            stmt = sc.stmt_of(c)
            blk = [b for p, fld, ch in sc.ancestors(stmt) for b in [getattr(p, fld, None)] if isinstance(b, list) and ch in b]
            raises = False
            # the enclosing branch (per component kind) must raise when expr is still None
            for p, fld, ch in sc.ancestors(c):
                if isinstance(p, ast.If) and fld == "body" and ("derived" in norm(p.test) or "rxn" in norm(p.test) or "reaction" in norm(p.test)):
                    raises = any(isinstance(s, ast.If) and norm(s.test) == "expr is None" and any(isinstance(x, ast.Raise) for x in s.body) for s in p.body[1:])
                    break
            cons = f"untranslatable@{norm(c.args[0])}"
            if ok and raises:
                self.holds("G6", MOD, GEN, cons, c, "a None translation raises ValueError before anything is emitted for it")
            else:
                self.violated("G6", MOD, GEN, cons, c, "a failed translation does not make generation raise",
                              witness="a rate law using an unsupported construct is emitted as `None`")
        st = self.prog.module("meta/sympy_tools.py").func("stoichiometries_to_sympy")
        adds = [a for a in ast.walk(st) if isinstance(a, ast.Assign) and norm(a.targets[0]) == "expr" and isinstance(a.value, ast.BinOp)]
        want = {"expr + sympy_fn * sympy.Symbol(rxn_name)", "expr + rxn_stoich * sympy.Symbol(rxn_name)"}
        got = {norm(a.value) for a in adds}
        if got == want:
            self.holds("G8", "meta/sympy_tools.py", st.name, "sum-of-coefficient-times-rate", adds[0], "expr accumulates + coefficient * Symbol(reaction) for computed and numeric coefficients")
        else:
            self.violated("G8", "meta/sympy_tools.py", st.name, "sum-of-coefficient-times-rate", adds[0] if adds else st, f"derivative sums are built from {sorted(got)} instead of + coefficient * rate",
                          witness="the generated model returns derivatives with a flipped sign / without a coefficient")
        fill = [l for l in body if isinstance(l, ast.For) and norm(l.iter) == "model.get_raw_reactions().items()" and "diff_eqs" in norm(l)]
        okf = fill and "for var_name, factor in rxn.stoichiometry.items():" in norm(fill[0]).replace("\n", " ") and "diff_eqs.setdefault(var_name, {})[rxn_name] = factor" in norm(fill[0]) \
            and not any(isinstance(x, (ast.If, ast.Continue, ast.Break)) for x in ast.walk(fill[0]))
        if okf:
            self.holds("G8", MOD, GEN, "every-stoichiometry-entry", fill[0], "diff_eqs[variable][reaction] = coefficient for every entry of every reaction")
        else:
            self.violated("G8", MOD, GEN, "every-stoichiometry-entry", fill[0] if fill else gen, "not every (reaction, variable) stoichiometry entry reaches the derivative sums")
        asg = [c for c in ast.walk(gen) if isinstance(c, ast.Call) and norm(c.func) == "assignment_template.format" and "dt" in norm(c)]
        retn = [g for g in ast.walk(gen) if isinstance(g, ast.GeneratorExp) and isinstance(g.elt, ast.JoinedStr) and "ret_order" in norm(g.generators[0].iter)]
        ka = {k.arg: k.value for k in asg[0].keywords}.get("k") if asg else None
        pat_a = "".join(v.value if isinstance(v, ast.Constant) else "{}" for v in ka.values) if isinstance(ka, ast.JoinedStr) else None
        pat_r = "".join(v.value if isinstance(v, ast.Constant) else "{}" for v in retn[0].elt.values) if retn else None
        if pat_a is not None and pat_a == pat_r:
            self.holds("G9", MOD, GEN, "returned-names-are-assigned", asg[0], f"assigned and returned as `{pat_a}`")
        else:
            self.violated("G9", MOD, GEN, "returned-names-are-assigned", asg[0] if asg else gen, f"derivative sums are assigned to `{pat_a}` but `{pat_r}` is returned",
                          witness="the generated function returns names that were never assigned")
        sc2 = Scope(st)
        for c in [c for c in walk_no_nested(st) if isinstance(c, ast.Call) and dotted(c.func).split(".")[-1] == "fn_to_sympy"]:
            ok, why = call_site_visibility(c, sc2, st)
            if ok:
                self.holds("G6", "meta/sympy_tools.py", st.name, "untranslatable-coefficient", c, why)
            else:
                self.violated("G6", "meta/sympy_tools.py", st.name, "untranslatable-coefficient", c, "an untranslatable coefficient does not raise")

    def must_fire(self):
        return [
            Variant("declaration-order-again", MOD, GEN, "for name in model._create_cache().order:", "for name in [*derived_by_name, *reactions_by_name]:", expect="G1|", quick=True),
            Variant("no-initial-assignment-parameters", MOD, GEN,
                    "    for name in model.get_parameter_names():\n        if name not in parameters:\n            parameters[name] = all_parameter_values[name]\n", "", expect="G2|", quick=True),
            Variant("reintroduce-python-bare-unpack", MOD, "generate_model_code_py", "variables_template='    ({},) = variables'", "variables_template='    {} = variables'", expect="G5|", quick=True),
            Variant("reintroduce-python-bare-return", MOD, "generate_model_code_py", "return_template='    return ({},)'", "return_template='    return {}'", expect="G5|"),
            Variant("ts-template-drops-k", MOD, "generate_model_code_ts", "'    let {k}: number = {v};'", "'    let k: number = {v};'", expect="G4|", quick=True),
            Variant("rs-return-template-no-field", MOD, "generate_model_code_rs", "return_template='    return [{}]'", "return_template='    return []'", expect="G4|"),
            Variant("reaction-none-emitted", MOD, GEN, "            if expr is None:\n                msg = f\"Unable to parse fn for reaction value '{name}'\"\n                raise ValueError(msg)\n", "", expect="G6|", quick=True),
            Variant("derivative-name-mismatch", MOD, GEN, "k=f'd{variable}dt'", "k=f'd{variable}'", expect="G9|"),
            Variant("derivative-sum-sign", "meta/sympy_tools.py", "stoichiometries_to_sympy", "expr = expr + rxn_stoich * sympy.Symbol(rxn_name)", "expr = expr - rxn_stoich * sympy.Symbol(rxn_name)", expect="G8|"),
            Variant("rust-ignores-free-parameters", MOD, "generate_model_code_rs", "free_parameters=free_parameters", "free_parameters=None", expect="G7|"),
            Variant("free-parameters-still-assigned", MOD, GEN, "    if free_parameters is not None:\n        for key in free_parameters:\n            parameters.pop(key)\n", "", expect="G7|"),
        ]

    def must_stay_silent(self):
        return [
            Variant("rename-name", MOD, GEN, r"\brxn\b", "reaction", count=0, regex=True, quick=True),
        ]


CHECK = C07
