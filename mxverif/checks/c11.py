"""C11 - model -> generated MxlPy source -> model (DESIGN 4/C11, rules K1-K4)."""

from __future__ import annotations

import ast

from ..core import MEMO_DECORATORS, AnalysisError, Check, Scope, classify_memo_key, dotted, memo_tables, norm, strip_docstring, walk_no_nested
from ..interp import Sym, SymInterp
from ..variants import Variant
from .c06 import call_site_visibility

MOD = "meta/codegen_mxlpy.py"
GEN = "generate_mxlpy_code_from_symbolic_repr"
NONUNIQUE = ("fn_name", "__name__", ".stem", ".lower()")


def sc_if(fn: ast.AST, node: ast.AST) -> ast.AST:
    """The innermost `if` statement enclosing node (for messages)."""
    for p, f, c in Scope(fn).ancestors(node):
        if isinstance(p, ast.If):
            return p.test
    return node


def template_text(js: ast.JoinedStr) -> str:
    """f-string -> text with every placeholder replaced by an identifier."""
    out = []
    i = 0
    for v in js.values:
        if isinstance(v, ast.Constant):
            out.append(str(v.value))
        else:
            out.append(f"P{i}")
            i += 1
    return "".join(out)


class C11(Check):
    pid = "C11"
    title = "Model -> generated MxlPy source -> model preserves behaviour, or fails"
    rules = {
        "K1": "injective definition table: every store into the table of emitted function definitions is guarded by a collision test "
              "(same definition or renamed), or keyed by something that depends on all enclosing component keys; a key that depends only on "
              "the function's __name__ is non-injective; the emitted builder call refers to the name actually registered",
        "K5": "no non-injective memoisation on the translation path: a module-level table or cache in the translator / generator that "
              "is keyed by a function's name, qualified name or module (instead of the function object) makes distinct functions share one entry",
        "K6": "each component is translated from its own (function, argument list) pair, unmodified and in order",
        "K2": "template <-> API agreement: every builder / constructor call in the emitted text uses only keyword names that the real "
              "signature in model.py / types.py has, and the emitted header imports every constructor the templates use",
        "K3": "an untranslatable function makes generation raise",
        "K7": "(shared with C06) semantics of the function translator the emitted functions are printed from: S2-S7, S9-S13 of C06",
        "K4": "all four component kinds (variables, parameters, derived quantities, reactions) are translated and emitted, unfiltered",
    }
    floors = {"K1": 7, "K2": 6, "K3": 1, "K4": 8, "K5": 2, "K6": 4, "K7": 10}
    decided = [
        "two different functions can never be emitted under one name; a component always refers to its own definition",
        "the generated source calls the builder API with keywords that exist; its header imports what it uses",
        "untranslatable functions raise; every component kind is emitted",
    ]
    undecided = ["behavioural equality of the rebuilt model (values, fluxes, derivatives at states)", "names printed for units (free names such as `mole` are not imported by the header)"]
    assumptions = ["repr() of str / list[str] round-trips through Python source"]

    def run(self) -> None:
        mod = self.prog.module(MOD)
        gen = mod.func(GEN)
        self.borrow("C06", ("S2", "S3", "S4", "S5", "S6", "S7", "S9", "S10", "S11", "S12", "S13", "S14"), "K7")
        # ---- K1: stores into the definition table
        table = "functions"
        # the table is created in the generator and handed down: per function, the local name(s) that denote it (fixpoint over call sites)
        table_names: dict[str, set[str]] = {GEN: {table}}
        sigs_ = {n: [a.arg for a in f.args.posonlyargs + f.args.args + f.args.kwonlyargs] for n, f in mod.functions.items() if "." not in n}
        for _ in range(4):
            for fname, fn in mod.functions.items():
                if "." in fname or fname not in table_names:
                    continue
                for c in ast.walk(fn):
                    if isinstance(c, ast.Call) and isinstance(c.func, ast.Name) and c.func.id in sigs_:
                        ps = sigs_[c.func.id]
                        for i, a in enumerate(c.args):
                            if isinstance(a, ast.Name) and a.id in table_names[fname] and i < len(ps):
                                table_names.setdefault(c.func.id, set()).add(ps[i])
                        for k in c.keywords:
                            if isinstance(k.value, ast.Name) and k.value.id in table_names[fname] and k.arg in ps:
                                table_names.setdefault(c.func.id, set()).add(k.arg)
        stores = []
        for fname, fn in mod.functions.items():
            if "." in fname:
                continue
            for s in walk_no_nested(fn):
                if isinstance(s, ast.Assign) and isinstance(s.targets[0], ast.Subscript) and norm(s.targets[0].value) in table_names.get(fname, {table} if fname == GEN else set()):
                    stores.append((fname, fn, s))
        if not stores:
            raise AnalysisError("no store into the definition table found")
        registrars = set()
        guard_calls: dict[str, set[str]] = {}
        for fname, fn, s in stores:
            key = s.targets[0].slice
            tname_ = norm(s.targets[0].value)
            cons = f"store {table}[{norm(key)}]"
            # path summaries: at every store into the table, the path has decided a membership test of exactly the stored key
            out = SymInterp().run_function(fn, Sym())
            guarded = unguarded = 0
            test_txt = ""
            for stp in [x for x, _ in out.returns]:
                decided = [c for c, _ in stp.conds]
                for e in stp.events:
                    if e[0] == "store" and e[1].startswith(f"{tname_}["):
                        ktxt = e[1][len(tname_) + 1:-1]
                        hits = [c for c in decided if f"{tname_}.get({ktxt})" in c or f"{ktxt} in {tname_}" in c or f"{ktxt} not in {tname_}" in c]
                        if hits:
                            guarded += 1
                            test_txt = hits[0]
                            for cn in ast.walk(ast.parse(hits[0], mode="eval")):
                                if isinstance(cn, ast.Call) and isinstance(cn.func, ast.Name):
                                    guard_calls.setdefault(fname, set()).add(cn.func.id)
                        else:
                            unguarded += 1
            if guarded and not unguarded:
                self.holds("K1", MOD, fname, cons, s, f"store is preceded by the collision test `{test_txt[:70]}` (same definition or renamed)")
                registrars.add(fname)
            else:
                keytxt = norm(key)
                src = keytxt
                for a in walk_no_nested(fn):
                    if isinstance(a, ast.Assign) and norm(a.targets[0]) == keytxt:
                        src = norm(a.value)
                self.violated("K1", MOD, fname, cons, s,
                              f"definitions are stored under `{src}` without a collision test: the key depends only on the function's name, so two "
                              "different functions that share a name overwrite each other and components are rebuilt with the wrong body",
                              witness="derived a = two(x) [2*x] and b = two(x) [3*x, another function also named `two`]: the generated model computes a = 3*x")
        # K1b: the equivalence predicate of the registrar accepts only through the positional comparison
        for r in sorted(registrars):
            rf = mod.func(r)
            preds = [f for f in walk_no_nested(rf) if isinstance(f, ast.FunctionDef)]
            preds += [mod.functions[n] for n in sorted(guard_calls.get(r, ())) if n in mod.functions and mod.functions[n] not in preds]
            for pf in preds:
                rets = [x for x in ast.walk(pf) if isinstance(x, ast.Return) and x.value is not None]
                early = [x for x in rets if isinstance(x.value, ast.Constant) and x.value.value is True]
                final = [x for x in rets if not isinstance(x.value, ast.Constant)]
                positional = final and all(("xreplace" in norm(pf) or "subs(" in norm(pf)) and isinstance(x.value, (ast.Compare, ast.Call, ast.Tuple)) for x in final)
                if early:
                    self.violated("K1", MOD, f"{r}.{pf.name}", "equivalence-only-positional", early[0],
                                  f"`{norm(sc_if(pf, early[0]))[:70]}` accepts two definitions as the same function without comparing them argument position by argument position",
                                  witness="rate(s,k)=s/k used with ['s','k'] and another rate(k,s)=s/k used with ['k','s']: one def is emitted and the first component computes k/s")
                elif positional:
                    self.holds("K1", MOD, f"{r}.{pf.name}", "equivalence-only-positional", final[0], "definitions are equal only if they agree after renaming arguments by position")
                else:
                    self.undecided_ob("K1", MOD, f"{r}.{pf.name}", "equivalence-only-positional", pf, "equivalence predicate of the registrar not recognised")
        # K1c: one table: every registration and the final emission use the same dict object
        emit = [g for g in ast.walk(gen) if isinstance(g, (ast.GeneratorExp, ast.ListComp)) and "sympy_to_python_fn" in norm(g)]
        emitted_src = norm(emit[0].generators[0].iter) if emit else "?"
        passed = set()
        for fname, fn in mod.functions.items():
            if "." in fname:
                continue
            for c in walk_no_nested(fn):
                if isinstance(c, ast.Call) and (norm(c.func) in registrars or norm(c.func) in ("_codegen_variable", "_codegen_parameter")):
                    kw = {k.arg: norm(k.value) for k in c.keywords}
                    passed.add(kw.get("functions") or (norm(c.args[0]) if norm(c.func) in registrars else None))
        passed.discard(None)
        if emit and passed == {table} and emitted_src == f"{table}.items()":
            self.holds("K1", MOD, GEN, "single-definition-table", emit[0], f"all registrations go to `{table}` and exactly `{table}` is emitted")
        else:
            self.violated("K1", MOD, GEN, "single-definition-table", emit[0] if emit else gen,
                          f"definitions are registered in {sorted(passed)} but `{emitted_src}` is emitted: name clashes across the tables are not seen by the collision test",
                          witness="a species S1 with an initial assignment and a rule-defined parameter literally called init_S1: one helper silently replaces the other")
        # every place that needs a definition goes through a registrar and uses the returned name
        uses = 0
        for fname, fn in mod.functions.items():
            if "." in fname or fname in registrars:
                continue
            for c in walk_no_nested(fn):
                if isinstance(c, ast.Call) and norm(c.func) in registrars:
                    uses += 1
                    stmt = Scope(fn).stmt_of(c)
                    tgt = norm(stmt.targets[0]) if isinstance(stmt, ast.Assign) else None
                    # the f-string that follows must interpolate the returned name
                    later = [j for j in ast.walk(fn) if isinstance(j, ast.JoinedStr) and j.lineno > c.lineno]
                    later = sorted(later, key=lambda j: j.lineno)
                    tmpl = next((j for j in later if any(isinstance(v, ast.FormattedValue) and norm(v.value) == tgt for v in j.values)), None)
                    used = tgt is not None and tmpl is not None
                    obj = norm(c.args[-1]).rsplit(".", 1)[0] if c.args and norm(c.args[-1]).endswith(".args") else None
                    if used and obj is not None:
                        vals = [norm(v.value) for v in tmpl.values if isinstance(v, ast.FormattedValue)]
                        argvals = [x for x in vals if f"{obj}.args" in x]
                        if argvals != [f"{obj}.args"]:
                            self.violated("K1", MOD, fname, f"call-args-of-{obj}@{fname}", tmpl,
                                          f"the builder call for the definition registered with `{obj}.args` is emitted with args `{argvals}`: the generated function is called with other arguments than it was defined with",
                                          witness="a computed coefficient / rate law with two arguments is rebuilt with its arguments swapped")
                        else:
                            self.holds("K1", MOD, fname, f"call-args-of-{obj}@{fname}:{c.lineno - fn.lineno}", tmpl, f"emitted with args={{{obj}.args}}, the list the definition was registered with")
                    cons = f"registered-name-used@{fname}:{norm(c.args[1])[:40] if len(c.args) > 1 else ''}"
                    if used:
                        self.holds("K1", MOD, fname, cons, c, f"the emitted call refers to `{tgt}`, the name the definition was registered under")
                    else:
                        self.violated("K1", MOD, fname, cons, c, "the emitted builder call does not use the name returned by the registrar: after a rename it refers to the other function",
                                      witness="two same-named functions: the renamed definition is emitted but never referenced")
        self.analysed = {"definition_table_stores": len(stores), "registrar_call_sites": uses}
        # ---- K2: templates vs API
        model_mod = self.prog.module("model.py")
        types_mod = self.prog.module("types.py")
        sigs = {}
        for m in ("add_variable", "add_parameter", "add_derived", "add_reaction"):
            f = model_mod.func(f"Model.{m}")
            sigs[m] = [a.arg for a in f.args.args[1:] + f.args.kwonlyargs]
        for cls in ("Derived", "InitialAssignment"):
            sigs[cls] = [s.target.id for s in types_mod.cls(cls).body if isinstance(s, ast.AnnAssign)]
        used_ctors = set()
        seen_k2: dict = {}
        n_t = 0
        for fname, fn in mod.functions.items():
            if "." in fname:
                continue
            for js in [n for n in ast.walk(fn) if isinstance(n, ast.JoinedStr)]:
                text = template_text(js).strip()
                if not (text.startswith(".add_") or "Derived(" in text or "InitialAssignment(" in text):
                    continue
                src = text
                if text.startswith(".add_"):
                    src = "Model()" + text
                elif text.startswith('"'):
                    src = "{" + text + "}"
                try:
                    tree = ast.parse(src, mode="eval")
                except SyntaxError:
                    self.undecided_ob("K2", MOD, fname, f"template {text[:30]!r}", js, "emitted template is not parseable after placeholder substitution")
                    continue
                for c in ast.walk(tree):
                    if not isinstance(c, ast.Call):
                        continue
                    name = c.func.attr if isinstance(c.func, ast.Attribute) else (c.func.id if isinstance(c.func, ast.Name) else "")
                    if name not in sigs:
                        continue
                    n_t += 1
                    if isinstance(c.func, ast.Name):
                        used_ctors.add(name)
                    kws = [k.arg for k in c.keywords if k.arg]
                    bad = [k for k in kws if k not in sigs[name]]
                    too_many = len(c.args) > len(sigs[name])
                    seen_k2[(fname, name, tuple(kws))] = seen_k2.get((fname, name, tuple(kws)), 0) + 1
                    cons = f"emitted {name}({', '.join(kws)}) #{seen_k2[(fname, name, tuple(kws))]}"
                    if bad or too_many:
                        self.violated("K2", MOD, fname, cons, js,
                                      f"the emitted call {name}(..) uses keyword(s) {bad} that `{name}` does not have (signature: {sigs[name]})",
                                      witness="a variable with a unit: exec(generate_mxlpy_code(model)) raises TypeError: add_variable() got an unexpected keyword argument")
                    else:
                        self.holds("K2", MOD, fname, cons, js, f"keywords {kws} exist on {name}")
        hdr = [n for n in ast.walk(gen) if isinstance(n, ast.Constant) and isinstance(n.value, str) and n.value.startswith("from mxlpy import")]
        if not hdr:
            self.violated("K2", MOD, GEN, "header-imports", gen, "the emitted source has no mxlpy import line")
        else:
            imported = {x.strip() for x in hdr[0].value.replace("from mxlpy import", "").split(",")}
            need = used_ctors | {"Model"}
            if need <= imported:
                self.holds("K2", MOD, GEN, "header-imports", hdr[0], f"header imports {sorted(imported)}; templates use {sorted(need)}")
            else:
                self.violated("K2", MOD, GEN, "header-imports", hdr[0], f"templates use {sorted(need - imported)} which the emitted header does not import",
                              witness="exec of the generated source raises NameError")
        self.analysed["emitted_calls_checked"] = n_t
        # ---- K5: memoisation on the translation path
        n5 = 0
        for rel in ("meta/source_tools.py", MOD, "meta/sympy_tools.py"):
            m5 = self.prog.module(rel)
            for tname, qual, key, node in memo_tables(m5):
                n5 += 1
                cls5 = classify_memo_key(key)
                cons = f"memo {tname}@{qual}"
                if cls5 == "ok":
                    self.holds("K5", rel, qual, cons, node, f"module-level table `{tname}` keyed by `{key[:60]}`")
                else:
                    self.violated("K5", rel, qual, cons, node,
                                  f"module-level table `{tname}` is keyed by `{key[:80]}`, which distinct functions can share: the second function is served the first one's entry",
                                  witness="two inner functions `rate` returned by one factory (same module and qualified name, different bodies): both components are generated from the first body")
            for qual, f5 in m5.functions.items():
                memo = [d for d in f5.decorator_list if norm(d).split("(")[0] in MEMO_DECORATORS]
                if memo:
                    n5 += 1
                    self.info("K5", rel, qual, f"memoised {qual}", f5, f"@{norm(memo[0])}: keyed by argument identity/equality; results must not be mutated by callers")
        self.holds("K5", MOD, "<translation path>", "module-level-state", mod.tree, f"{n5} module-level memo table(s) / memoised function(s) on the translation path examined")
        ent = self.prog.module("meta/source_tools.py").func("fn_to_sympy")
        src_calls = [c for c in walk_no_nested(ent) if isinstance(c, ast.Call) and isinstance(c.func, ast.Name) and "ast" in c.func.id and "fn" in [norm(a) for a in c.args]]
        if src_calls and norm(src_calls[0].func) == "get_fn_ast":
            self.holds("K5", "meta/source_tools.py", "fn_to_sympy", "source-parsed-per-function-object", src_calls[0], "the function's source is looked up from the function object itself on every call")
        else:
            callee = src_calls[0].func.id if src_calls else "?"
            self.info("K5", "meta/source_tools.py", "fn_to_sympy", "source-parsed-per-function-object", src_calls[0] if src_calls else ent, f"source obtained through `{callee}` (see memo entries above)")
        # ---- K3
        conv = mod.func("_fn_to_symbolic_repr")
        sc = Scope(conv)
        for c in [c for c in walk_no_nested(conv) if isinstance(c, ast.Call) and dotted(c.func).split(".")[-1] == "fn_to_sympy"]:
            ok, why = call_site_visibility(c, sc, conv)
            raised = any(isinstance(p, ast.If) and fld == "test" and any(isinstance(x, ast.Raise) for x in p.body) for p, fld, ch in sc.ancestors(c))
            if ok and raised:
                self.holds("K3", MOD, conv.name, "untranslatable-raises", c, "None -> raise ValueError")
            else:
                self.violated("K3", MOD, conv.name, "untranslatable-raises", c, "a failed translation does not raise", witness="the generated source contains `return None`")
        # ---- K6
        rep6 = mod.func("_to_symbolic_repr")
        for c in [c for c in walk_no_nested(rep6) if isinstance(c, ast.Call) and norm(c.func) == "_fn_to_symbolic_repr"]:
            a = [norm(x) for x in c.args]
            obj = a[1].rsplit(".", 1)[0] if len(a) == 3 and a[1].endswith(".fn") else None
            if obj and a[2] == f"{obj}.args":
                self.holds("K6", MOD, rep6.name, f"own-fn-and-args {obj}@{c.lineno - rep6.lineno}", c, f"translated from ({obj}.fn, {obj}.args)")
            else:
                self.violated("K6", MOD, rep6.name, f"own-fn-and-args {a[1] if len(a) > 1 else '?'}@{c.lineno - rep6.lineno}", c,
                              f"`{norm(c)[:80]}` does not translate the component from its own function with its own argument list in order",
                              witness="a two-argument derived quantity is rebuilt with its arguments exchanged")
        # ---- K4
        rep = mod.func("_to_symbolic_repr")
        for kind, getter in (("variables", "model.get_raw_variables().items()"), ("parameters", "model.get_raw_parameters().items()"),
                             ("derived", "model.get_raw_derived().items()"), ("reactions", "model.get_raw_reactions().items()")):
            lp = [l for l in strip_docstring(rep.body) if isinstance(l, ast.For) and norm(l.iter) == getter]
            ok = lp and any(isinstance(s, ast.Assign) and norm(s.targets[0]).startswith(f"sym.{kind}[") for s in lp[0].body) and \
                not any(isinstance(x, (ast.Continue, ast.Break)) or (isinstance(x, ast.If)) for x in lp[0].body)
            if ok:
                self.holds("K4", MOD, rep.name, f"translated-{kind}", lp[0], f"every entry of {getter.split('(')[0]} is translated")
            else:
                self.violated("K4", MOD, rep.name, f"translated-{kind}", lp[0] if lp else rep, f"{kind} are not all carried into the symbolic representation",
                              witness=f"the rebuilt model lacks some {kind}")
            gbody = strip_docstring(gen.body)
            el = [l for l in gbody if isinstance(l, ast.For) and norm(l.iter) == f"model.{kind}.items()"]
            comps = [(s_.targets[0].id, s_) for s_ in gbody if isinstance(s_, ast.Assign) and isinstance(s_.targets[0], ast.Name) and isinstance(s_.value, ast.ListComp)
                     and len(s_.value.generators) == 1 and norm(s_.value.generators[0].iter) == f"model.{kind}.items()"]
            srcname = None
            emits = False
            if comps:
                srcname, node_ = comps[0]
                emits = not node_.value.generators[0].ifs
                el = [node_]
            elif el:
                apps = [norm(c.func.value) for c in ast.walk(el[0]) if isinstance(c, ast.Call) and isinstance(c.func, ast.Attribute) and c.func.attr == "append" and isinstance(c.func.value, ast.Name)]
                # the list that collects one entry per component: appended to at the top level of the loop body
                top = [norm(s_.value.func.value) for s_ in el[0].body if isinstance(s_, ast.Expr) and isinstance(s_.value, ast.Call) and isinstance(s_.value.func, ast.Attribute)
                       and s_.value.func.attr == "append"]
                srcname = top[-1] if top else (apps[-1] if apps else None)
                emits = bool(top) and not any(isinstance(x, (ast.Continue, ast.Break)) for x in ast.walk(el[0])) and \
                    not any(isinstance(x, ast.If) and any(isinstance(y, ast.Call) and norm(y.func) == f"{srcname}.append" for y in ast.walk(x)) for x in el[0].body)
            def emits_list(s_) -> bool:
                """statement puts '\n'.join(<srcname>) (directly or as one of several sections) into the source"""
                t_ = norm(s_)
                if srcname not in {n_.id for n_ in ast.walk(s_) if isinstance(n_, ast.Name)}:
                    return False
                if not (("source.append(" in t_ or "source.extend(" in t_) and ("'\\n'.join(" in t_ or f"source.extend({srcname})" in t_)):
                    return False
                # no filter other than emptiness of the section
                tests = [n_.test for n_ in ast.walk(s_) if isinstance(n_, ast.If)] + [i_ for n_ in ast.walk(s_) if isinstance(n_, (ast.GeneratorExp, ast.ListComp)) for g_ in n_.generators for i_ in g_.ifs]
                return all(norm(x).startswith("len(") or isinstance(x, ast.Name) for x in tests)

            appended = srcname is not None and any(emits_list(s_) for s_ in gbody if isinstance(s_, (ast.If, ast.Expr)))
            if emits and appended:
                self.holds("K4", MOD, GEN, f"emitted-{kind}", el[0], f"one builder call per entry of model.{kind}, joined into the source")
            else:
                self.violated("K4", MOD, GEN, f"emitted-{kind}", el[0] if el else gen, f"{kind} are not all emitted into the generated source")

    def must_fire(self):
        return [
            Variant("derived-keyed-by-name-only", MOD, GEN, "        fn_name = _register_fn(functions, fn.fn_name, k, fn.expr, fn.args)\n        derived_source", "        fn_name = fn.fn_name\n        functions[fn_name] = (fn.expr, fn.args)\n        derived_source", expect="K1|", quick=True),
            Variant("registrar-without-collision-test", MOD, "_register_fn", "    while (existing := functions.get(unique)) is not None and (not same(existing, (expr, args))):\n        unique = f'{unique}_{component}'\n", "", expect="K1|", quick=True),
            Variant("same-accepts-equal-expressions", MOD, "_register_fn", "        if len(a[1]) != len(b[1]):\n            return False", "        if len(a[1]) != len(b[1]):\n            return False\n        if a[0] == b[0]:\n            return True", expect="K1|", quick=True),
            Variant("separate-init-table", MOD, GEN, "variable_source.append(_codegen_variable(k, var, functions=functions))", "variable_source.append(_codegen_variable(k, var, functions=init_functions))", expect="K1|", quick=True),
            Variant("parse-cache-by-qualname", "meta/source_tools.py", "", "def fn_to_sympy(", "_FN_DEF_CACHE: dict = {}\n_get_fn_ast_uncached = get_fn_ast\n\n\ndef get_fn_ast(fn):\n    key = (str(getattr(fn, '__module__', '')), str(getattr(fn, '__qualname__', fn)))\n    if (fn_def := _FN_DEF_CACHE.get(key)) is None:\n        fn_def = _FN_DEF_CACHE[key] = _get_fn_ast_uncached(fn)\n    return fn_def\n\n\ndef fn_to_sympy(", expect="K5|", quick=True),
            Variant("coefficient-args-reversed", MOD, GEN, "args={stoich.args!r}", "args={stoich.args[::-1]!r}", expect="K1|"),
            Variant("derived-args-sorted", MOD, "_to_symbolic_repr", "sym.derived[k] = _fn_to_symbolic_repr(k, der.fn, der.args)", "sym.derived[k] = _fn_to_symbolic_repr(k, der.fn, sorted(der.args))", expect="K6|"),
            Variant("reaction-uses-unregistered-name", MOD, GEN, "fn={rxn_fn_name}", "fn={fn.fn_name}", expect="K1|"),
            Variant("value-keyword-again", MOD, "_codegen_variable", "initial_value={value}, unit=", "value={value}, unit=", expect="K2|", quick=True),
            Variant("derived-keyword-typo", MOD, GEN, "fn={fn_name},\\n                args={fn.args},\\n            )')", "function={fn_name},\\n                args={fn.args},\\n            )')", expect="K2|"),
            Variant("header-misses-derived", MOD, GEN, "'from mxlpy import Model, Derived, InitialAssignment\\n'", "'from mxlpy import Model, InitialAssignment\\n'", expect="K2|"),
            Variant("none-not-raised", MOD, "_fn_to_symbolic_repr", "    if (expr := fn_to_sympy(fn, origin=k, model_args=args)) is None:\n        msg = f\"Unable to parse fn for '{k}'\"\n        raise ValueError(msg)\n",
                    "    expr = fn_to_sympy(fn, origin=k, model_args=args)\n", expect="K3|", quick=True),
            Variant("parameters-not-emitted", MOD, GEN, "    if len(parameter_source) > 0:\n        source.append('\\n'.join(parameter_source))\n", "", expect="K4|", quick=True),
            Variant("derived-skipped-when-static", MOD, "_to_symbolic_repr", "    for k, der in model.get_raw_derived().items():\n        sym.derived[k]", "    for k, der in model.get_derived_variables().items():\n        sym.derived[k]", expect="K4|"),
        ]

    def must_stay_silent(self):
        return [
            Variant("rename-unique", MOD, "_register_fn", r"\bunique\b", "emitted_name", count=0, regex=True, quick=True),
        ]


CHECK = C11
