"""C18 - control coefficients: perturb/restore pairing and quotient form (DESIGN 4/C18)."""

from __future__ import annotations

import ast
from dataclasses import dataclass

from ..core import AnalysisError, Check, norm, strip_docstring, walk_no_nested
from ..interp import PathInterp, Sym, SymInterp
from ..variants import Variant

MOD = "mca.py"
SAVERS = {"get_parameter_values": "parameters", "get_raw_parameters": "parameters",
          "get_initial_conditions": "variables", "get_raw_variables": "variables"}
QUERIES = {"get_fluxes", "get_args", "get_right_hand_side", "get_variable_names", "get_parameter_names",
           "get_parameter_values", "get_initial_conditions", "get_raw_variables", "get_raw_parameters",
           "get_stoichiometries", "get_reaction_names", "get_derived_parameter_names", "get_derived_variable_names"}


@dataclass(frozen=True)
class PS:
    saved: frozenset = frozenset()  # (local name, kind)
    dirty: frozenset = frozenset()  # (kind, key text, line)
    private: bool = False
    nulls: frozenset = frozenset()  # (name, is_none)

    def null(self, name: str):
        for n, v in self.nulls:
            if n == name:
                return v
        return None

    def with_null(self, name: str, v: bool) -> "PS":
        return PS(self.saved, self.dirty, self.private, frozenset({x for x in self.nulls if x[0] != name} | {(name, v)}))

    def kind_of(self, name: str):
        for n, k in self.saved:
            if n == name:
                return k
        return None


class PerturbInterp(PathInterp):
    def __init__(self, model_name: str) -> None:
        self.m = model_name
        self.first_dirty: dict = {}

    def saved_kind(self, e: ast.AST, st: PS):
        """Does expression e derive (only) from a value saved from the model before perturbing?"""
        kinds = set()
        for n in ast.walk(e):
            if isinstance(n, ast.Call) and isinstance(n.func, ast.Attribute) and norm(n.func.value) == self.m and n.func.attr in SAVERS:
                kinds.add(SAVERS[n.func.attr])
            if isinstance(n, ast.Name) and st.kind_of(n.id):
                kinds.add(st.kind_of(n.id))
        return kinds

    @staticmethod
    def none_test(test):
        """`N is None` -> (N, True); `N is not None` -> (N, False)."""
        if isinstance(test, ast.Compare) and len(test.ops) == 1 and isinstance(test.left, ast.Name) \
                and isinstance(test.comparators[0], ast.Constant) and test.comparators[0].value is None:
            if isinstance(test.ops[0], ast.Is):
                return test.left.id, True
            if isinstance(test.ops[0], ast.IsNot):
                return test.left.id, False
        return None

    def cond(self, test, st: PS):
        nt = self.none_test(test)
        if nt is None:
            return [st], [st]
        name, when_true_is_none = nt
        known = st.null(name)
        t = [] if known is not None and known != when_true_is_none else [st.with_null(name, when_true_is_none)]
        f = [] if known is not None and known == when_true_is_none else [st.with_null(name, not when_true_is_none)]
        return t, f

    def simple(self, stmt, st: PS):
        # `t = A if N is None else B`: fork on N so that later tests on t / N stay correlated
        if isinstance(stmt, ast.Assign) and isinstance(stmt.targets[0], ast.Name) and isinstance(stmt.value, ast.IfExp) \
                and self.none_test(stmt.value.test) is not None and "_forked" not in getattr(stmt, "_marks", ()):
            tname = stmt.targets[0].id
            tt, ff = self.cond(stmt.value.test, st)
            for branch_states, val in ((tt, stmt.value.body), (ff, stmt.value.orelse)):
                for s2 in branch_states:
                    fake = ast.Assign(targets=stmt.targets, value=val, lineno=stmt.lineno)
                    for kind, s3, *rest in self.simple(fake, s2):
                        if kind == "normal":
                            s3 = s3.with_null(tname, isinstance(val, ast.Constant) and val.value is None)
                        yield (kind, s3, *rest)
            return
        # private copy
        if isinstance(stmt, ast.Assign) and isinstance(stmt.targets[0], ast.Name) and stmt.targets[0].id == self.m \
                and isinstance(stmt.value, ast.Call) and norm(stmt.value.func) in ("copy.deepcopy", "deepcopy") \
                and norm(stmt.value.args[0]) == self.m:
            yield ("normal", PS(st.saved, st.dirty, True, st.nulls))
            return
        # None-ness of plain assignments (`x = None` ... `if cond: x = {..}` ... `if x is not None:`)
        if isinstance(stmt, ast.Assign) and isinstance(stmt.targets[0], ast.Name):
            v_ = stmt.value
            if isinstance(v_, ast.Constant) and v_.value is None:
                st = st.with_null(stmt.targets[0].id, True)
            elif isinstance(v_, (ast.Dict, ast.DictComp, ast.List, ast.ListComp, ast.Tuple, ast.JoinedStr)) or (isinstance(v_, ast.Constant) and v_.value is not None):
                st = st.with_null(stmt.targets[0].id, False)
        # saving
        if isinstance(stmt, ast.Assign) and isinstance(stmt.targets[0], ast.Name):
            ks = self.saved_kind(stmt.value, st)
            name = stmt.targets[0].id
            saved = {x for x in st.saved if x[0] != name}
            if len(ks) == 1:
                k = next(iter(ks))
                # only a value saved while that kind is still clean counts as the original
                if not any(d[0] == k for d in st.dirty):
                    saved.add((name, k))
            st = PS(frozenset(saved), st.dirty, st.private, st.nulls)
        for c in ast.walk(stmt):
            if not (isinstance(c, ast.Call) and isinstance(c.func, ast.Attribute) and norm(c.func.value) == self.m):
                continue
            meth = c.func.attr
            if meth in QUERIES or st.private:
                continue
            dirty = set(st.dirty)
            if meth in ("update_parameters", "update_parameter"):
                if meth == "update_parameters" and c.args and isinstance(c.args[0], ast.Dict):
                    items = list(zip(c.args[0].keys, c.args[0].values))
                elif meth == "update_parameter" and len(c.args) >= 2:
                    items = [(c.args[0], c.args[1])]
                else:
                    items = [(ast.Constant("*"), c.args[0] if c.args else ast.Constant(None))]
                for k, v in items:
                    key = norm(k)
                    restore = isinstance(v, ast.Name) and st.kind_of(v.id) == "parameters"
                    dirty = {d for d in dirty if not (d[0] == "parameters" and d[1] == key)}
                    if not restore:
                        dirty.add(("parameters", key, c.lineno))
            elif meth in ("update_variables", "update_variable"):
                arg = c.args[0] if c.args else None
                restore = arg is not None and self.saved_kind(arg, st) == {"variables"}
                dirty = {d for d in dirty if d[0] != "variables"}
                if not restore:
                    dirty.add(("variables", "*", c.lineno))
            else:
                dirty.add(("other", meth, c.lineno))
            st = PS(st.saved, frozenset(dirty), st.private, st.nulls)
        if isinstance(stmt, ast.Raise):
            yield ("raise", st, self.raise_name(stmt))
            return
        yield ("return" if isinstance(stmt, ast.Return) else "normal", st)


class C18(Check):
    pid = "C18"
    title = "Control coefficients equal analytic sensitivities; model left untouched"
    rules = {
        "M1": "perturb/restore pairing: every write to the caller's model in an analysis routine is undone (with a value saved "
              "from the model beforehand) on every normal exit, or made on a private deep copy",
        "M2": "quotient form: coefficient = (f(x(1+d)) - f(x(1-d))) / (2 d x); scaled variant multiplies by x / f(x) with f(x) "
              "evaluated at the unperturbed model",
        "M4": "sibling agreement of the evaluations inside one coefficient: the perturbed-up, perturbed-down and (for scaling) unperturbed "
              "evaluations are the same call with the same state / options; they may differ only through the perturbed model value",
        "M5": "the caller's state and options reach the computation: the response-coefficient worker writes a supplied state into the model before "
              "the first steady-state evaluation, the elasticity routines evaluate fluxes at the supplied variables and time, and the Monte-Carlo wrappers "
              "forward every analysis option (to_scan, variables, time, normalized, displacement, rel_norm, integrator) under its own name",
        "M3": "sequential and parallel execution use the same worker with the same arguments; results are keyed by the scanned parameter",
    }
    floors = {"M5": 6, "M1": 7, "M2": 9, "M3": 2, "M4": 3}
    decided = [
        "every routine leaves the model's parameter and initial values as it found them (sequential execution)",
        "coefficients are central difference quotients with relative displacement; scaled by value/flux at the unperturbed state",
        "sequential vs parallel cannot differ by construction of the call",
    ]
    undecided = ["agreement with analytic elasticities (truncation/rounding error of the finite difference)", "steady-state solver accuracy"]
    assumptions = ["Model.update_variables accepts Variable objects and restores value/unit/source from them"]

    def run(self) -> None:
        mod = self.prog.module(MOD)
        fns = [f for n, f in mod.functions.items() if "." not in n and "model" in [a.arg for a in f.args.args + f.args.kwonlyargs]]
        if len(fns) < 4:
            raise AnalysisError(f"{MOD}: expected >= 4 routines taking `model`, found {[f.name for f in fns]}")
        for fn in fns:
            self.m1(fn)
        # the Monte-Carlo wrappers of the same routines (mc.py): they hand the caller's model to the row wrapper, which works on a copy;
        # whatever they write into the model themselves must be undone as well
        mc = self.prog.module("mc.py")
        n_mc = 0
        for name, f in mc.functions.items():
            if "." in name or "model" not in [a.arg for a in f.args.args + f.args.kwonlyargs]:
                continue
            if any(isinstance(x, ast.Attribute) and norm(x).startswith("mca.") for x in ast.walk(f)):
                n_mc += 1
                self.m1(f, "mc.py")
        if n_mc < 3:
            raise AnalysisError(f"mc.py: expected >= 3 Monte-Carlo wrappers of mca routines, found {n_mc}")
        for name, up, lo in (("variable_elasticities", "upper", "lower"), ("parameter_elasticities", "upper", "lower"),
                             ("_response_coefficient_worker", "upper", "lower")):
            self.m2(mod.func(name))
        self.m3(mod)
        self.m4(mod)
        self.m5(mod, mc)

    def m1(self, fn, rel: str = MOD) -> None:
        q = fn.name
        pi = PerturbInterp("model")
        out = pi.run_function(fn, PS())
        # a model handed to a worker through partial/parallelise: the worker is analysed on its own
        leaks = {}
        for st, node in out.returns:
            for d in st.dirty:
                leaks.setdefault((d[0], d[1]), d[2])
        if leaks:
            for (kind, key), line in leaks.items():
                self.violated(
                    "M1", rel, q, f"unrestored {kind}:{key}", line,
                    f"the caller's model is left modified on a normal exit: {kind} `{key}` written at line {line} is never restored "
                    "from a value saved before the perturbation",
                    witness=f"{'mc' if rel == 'mc.py' else 'mca'}.{q}(m, ..., variables={{'x': 5.0}}); m.get_initial_conditions()['x'] == 5.0 afterwards"
                    if kind == "variables" else "model.get_parameter_values() differs before/after the call",
                )
        else:
            n_w = sum(1 for c in ast.walk(fn) if isinstance(c, ast.Call) and isinstance(c.func, ast.Attribute)
                      and norm(c.func.value) == "model" and c.func.attr not in QUERIES)
            self.holds("M1", rel, q, "restored-on-exit", fn, f"{n_w} model write(s); all restored from saved values on {len(out.returns)} exit state(s)")

    # ------------------------------------------------------------------
    def coefficients(self, fn):
        """Every coefficient a routine produces, per path, as (condition list, label, expression text, events) - from path summaries in
        which each evaluation of the model is tagged with the number of model updates made before it (AT(k, call))."""
        class I(SymInterp):
            loop_unroll = 1
            epochs = True

        out = I().run_function(fn, Sym())
        res = []
        for st, _ in out.returns:
            created = {e[1] for e in st.events if e[0] == "new" and e[2] in ("{}", "dict()")}
            stores = [e for e in st.events if e[0] == "store" and "[" in e[1] and e[1].split("[")[0] in created]
            if stores:
                res.append((st, "elasticity", stores[-1][2]))
                continue
            rets = [e[1] for e in st.events if e[0] == "return"]
            if rets and fn.name.endswith("_worker"):
                try:
                    t = ast.parse(rets[-1], mode="eval").body
                except SyntaxError:
                    continue
                if isinstance(t, ast.Tuple):
                    for i, el in enumerate(t.elts):
                        res.append((st, ("concentration", "flux")[i] if i < 2 else f"#{i}", norm(el)))
        return res

    def m2(self, fn) -> None:
        import sympy

        q = fn.name
        coefs = self.coefficients(fn)
        if not coefs:
            raise AnalysisError(f"{q}: no difference quotient found")
        d, x = sympy.symbols("d x")
        anchor = [s_ for s_ in walk_no_nested(fn) if isinstance(s_, ast.Assign) and isinstance(s_.value, ast.BinOp) and isinstance(s_.value.op, ast.Div)]
        anchor = anchor[0] if anchor else fn
        verdicts: dict[str, list[str]] = {"quotient": [], "perturbations": [], "scaling": [], "same": []}
        seen_scaled = seen_plain = False
        for st, label, txt in coefs:
            calls = [e[1] for e in st.events if e[0] == "call"]
            # the perturbed value: `<OLD> * (1 + displacement)` somewhere on the path
            olds = set()
            for src in calls + [txt]:
                for n in ast.walk(ast.parse(src, mode="eval")):
                    if isinstance(n, ast.BinOp) and isinstance(n.op, ast.Mult) and isinstance(n.right, ast.BinOp) and norm(n.right) in ("1 + displacement", "1 - displacement"):
                        olds.add(norm(n.left))
            if len(olds) != 1:
                verdicts["perturbations"].append(f"{label}: perturbed values {sorted(olds)}")
                continue
            OLD = olds.pop()

            def state_at(k: int) -> str:
                """model state when the k-th statement-level call has been made: U / L / B"""
                role = "B"
                for c in calls[:k]:
                    if c.startswith(("model.update_parameters(", "model.update_parameter(")):
                        if f"{OLD} * (1 + displacement)" in c:
                            role = "U"
                        elif f"{OLD} * (1 - displacement)" in c:
                            role = "L"
                        elif f": {OLD}}}" in c or c.endswith(f", {OLD})"):
                            role = "B"
                        else:
                            role = "?"
                return role

            atoms: dict[str, tuple] = {}

            def atom(e):
                """(symbol) for `AT(k, evaluation)<accessor>`; None if e is not such a chain."""
                acc = []
                cur = e
                while True:
                    if isinstance(cur, ast.Attribute):
                        acc.append("." + cur.attr)
                        cur = cur.value
                    elif isinstance(cur, ast.Subscript):
                        acc.append(f"[{norm(cur.slice)}]")
                        cur = cur.value
                    else:
                        break
                if isinstance(cur, ast.Call) and norm(cur.func) == "AT" and len(cur.args) == 2 and isinstance(cur.args[1], ast.Call):
                    inner = norm(cur.args[1])
                    if not any(w in inner for w in ("get_fluxes", "steady_state", "get_right_hand_side", "get_args")):
                        return None
                    k = cur.args[0].value
                    role = "U" if f"{OLD} * (1 + displacement)" in inner else "L" if f"{OLD} * (1 - displacement)" in inner else state_at(k)
                    accessor = "".join(reversed(acc))
                    # the call with its perturbation removed: what upper / lower / baseline must share
                    base = inner.replace(f" | {{{self._key(inner, OLD)}: {OLD} * (1 + displacement)}}", "").replace(f" | {{{self._key(inner, OLD)}: {OLD} * (1 - displacement)}}", "")
                    name = f"{role}{len([1 for v in atoms.values() if v[0] == role and v[1] != accessor and False])}"
                    sym = sympy.Symbol(f"{role}_{abs(hash(accessor)) % 9973}")
                    atoms[str(sym)] = (role, accessor, base, k)
                    return sym
                return None

            def cv(e):
                a_ = atom(e)
                if a_ is not None:
                    return a_
                t = norm(e)
                if t == "displacement":
                    return d
                if t == OLD:
                    return x
                if isinstance(e, ast.Constant) and isinstance(e.value, (int, float)):
                    return sympy.nsimplify(e.value)
                if isinstance(e, ast.BinOp) and type(e.op) in (ast.Add, ast.Sub, ast.Mult, ast.Div):
                    l_, r_ = cv(e.left), cv(e.right)
                    return {ast.Add: l_ + r_, ast.Sub: l_ - r_, ast.Mult: l_ * r_, ast.Div: l_ / r_}[type(e.op)]
                if isinstance(e, ast.UnaryOp) and isinstance(e.op, ast.USub):
                    return -cv(e.operand)
                raise AnalysisError(f"`{t[:60]}` not interpretable in the coefficient")

            try:
                got = cv(ast.parse(txt, mode="eval").body)
            except AnalysisError as e_:
                verdicts["quotient"].append(f"{label}: {e_}")
                continue
            roles = {v[0] for v in atoms.values()}
            accs = {v[1] for v in atoms.values()}
            scaled = any(c == "normalized" and p_ for c, p_ in st.conds)
            if "?" in roles or not {"U", "L"} <= roles:
                verdicts["perturbations"].append(f"{label}: evaluations at states {sorted(roles)} (need one at old*(1+d) and one at old*(1-d))")
                continue
            if len(accs) != 1:
                verdicts["quotient"].append(f"{label}: mixes {sorted(accs)} of the evaluations")
                continue
            acc = accs.pop()
            h = abs(hash(acc)) % 9973
            U, L, B = sympy.Symbol(f"U_{h}"), sympy.Symbol(f"L_{h}"), sympy.Symbol(f"B_{h}")
            plain = (U - L) / (2 * d * x)
            if scaled:
                seen_scaled = True
                if sympy.simplify(got - plain * x / B) != 0:
                    if sympy.simplify(got.subs(B, 1) - plain * x) == 0 or "B" not in roles:
                        verdicts["scaling"].append(f"{label}: `{txt[:80]}` is not coef * old / f(unperturbed)")
                    else:
                        verdicts["quotient"].append(f"{label}: `{txt[:80]}`")
            else:
                seen_plain = True
                if sympy.simplify(got - plain) != 0:
                    verdicts["quotient"].append(f"{label}: `{txt[:80]}`")
            bases = {v[2] for v in atoms.values()}
            if len(bases) != 1:
                verdicts["same"].append(f"{label}: evaluations differ beyond the perturbation: {sorted(b_[:70] for b_ in bases)}")
        if not verdicts["quotient"] and (seen_plain or seen_scaled):
            self.holds("M2", MOD, q, "quotient", anchor, "every coefficient == (upper - lower) / (2*displacement*old)")
        else:
            self.violated("M2", MOD, q, "quotient", anchor, "; ".join(verdicts["quotient"][:2]) or "no coefficient recognised" + " is not the central difference quotient (upper - lower) / (2*displacement*old)",
                          witness="for v = k*x the unscaled elasticity d v/d x is reported as -k, k/2 or 2k instead of k")
        if not verdicts["perturbations"]:
            self.holds("M2", MOD, q, "perturbations", fn, "upper evaluated at old*(1+displacement), lower at old*(1-displacement)")
        else:
            self.violated("M2", MOD, q, "perturbations", fn, f"upper/lower are not evaluated at old*(1+d) / old*(1-d): {verdicts['perturbations'][0]}",
                          witness="the coefficient has the wrong sign or is zero")
        if seen_scaled and not verdicts["scaling"]:
            self.holds("M2", MOD, q, "scaling", fn, "scaled coefficient = coefficient * old / f(unperturbed), under `normalized`")
        else:
            self.violated("M2", MOD, q, "scaling", fn, verdicts["scaling"][0] if verdicts["scaling"] else "no scaled variant found")
        cons4 = "same-evaluation-for-upper-lower-baseline"
        if not verdicts["same"]:
            self.holds("M4", MOD, q, cons4, fn, "upper, lower and baseline evaluations are the same call up to the perturbed value")
        else:
            self.violated("M4", MOD, q, cons4, fn, verdicts["same"][0],
                          witness="scaled coefficients are divided by an evaluation at another state / time / start state")

    @staticmethod
    def _key(inner: str, old: str) -> str:
        """the dict key under which the perturbed value is merged into the state (`variables | {KEY: old * (1 + d)}`)"""
        import re

        m = re.search(r"\| \{([^{}:]+): " + re.escape(old) + r" \* \(1 [+-] displacement\)\}", inner)
        return m.group(1) if m else "?"

    def m4(self, mod) -> None:
        """(decided inside m2: the evaluations of one coefficient are compared there)"""

    def m5(self, mod, mc) -> None:
        """The state and the options the caller supplies reach the computation."""
        # (a) the worker applies the supplied state before the first steady-state evaluation
        w = mod.func("_response_coefficient_worker")
        import re as _re

        class IE(SymInterp):
            loop_unroll = 1
            epochs = True

        n_paths = 0
        bad = None
        for st, _ in IE().run_function(w, Sym()).returns:
            if dict(st.conds).get("y0 is None") is not False:
                continue
            n_paths += 1
            writes = [e[1] for e in st.events if e[0] == "call" and _re.match(r"(AT\(\d+, )?model\.(update_|add_|remove_|scale_)", e[1])]
            first_is_state = bool(writes) and _re.sub(r"^AT\(\d+, ", "", writes[0]).startswith("model.update_variables(y0)")
            epochs_ = [int(k) for e in st.events for x in e[1:] if isinstance(x, str) for k in _re.findall(r"AT\((\d+), _steady_state_worker\(", x)]
            if not first_is_state or not epochs_ or min(epochs_) < 1:
                bad = st
        anchor = next((c for c in ast.walk(w) if isinstance(c, ast.Call) and norm(c) == "model.update_variables(y0)"), w)
        if n_paths == 0:
            self.undecided_ob("M5", MOD, w.name, "supplied-state-applied", w, "no path with a supplied state (y0 is not None) found")
        elif bad is not None:
            self.violated("M5", MOD, w.name, "supplied-state-applied", anchor, "with a state supplied (y0 is not None) the steady states are computed without (or before) writing it into the model: "
                          "the coefficients belong to the model's own initial values, not to the given state",
                          witness="response_coefficients(m, variables={'x': 5.0}) returns the same numbers as response_coefficients(m) for a bistable model started in the other basin")
        else:
            self.holds("M5", MOD, w.name, "supplied-state-applied", anchor, f"model.update_variables(y0) precedes the first steady-state evaluation on all {n_paths} paths with a supplied state")
        # (a') what is written back afterwards covers the variables that were overwritten (the keys of the supplied state)
        for st, _ in IE().run_function(w, Sym()).returns:
            if dict(st.conds).get("y0 is None") is not False:
                continue
            ups = [e[1] for e in st.events if e[0] == "call" and _re.match(r"(AT\(\d+, )?model\.update_variables\(", e[1])]
            if len(ups) < 2:
                continue
            txt = _re.sub(r"AT\(\d+, ", "(", ups[-1])
            try:
                arg = ast.parse(txt, mode="eval").body.args[0]
            except (SyntaxError, IndexError, AttributeError):
                continue
            if isinstance(arg, ast.DictComp):
                for g in arg.generators:
                    for cnd in g.ifs:
                        if isinstance(cnd, ast.Compare) and len(cnd.ops) == 1 and isinstance(cnd.ops[0], ast.NotIn) and norm(cnd.comparators[0]).startswith("y0"):
                            self.violated("M1", MOD, w.name, "restores-what-was-overwritten", anchor, f"the values written back afterwards are those of the variables NOT in the supplied state (`{norm(cnd)}`): "
                                          "the overwritten initial values stay in the caller's model", witness="mca.response_coefficients(m, variables={'x': 5.0}, parallel=False); m.get_initial_conditions()['x'] == 5.0 afterwards")
                            break
            break
        # (b) the elasticity routines evaluate at the supplied variables / time
        for name in ("variable_elasticities", "parameter_elasticities"):
            f = mod.func(name)
            evals = [c for c in ast.walk(f) if isinstance(c, ast.Call) and isinstance(c.func, ast.Attribute) and c.func.attr == "get_fluxes"]
            if not evals:
                continue
            probs = []
            for c in evals:
                kw = {k.arg: norm(k.value) for k in c.keywords}
                if "variables" not in kw or not ("variables" in kw["variables"] or kw["variables"] in ("upper", "lower")):
                    pass
                if kw.get("time") != "time":
                    probs.append(f"`{norm(c)[:60]}` does not evaluate at the supplied time")
                if "variables" not in kw:
                    probs.append(f"`{norm(c)[:60]}` does not evaluate at the supplied variables")
            if probs:
                self.violated("M5", MOD, name, "evaluates-at-supplied-state", evals[0], probs[0])
            else:
                self.holds("M5", MOD, name, "evaluates-at-supplied-state", evals[0], f"all {len(evals)} flux evaluations take variables= and time=time")
        # (c) the Monte-Carlo wrappers hand every analysis option on under its own name
        OPTIONS = ("to_scan", "variables", "time", "normalized", "displacement", "rel_norm", "integrator")
        for name, f in mc.functions.items():
            if "." in name or name.startswith("_"):
                continue
            inner = [c for c in ast.walk(f) if isinstance(c, ast.Call) and norm(c.func) == "partial" and c.args and norm(c.args[0]).startswith("mca.")]
            if len(inner) != 1:
                continue
            params = [a.arg for a in f.args.args + f.args.kwonlyargs]
            kw = {k.arg: norm(k.value) for k in inner[0].keywords}
            applied_vars = any(isinstance(c, ast.Call) and norm(c) == "model.update_variables(variables)" for c in ast.walk(f))
            missing = [o for o in OPTIONS if o in params and kw.get(o) != o and not (o == "variables" and applied_vars)]
            if missing:
                self.violated("M5", "mc.py", name, "options-forwarded", inner[0], f"the option(s) {missing} are accepted but do not reach {norm(inner[0].args[0])}: the caller's choice is silently ignored",
                              witness=f"mc.{name}(..., {missing[0]}=<non-default>) returns the default-option result")
            else:
                self.holds("M5", "mc.py", name, "options-forwarded", inner[0], f"every analysis option among {[o for o in OPTIONS if o in params]} reaches {norm(inner[0].args[0])} under its own name")

    def m3(self, mod) -> None:
        fn = mod.func("response_coefficients")
        q = fn.name
        calls = [c for c in ast.walk(fn) if isinstance(c, ast.Call) and norm(c.func) == "parallelise"]
        if len(calls) != 1:
            raise AnalysisError("response_coefficients: single parallelise call expected")
        c = calls[0]
        kw = {k.arg: norm(k.value) for k in c.keywords}
        w = c.args[0]
        if kw.get("parallel") == "parallel" and isinstance(w, ast.Call) and norm(w.func) == "partial" and norm(w.args[0]) == "_response_coefficient_worker":
            pk = {k.arg: norm(k.value) for k in w.keywords}
            want = {"model": "model", "y0": "variables", "normalized": "normalized", "displacement": "displacement", "rel_norm": "rel_norm", "integrator": "integrator"}
            if pk == want:
                self.holds("M3", MOD, q, "one-worker-both-modes", c, "one partial(worker, ...) is mapped in both execution modes; every option is forwarded")
            else:
                self.violated("M3", MOD, q, "one-worker-both-modes", c, f"worker options not forwarded faithfully: {pk}")
        else:
            self.violated("M3", MOD, q, "one-worker-both-modes", c, "sequential and parallel paths do not share one worker call")
        if kw.get("inputs") == "list(zip(to_scan, to_scan, strict=True))":
            self.holds("M3", MOD, q, "keyed-by-parameter", c, "each input is (parameter, parameter): results are keyed by the scanned parameter")
        else:
            self.violated("M3", MOD, q, "keyed-by-parameter", c, f"inputs `{kw.get('inputs')}` do not key each result by its parameter")
        ret = [r for r in ast.walk(fn) if isinstance(r, ast.Return)][0]
        # which worker component ends up in which field: a comprehension over `res`, or a dict filled in a loop over `res`
        paths = [st for st, _ in SymInterp().run_function(fn, Sym()).returns]
        full = [st for st in paths if any(e[0] == "store" for e in st.events)] or paths
        comp: dict[str, set] = {"variables": set(), "fluxes": set()}
        for st in full:
            rv = [e[1] for e in st.events if e[0] == "return"]
            if not rv:
                continue
            # the mapped results, whatever they are called, are written `res`
            par_txt = {norm(n) for e in st.events if len(e) > 1 and isinstance(e[-1], str) for n in ast.walk(ast.parse(e[-1], mode="eval")) if isinstance(n, ast.Call) and norm(n.func) == "parallelise"}
            if len(par_txt) == 1:
                pt = par_txt.pop()
                st = Sym(st.env, st.conds, tuple(tuple(x.replace(pt, "res") if isinstance(x, str) else x for x in e) for e in st.events))
                rv = [e[1] for e in st.events if e[0] == "return"]
            call = ast.parse(rv[-1], mode="eval").body
            for k_ in getattr(call, "keywords", []):
                if k_.arg not in comp:
                    continue
                v_ = k_.value
                inner = v_.args[0] if isinstance(v_, ast.Call) and norm(v_.func) == "pd.DataFrame" and v_.args else None
                if isinstance(inner, ast.DictComp) and len(inner.generators) == 1 and isinstance(inner.generators[0].target, ast.Tuple) and not inner.generators[0].ifs \
                        and norm(inner.generators[0].iter).endswith("res") and norm(inner.key) == norm(inner.generators[0].target.elts[0]):
                    val = norm(inner.value)
                    vn = norm(inner.generators[0].target.elts[1])
                    comp[k_.arg].add(val[len(vn):] if val.startswith(vn + "[") else "?")
                elif isinstance(inner, ast.Name):
                    stores = [e for e in st.events if e[0] == "store" and e[1].startswith(f"{inner.id}[")]
                    for e in stores:
                        key_ok = e[1] == f"{inner.id}[ITEM(0, res)[0]]"
                        comp[k_.arg].add(e[2][len("ITEM(0, res)[1]"):] if key_ok and e[2].startswith("ITEM(0, res)[1][") else "?")
                else:
                    comp[k_.arg].add("?")
        if comp == {"variables": {"[0]"}, "fluxes": {"[1]"}}:
            self.holds("M3", MOD, q, "assembly", ret, "concentration responses from component 0, flux responses from component 1")
        else:
            self.violated("M3", MOD, q, "assembly", ret, f"result assembly swaps or drops the worker's components ({ {k: sorted(v) for k, v in comp.items()} })")

    def must_fire(self):
        W = "_response_coefficient_worker"
        P = "parameter_elasticities"
        return [
            Variant("mc-wrapper-writes-caller-model", "mc.py", "response_coefficients", "        model = copy.deepcopy(model)\n", "", expect="M1|mc.py|response_coefficients", quick=True),
            Variant("reintroduce-unrestored-variables", MOD, W, "    if old_variables is not None:\n        model.update_variables(old_variables)\n", "", expect="M1|mca.py|_response_coefficient_worker|unrestored variables", quick=True),
            Variant("drop-parameter-reset", MOD, P, "        model.update_parameters({par: old})\n", "", expect="M1|mca.py|parameter_elasticities|", quick=True),
            Variant("drop-worker-parameter-reset", MOD, W, "    model.update_parameters({parameter: old})\n", "", expect="M1|mca.py|_response_coefficient_worker|unrestored parameters"),
            Variant("restore-with-perturbed", MOD, P, "model.update_parameters({par: old})", "model.update_parameters({par: old * (1 + displacement)})", expect="M1|"),
            Variant("numerator-reversed", MOD, "variable_elasticities", "(upper - lower) / (2 * displacement * old)", "(lower - upper) / (2 * displacement * old)", expect="M2|", quick=True),
            Variant("denominator-no-2", MOD, P, "(upper - lower) / (2 * displacement * old)", "(upper - lower) / (displacement * old)", expect="M2|"),
            Variant("both-plus", MOD, "variable_elasticities", "variables | {var: old * (1 - displacement)}", "variables | {var: old * (1 + displacement)}", expect="M2|"),
            Variant("scale-by-perturbed", MOD, "variable_elasticities", "elasticity_coef *= old / model.get_fluxes(variables=variables, time=time)", "elasticity_coef *= old / upper", expect="M2|"),
            Variant("flux-response-from-variables", MOD, W, "(upper.fluxes.iloc[-1] - lower.fluxes.iloc[-1])", "(upper.fluxes.iloc[-1] - lower.variables.iloc[-1])", expect="M2|"),
            Variant("baseline-run-at-other-state", MOD, W, "        norm = _steady_state_worker(model, rel_norm=rel_norm, integrator=integrator, y0=None)", "        norm = _steady_state_worker(model, rel_norm=rel_norm, integrator=integrator, y0=y0)", expect="M4|", quick=True),
            Variant("baseline-flux-at-time-zero", MOD, "variable_elasticities", "elasticity_coef *= old / model.get_fluxes(variables=variables, time=time)", "elasticity_coef *= old / model.get_fluxes(variables=variables, time=0)", expect="M4|"),
            Variant("sequential-forced", MOD, "response_coefficients", "parallel=parallel", "parallel=False", expect="M3|"),
            Variant("components-swapped", MOD, "response_coefficients", "variables=pd.DataFrame({k: v[0] for k, v in res})", "variables=pd.DataFrame({k: v[1] for k, v in res})", expect="M3|", quick=True),
            Variant("scale-model-parameter", MOD, P, "        model.update_parameters({par: old * (1 + displacement)})", "        model.scale_parameter(par, 1 + displacement)", expect="M1|"),
        ]

    def must_stay_silent(self):
        return [
            Variant("commuted-denominator", MOD, "variable_elasticities", "(2 * displacement * old)", "(old * displacement * 2)", quick=True),
            Variant("private-copy", MOD, "parameter_elasticities", "    elasticities = {}\n", "    elasticities = {}\n    model = copy.deepcopy(model)\n"),
        ]


CHECK = C18
