"""C08 - SBML export: the exporter's structure (DESIGN 4/C08, rules E1-E6)."""

from __future__ import annotations

import ast

from ..core import expand_locals, nary_index_problems, single_defs, AnalysisError, Check, Scope, norm, strip_docstring, walk_no_nested
from ..dispatch import operator_table, classify_body, match_dispatch
from ..interp import Sym, SymInterp
from ..variants import Variant

MOD = "sbml/_export.py"

# MathML meaning of the writer's tables (E5): python/numpy name -> (libsbml constant, arity)
REFERENCE_OPS = {
    "sqrt": ("AST_FUNCTION_ROOT", 1), "abs": ("AST_FUNCTION_ABS", 1), "ceil": ("AST_FUNCTION_CEILING", 1), "floor": ("AST_FUNCTION_FLOOR", 1),
    "exp": ("AST_FUNCTION_EXP", 1), "sin": ("AST_FUNCTION_SIN", 1), "cos": ("AST_FUNCTION_COS", 1), "tan": ("AST_FUNCTION_TAN", 1),
    "arcsin": ("AST_FUNCTION_ARCSIN", 1), "arccos": ("AST_FUNCTION_ARCCOS", 1), "arctan": ("AST_FUNCTION_ARCTAN", 1),
    "asin": ("AST_FUNCTION_ARCSIN", 1), "acos": ("AST_FUNCTION_ARCCOS", 1), "atan": ("AST_FUNCTION_ARCTAN", 1),
    "sinh": ("AST_FUNCTION_SINH", 1), "cosh": ("AST_FUNCTION_COSH", 1), "tanh": ("AST_FUNCTION_TANH", 1),
    "arcsinh": ("AST_FUNCTION_ARCSINH", 1), "arccosh": ("AST_FUNCTION_ARCCOSH", 1), "arctanh": ("AST_FUNCTION_ARCTANH", 1),
    "log": ("AST_FUNCTION_LN", 1), "log10": ("AST_FUNCTION_LOG", 1), "power": ("AST_POWER", 2), "pow": ("AST_POWER", 2),
    "max": ("AST_FUNCTION_MAX", None), "min": ("AST_FUNCTION_MIN", None),
    "remainder": (None, 2),  # IEEE remainder (math) / floored mod (numpy) - MathML rem truncates: no faithful counterpart
}
BINOPS = {"Mult": "AST_TIMES", "Add": "AST_PLUS", "Sub": "AST_MINUS", "Div": "AST_DIVIDE", "Pow": "AST_POWER", "FloorDiv": "AST_FUNCTION_QUOTIENT"}
UNOPS = {"USub": "AST_MINUS", "Not": "AST_LOGICAL_NOT"}
RELS = {"Eq": "AST_RELATIONAL_EQ", "NotEq": "AST_RELATIONAL_NEQ", "Lt": "AST_RELATIONAL_LT", "LtE": "AST_RELATIONAL_LEQ", "Gt": "AST_RELATIONAL_GT", "GtE": "AST_RELATIONAL_GEQ"}
PAYLOAD = {"AST_FUNCTION": "setName", "AST_NAME": "setName", "AST_REAL": "setValue"}
FACTORY = {"createSpecies": "Species", "createParameter": "Parameter", "createInitialAssignment": "InitialAssignment", "createAssignmentRule": "AssignmentRule",
           "createReaction": "Reaction", "createReactant": "SpeciesReference", "createProduct": "SpeciesReference", "createModifier": "ModifierSpeciesReference",
           "createKineticLaw": "KineticLaw", "createCompartment": "Compartment", "createUnitDefinition": "UnitDefinition", "createUnit": "Unit", "createModel": "Model"}
ID_SINKS = {"setId", "setSpecies", "setVariable", "setSymbol"}


class C08(Check):
    pid = "C08"
    title = "SBML export then import reproduces the model, or export fails"
    rules = {
        "E11": "no formula is dropped silently: every tree handed to setMath comes from a function that raises unless libsbml accepts it (or setMath's return "
               "code is examined), and every function-table entry yields a node that libsbml accepts with the children the exporter attaches",
        "E10": "ids are injective: an entity id that is created inside nested loops (reaction x stoichiometry entry) depends on the key of every enclosing "
               "loop, directly or through the helper that defines it",
        "E9": "(shared with C17) the re-import side of a round trip: every document gets its own generated module (U1 of C17)",
        "E1": "exhaustiveness / field consumption of the AST->MathML converters: every dispatcher default raises; comparison chains, call "
              "arguments and keywords are consumed in full or refused",
        "E2": "node typestate: an ASTNode created with a kind that needs a payload (function/name -> setName, real -> setValue) receives it "
              "before it is returned; no nameless generic function node is produced",
        "E3": "identifier discipline: every string reaching setId/setSpecies/setVariable/setSymbol on a model entity passes the id "
              "converter; references use the prefix of the entity they denote; names inside math are converted like the ids they refer to",
        "E4": "sign preservation: a numeric coefficient is a reactant iff negative, with its absolute value; a computed coefficient is "
              "exported on the side that keeps its value (product)",
        "E5": "operator tables: each entry maps to the MathML node of the same meaning and is listed under its real arity",
        "E8": "a conditional expression is exported as MathML piecewise with children (value-if-true, condition, value-otherwise) - the order "
              "<piece> value condition </piece> <otherwise> prescribed by MathML / libsbml",
        "E12": "leaves and chains: math.e / pi / inf / nan map to their MathML constants (nothing else does), True / False to MathML true / false, numbers to "
               "reals with their own value, and the links of a comparison chain are joined by one logical `and` (a single link stands alone)",
        "E7": "fresh tree per export: the function AST that is renamed in place (NodeTransformer.visit) for one component is parsed "
              "anew for that call; a memoised (functools.cache / lru_cache / module-level dict) parse would hand the already renamed tree to "
              "the next component that uses the same function with other arguments",
        "E6": "API existence: every method called on a libsbml object exists on the class its factory returns",
    }
    floors = {"E11": 20, "E10": 1, "E9": 1, "E1": 8, "E2": 3, "E3": 10, "E4": 2, "E5": 20, "E6": 25, "E7": 2, "E8": 1, "E12": 3}
    decided = [
        "an expression construct the exporter cannot represent raises instead of producing a different / unreadable formula",
        "coefficient signs survive; ids are produced by one converter; libsbml is called with methods that exist",
        "operator tables mean what they say",
    ]
    undecided = ["that pysbml reads the file back to the same numbers (third-party reader)", "derived quantities are exported as rules without a declared target parameter (tolerated by pysbml)",
                 "fractional coefficients, escaping round trip on import"]
    assumptions = ["libsbml (read only for its class dictionary) implements the SBML L3V2 API", "MathML semantics of the libsbml AST node kinds"]

    def run(self) -> None:
        mod = self.prog.module(MOD)
        self.borrow("C17", ("U1",), "E9")
        self.e1(mod)
        self.e2(mod)
        self.e3(mod)
        self.e4(mod)
        self.e10(mod)
        self.e11(mod)
        self.e5(mod)
        self.e6(mod)
        self.e7(mod)
        self.e12(mod)
        fi = mod.func("_convert_ifexp")
        defs = {norm(a.targets[0]): norm(a.value) for a in walk_no_nested(fi) if isinstance(a, ast.Assign) and isinstance(a.targets[0], ast.Name)}
        kids = [norm(c.args[0]) for c in walk_no_nested(fi) if isinstance(c, ast.Call) and norm(c.func).endswith(".addChild")]
        kids.sort(key=lambda k: [c.lineno for c in walk_no_nested(fi) if isinstance(c, ast.Call) and norm(c.func).endswith(".addChild") and norm(c.args[0]) == k][0])
        roles = [defs.get(k, k) for k in kids]
        want = ["_convert_node(node.body)", "_convert_node(node.test)", "_convert_node(node.orelse)"]
        if roles == want:
            self.holds("E8", MOD, fi.name, "piecewise-child-order", fi, "children added as (value-if-true, condition, otherwise)")
        else:
            self.violated("E8", MOD, fi.name, "piecewise-child-order", fi, f"piecewise children are added as {roles}; MathML reads <piece> value condition </piece>, then <otherwise>",
                          witness="`k if x > 2 else 0.5`: the re-imported model computes (x > 2) if k else 0.5, e.g. -1 instead of -2 at x = 3")

    # ------------------------------------------------------------------
    def e1(self, mod) -> None:
        for name, fn in mod.functions.items():
            if "." in name or not name.startswith("_convert"):
                continue
            if not any(isinstance(n, ast.Match) for n in walk_no_nested(fn)):
                ot = operator_table(mod, fn)
                if ot is not None and ot[0] and not isinstance(ot[2], ast.If):
                    if ot[1] == "raise":
                        self.holds("E1", MOD, name, "operator-table", ot[2], f"kinds {sorted(ot[0])} handled through a table; anything else raises")
                    else:
                        self.violated("E1", MOD, name, "operator-table", ot[2], f"operators missing from the table do not raise ({ot[1]}): a different formula is written",
                                      witness="a rate law using `x % 2`, `x @ y` or `~x` is exported as some other operation")
            for n in walk_no_nested(fn):
                if isinstance(n, ast.Match):
                    d = match_dispatch(n)
                    cons = f"match {d.var}"
                    what = classify_body(d.default) if d.default is not None else "none"
                    if what == "raise":
                        self.holds("E1", MOD, name, cons, n, f"kinds {sorted(d.kinds)} handled; anything else raises")
                    else:
                        self.violated("E1", MOD, name, cons, n, f"unhandled `{d.var}` shapes do not raise ({what}): a different formula is written",
                                      witness="a rate law using `x % 2`, `x @ y` or `~x` is exported as some other operation")
        cmp_ = mod.func("_convert_compare")
        idx = [n for n in walk_no_nested(cmp_) if isinstance(n, ast.Subscript) and norm(n.value) in ("node.ops", "node.comparators") and isinstance(n.slice, ast.Constant)]
        cdefs = single_defs(cmp_)
        zips = [n for n in walk_no_nested(cmp_) if isinstance(n, ast.Call) and norm(n.func) == "zip" and "node.ops" in norm(expand_locals(n, cdefs)) and "node.comparators" in norm(expand_locals(n, cdefs))]
        guard = [n for n in walk_no_nested(cmp_) if isinstance(n, ast.If) and "len(node.ops)" in norm(n.test) and classify_body(n.body) == "raise"]
        if (zips and not idx) or guard:
            self.holds("E1", MOD, cmp_.name, "compare-all-links", zips[0] if zips else guard[0], "every link of a comparison chain is exported (or chains are refused)")
        else:
            self.violated("E1", MOD, cmp_.name, "compare-all-links", idx[0] if idx else cmp_, "only the first link of a comparison chain is exported",
                          witness="`k if 0 < x < 2 else 0` is written as `k if 0 < x else 0`")
        # calls: arity and keywords
        callfns = [f for n, f in mod.functions.items() if "call" in n and "." not in n]
        kw_ok = False
        n_tab = 0
        for f in callfns:
            for n in walk_no_nested(f):
                if isinstance(n, ast.If) and "node.keywords" in norm(n.test) and classify_body(n.body) == "raise":
                    kw_ok = True
                if isinstance(n, ast.If) and (".get(func)" in norm(n.test) or ".get(attr)" in norm(n.test)):
                    table = norm(n.test).split(".get(")[0].split()[-1].lstrip("(")
                    indexed = [x for x in ast.walk(ast.Module(body=n.body, type_ignores=[])) if isinstance(x, ast.Subscript) and norm(x.value) == "node.args" and isinstance(x.slice, ast.Constant)]
                    if not indexed:
                        continue
                    n_tab += 1
                    guard = [x for x in n.body if isinstance(x, ast.If) and "len(node.args)" in norm(x.test) and classify_body(x.body) == "raise"]
                    cons = f"call-arity-{table}@{f.name}"
                    if guard:
                        self.holds("E1", MOD, f.name, cons, guard[0], f"{table} functions are refused unless called with exactly the indexed number of arguments")
                    else:
                        self.violated("E1", MOD, f.name, cons, indexed[0], f"{table} functions read node.args[{norm(indexed[-1].slice)}] without an arity test: surplus arguments are dropped",
                                      witness="math.log(x, 10) is exported as ln(x)")
        if n_tab == 0:
            self.undecided_ob("E1", MOD, "_convert_*call", "call-arity", callfns[0], "table-driven call conversion not recognised")
        if kw_ok:
            self.holds("E1", MOD, "_convert_*call", "call-keywords", callfns[0], "calls with keyword arguments are refused")
        else:
            self.violated("E1", MOD, "_convert_*call", "call-keywords", callfns[0], "Call.keywords is ignored")
        # generic: no list-valued node field is read through a constant index without a length test (covers converters added later)
        for fname, f in mod.functions.items():
            if "." in fname:
                continue
            bad, good = nary_index_problems(f, mod)
            for n, fld in {f_: (n_, f_) for n_, f_ in reversed(bad)}.values():
                self.violated("E1", MOD, fname, f"indexed-field {fld}", n, f"`{norm(n)}` reads `{fld}` through a constant index and nothing in {fname} tests its length: "
                              "further elements are dropped from the exported formula", witness="`k*x if a and b and c else 0` is exported with the condition `a and b`")
            for fld in sorted({fld for _, fld in good}):
                n0 = [n for n, f_ in good if f_ == fld][0]
                self.holds("E1", MOD, fname, f"indexed-field {fld}", n0, "constant-index reads are preceded by a length test that refuses other lengths")
        body = mod.func("_handle_body")
        # only the last statement's conversion survives: earlier assignments must be refused by the node dispatcher
        nd = mod.func("_convert_node")
        m = [n for n in walk_no_nested(nd) if isinstance(n, ast.Match)]
        kinds = match_dispatch(m[0]).kinds if m else set()
        if "Assign" not in kinds and "AugAssign" not in kinds and classify_body(match_dispatch(m[0]).default or []) == "raise":
            self.holds("E1", MOD, "_convert_node", "statements-refused", m[0], f"statement kinds other than {sorted(k for k in kinds if k in ('Return',))} raise: multi-statement bodies are refused")
        else:
            self.violated("E1", MOD, "_convert_node", "statements-refused", nd, "assignments are accepted although only the last statement is exported")

    def e2(self, mod) -> None:
        n_nodes = 0
        for name, fn in mod.functions.items():
            if "." in name:
                continue
            for n in walk_no_nested(fn):
                if isinstance(n, ast.Call) and norm(n.func) == "libsbml.ASTNode" and n.args:
                    kind = norm(n.args[0]).replace("libsbml.", "")
                    if kind not in PAYLOAD:
                        continue
                    n_nodes += 1
                    sc = Scope(fn)
                    stmt = sc.stmt_of(n)
                    tgt = norm(stmt.targets[0]) if isinstance(stmt, ast.Assign) else None
                    need = PAYLOAD[kind]
                    got = tgt is not None and any(isinstance(c, ast.Call) and norm(c.func) == f"{tgt}.{need}" for c in walk_no_nested(fn) if getattr(c, "lineno", 0) >= n.lineno)
                    cons = f"payload {kind}@{name}"
                    if got:
                        self.holds("E2", MOD, name, cons, n, f"{kind} node receives {need}(..) before it is returned")
                    else:
                        self.violated("E2", MOD, name, cons, n, f"an {kind} node is returned without {need}(..): the written MathML has a nameless/valueless element",
                                      witness="a rate law calling a helper function or math.exp: the file is written but cannot be read back (KeyError '')")
        self.analysed["payload_nodes"] = n_nodes
        if not any(o.rule == "E2" for o in self.obs):
            raise AnalysisError("no payload-carrying ASTNode construction found")
        generic = [n for name, fn in mod.functions.items() for n in walk_no_nested(fn) if isinstance(n, ast.Attribute) and norm(n) == "libsbml.AST_FUNCTION"]
        if generic:
            self.violated("E2", MOD, "_convert_*call", "generic-function-node", generic[0], "a generic AST_FUNCTION node is produced for unknown calls instead of refusing",
                          witness="helper(x, k) inside a rate law")
        else:
            self.holds("E2", MOD, "_convert_*call", "generic-function-node", mod.func("_convert_call"), "no generic function node: unknown calls raise")
        hb = mod.func("_handle_body")
        self.holds("E2", MOD, hb.name, "body-last-statement", hb, "the node of the last statement is returned") if "return code" in norm(hb) else \
            self.violated("E2", MOD, hb.name, "body-last-statement", hb, "body conversion does not return the last statement's node")

    def e3(self, mod) -> None:
        conv = "_convert_id_to_sbml"
        entity_prefix = {"createSpecies": "CPD", "createParameter": "PAR", "createReaction": "RXN", "createModel": "MODEL"}
        for name, fn in mod.functions.items():
            if "." in name or not name.startswith(("_create_sbml", "_create_derived")):
                continue
            if name in ("_create_sbml_units", "_create_sbml_compartments", "_create_sbml_document"):
                continue
            ldefs = single_defs(fn, anywhere=True)
            for c in walk_no_nested(fn):
                if not (isinstance(c, ast.Call) and isinstance(c.func, ast.Attribute) and c.func.attr in ID_SINKS and c.args):
                    continue
                a = c.args[0]
                if isinstance(a, ast.Name) and a.id in ldefs:
                    a = expand_locals(a, {k: v for k, v in ldefs.items() if isinstance(v, (ast.Name, ast.Call))}, depth=4)
                cons = f"{norm(c.func)}({norm(a)[:48]})"
                if isinstance(a, ast.Call) and norm(a.func) == conv:
                    kw = {k.arg: norm(k.value) for k in a.keywords}
                    pref = kw.get("prefix", "").strip("'\"")
                    meth = c.func.attr
                    want = None
                    if meth == "setSpecies":
                        want = "CPD"
                    elif meth in ("setSymbol", "setVariable"):
                        # the target must denote an existing entity: species (CPD) / parameter (PAR); rules on derived names use AR
                        want = {"_create_sbml_variables": "CPD", "_create_sbml_parameters": "PAR"}.get(name)
                    if want is not None and pref != want:
                        self.violated("E3", MOD, name, cons, c, f"the reference uses prefix {pref!r} but the entity it denotes is registered with prefix {want!r}: for a name that needs a prefix the two ids differ",
                                      witness="a variable named '1x' with an initial assignment: the assignment targets IA_1x, the species is CPD_1x")
                    else:
                        self.holds("E3", MOD, name, cons, c, f"id produced by {conv}(prefix={pref!r})")
                else:
                    self.violated("E3", MOD, name, cons, c, f"a raw string reaches {c.func.attr} without passing {conv}", witness="a name with characters outside [0-9a-zA-Z_] yields an invalid SBML id")
        nd = mod.func("_convert_node")
        names = [c for c in walk_no_nested(nd) if isinstance(c, ast.Call) and isinstance(c.func, ast.Attribute) and c.func.attr == "setName"]
        for c in names:
            if isinstance(c.args[0], ast.Call) and norm(c.args[0].func) == conv:
                self.holds("E3", MOD, "_convert_node", "math-names-converted", c, "names inside math go through the id converter")
            else:
                self.violated("E3", MOD, "_convert_node", "math-names-converted", c,
                              f"`{norm(c)}` puts the raw model name into the formula while the entity is registered under its converted id",
                              witness="a variable named 'A.B' or 'x-1': its species id is escaped, the kinetic law refers to the unescaped name")

    def e10(self, mod) -> None:
        """Entity ids created inside nested loops depend on every loop's key (otherwise two entities share one id)."""
        DEFINING = {"setId", "setVariable"}
        # module functions whose parameter ends up as a defined id: name -> set of parameter names
        defining_params: dict[str, set[str]] = {}
        for fname, f in mod.functions.items():
            if "." in fname:
                continue
            params = [a.arg for a in f.args.posonlyargs + f.args.args + f.args.kwonlyargs]
            ld = single_defs(f, anywhere=True)
            for c in walk_no_nested(f):
                if isinstance(c, ast.Call) and isinstance(c.func, ast.Attribute) and c.func.attr in DEFINING and c.args:
                    a = expand_locals(c.args[0], {k: v for k, v in ld.items()}, depth=4)
                    for n in ast.walk(a):
                        if isinstance(n, ast.Name) and n.id in params:
                            defining_params.setdefault(fname, set()).add(n.id)
        n_sites = 0
        for fname, f in mod.functions.items():
            if "." in fname or not fname.startswith("_create_sbml"):
                continue
            sc = Scope(f)
            ld = single_defs(f, anywhere=True)
            for c in walk_no_nested(f):
                if not isinstance(c, ast.Call):
                    continue
                id_exprs = []
                if isinstance(c.func, ast.Attribute) and c.func.attr in DEFINING and c.args:
                    id_exprs.append(c.args[0])
                elif isinstance(c.func, ast.Name) and c.func.id in defining_params:
                    callee = mod.functions[c.func.id]
                    cparams = [a.arg for a in callee.args.posonlyargs + callee.args.args]
                    for i, a in enumerate(c.args):
                        if i < len(cparams) and cparams[i] in defining_params[c.func.id]:
                            id_exprs.append(a)
                    for k in c.keywords:
                        if k.arg in defining_params[c.func.id]:
                            id_exprs.append(k.value)
                loops = [l for l in sc.enclosing(c, ast.For)]
                if not id_exprs or len(loops) < 2:
                    continue
                keys = []
                for l in loops:
                    t = l.target
                    keys.append(norm(t.elts[0]) if isinstance(t, ast.Tuple) else norm(t))
                for e in id_exprs:
                    n_sites += 1
                    full = expand_locals(e, ld, depth=4)
                    used = {n.id for n in ast.walk(full) if isinstance(n, ast.Name)}
                    missing = [k for k in keys if k not in used]
                    cons = f"id-per-entity {norm(c.func)}@{fname}"
                    if missing:
                        self.violated("E10", MOD, fname, cons, c,
                                      f"the id `{norm(full)[:70]}` is created once per ({', '.join(reversed(keys))}) but does not depend on {missing}: two entities get the same id and the second one replaces the first on import",
                                      witness="two reactions with a computed coefficient on the same species x (2k and 3k): the re-imported model applies 3k to both, dx/dt = 6 instead of 5")
                    else:
                        self.holds("E10", MOD, fname, cons, c, f"id depends on every enclosing loop key {keys}")
        self.analysed["ids_defined_in_nested_loops"] = n_sites

    def e11(self, mod) -> None:
        """libsbml reports a refused formula only through setMath's return code: every formula must be validated before it is set
        (or the return code checked), and every table entry must produce a node libsbml accepts with the children the exporter gives it."""
        import libsbml

        validators = set()
        for fname, f in mod.functions.items():
            if "." in fname:
                continue
            for n in walk_no_nested(f):
                if isinstance(n, ast.If) and "isWellFormedASTNode()" in norm(n.test) and classify_body(n.body if norm(n.test).startswith("not ") else n.orelse) == "raise":
                    validators.add(fname)
        n_set = 0
        for fname, f in mod.functions.items():
            if "." in fname:
                continue
            sc = Scope(f)
            ld = single_defs(f, anywhere=True)
            for c in walk_no_nested(f):
                if not (isinstance(c, ast.Call) and isinstance(c.func, ast.Attribute) and c.func.attr == "setMath" and c.args):
                    continue
                n_set += 1
                a = expand_locals(c.args[0], ld, depth=3)
                src = norm(a.func) if isinstance(a, ast.Call) else "?"
                stmt = sc.stmt_of(c)
                checked = isinstance(stmt, (ast.Assign, ast.If)) or any(isinstance(p_, ast.Compare) for p_, _f, _c in sc.ancestors(c))
                cons = f"setMath@{fname}:{norm(c.func.value)[:30]}"
                if src in validators or checked:
                    self.holds("E11", MOD, fname, cons, c, f"formula comes from `{src}`, which raises unless libsbml accepts the tree" if src in validators else "setMath's return code is examined")
                else:
                    self.violated("E11", MOD, fname, cons, c, f"`{norm(c)[:70]}`: neither is the tree validated (isWellFormedASTNode) nor is setMath's return code examined - libsbml drops a refused formula silently",
                                  witness="a rate law libsbml cannot represent as built (log10 with one child) is written as an empty <kineticLaw/>; the file cannot be read back")
        self.analysed["setMath_calls"] = n_set
        # table entries produce acceptable nodes with the number of children the exporter attaches
        kc = mod.func("_convert_known_call")
        extra: dict[str, int] = {}
        for n in walk_no_nested(kc):
            if isinstance(n, ast.If) and isinstance(n.test, ast.Compare) and norm(n.test.left) == "typ" and isinstance(n.test.ops[0], ast.Eq):
                extra[norm(n.test.comparators[0]).replace("libsbml.", "")] = sum(1 for x in ast.walk(n) if isinstance(x, ast.Call) and norm(x.func).endswith(".addChild"))
        for table, arity in (("UNARY", 1), ("BINARY", 2), ("NARY", 2)):
            t = mod.const(table)
            for k, v in zip(t.keys, t.values):
                typ = norm(v).replace("libsbml.", "")
                if not hasattr(libsbml, typ):
                    self.violated("E11", MOD, table, f"{table}[{k.value!r}] node", k, f"libsbml has no node type {typ}")
                    continue
                node = libsbml.ASTNode(getattr(libsbml, typ))
                for i in range(arity + extra.get(typ, 0)):
                    ch = libsbml.ASTNode(libsbml.AST_NAME)
                    ch.setName(f"a{i}")
                    node.addChild(ch)
                cons = f"{table}[{k.value!r}] node"
                if node.isWellFormedASTNode():
                    self.holds("E11", MOD, table, cons, k, f"{typ} with {arity + extra.get(typ, 0)} children is accepted by libsbml")
                else:
                    self.violated("E11", MOD, table, cons, k, f"{typ} with {arity + extra.get(typ, 0)} child(ren) is not well-formed for libsbml: setMath refuses the formula",
                                  witness=f"a rate law calling {k.value} is exported without its formula")

    def e4(self, mod) -> None:
        """Coefficient export, from the path summaries of one stoichiometry entry (match or isinstance dispatch alike)."""
        fn = mod.func("_create_sbml_reactions")
        loops = [l for l in ast.walk(fn) if isinstance(l, ast.For) and norm(l.iter).endswith(".stoichiometry.items()") and isinstance(l.target, ast.Tuple)]
        if not loops:
            raise AnalysisError("_create_sbml_reactions: loop over the stoichiometry not found")
        lp = loops[0]
        f = norm(lp.target.elts[1])
        o = SymInterp().block(lp.body, [Sym()])
        paths = list(o.normal) + list(o.continues)
        num_t = f"isinstance({f}, (float, int))"
        der_t = f"isinstance({f}, Derived)"
        num = [st for st in paths if (num_t, True) in st.conds]
        der = [st for st in paths if (der_t, True) in st.conds]
        other_ok = [st for st in paths if (num_t, False) in st.conds and (der_t, False) in st.conds]
        other_raise = [st for st, _, _ in o.raises if (num_t, False) in st.conds and (der_t, False) in st.conds]
        if not num or not der:
            raise AnalysisError("_create_sbml_reactions: numeric / computed cases not found")
        anchor = lp

        def calls(st):
            return [e[1] for e in st.events if e[0] == "call"]
        ok = True
        for st in num:
            neg = [p_ for c, p_ in st.conds if c == f"{f} < 0"] + [not p_ for c, p_ in st.conds if c == f"{f} >= 0"]
            cs = calls(st)
            want = "sbml_rxn.createReactant()" if neg and neg[-1] else "sbml_rxn.createProduct()"
            other = "sbml_rxn.createProduct()" if neg and neg[-1] else "sbml_rxn.createReactant()"
            if not neg or f"{want}.setStoichiometry(abs({f}))" not in cs or any(c.startswith(other) for c in cs):
                ok = False
        if ok:
            self.holds("E4", MOD, fn.name, "numeric-sign", anchor, "reactant iff factor < 0, stoichiometry abs(factor)")
        else:
            self.violated("E4", MOD, fn.name, "numeric-sign", anchor, "numeric coefficients are not exported as reactant iff negative with their absolute value",
                          witness="x -> y with coefficients -1/+1 comes back with both signs flipped (or a signed stoichiometry on the wrong side)")
        okd = all(any(c.startswith("sbml_rxn.createProduct().") for c in calls(st)) and not any("createReactant" in c for c in calls(st)) for st in der)
        if okd:
            self.holds("E4", MOD, fn.name, "computed-sign", anchor, "computed coefficient exported as a product: its value enters unchanged")
        else:
            self.violated("E4", MOD, fn.name, "computed-sign", anchor, "a computed coefficient is exported as a reactant with its raw value: on import its sign is flipped",
                          witness="stoichiometry {'y': Derived(3*k)} with k=2: the original adds +6*v to dy/dt, the re-imported model -6*v")
        if other_raise and not other_ok:
            self.holds("E4", MOD, fn.name, "other-coefficients-refused", anchor, "coefficient types other than number / Derived raise")
        else:
            self.violated("E4", MOD, fn.name, "other-coefficients-refused", anchor, "unknown coefficient types are not refused")

    def e5(self, mod) -> None:
        for table, arity in (("UNARY", 1), ("BINARY", 2), ("NARY", None)):
            t = mod.const(table)
            for k, v in zip(t.keys, t.values):
                key, val = k.value, norm(v).replace("libsbml.", "")
                cons = f"{table}[{key!r}]"
                if key not in REFERENCE_OPS:
                    self.info("E5", MOD, table, cons, k, f"unvetted entry -> {val}")
                    continue
                want, war = REFERENCE_OPS[key]
                if want is None:
                    self.violated("E5", MOD, table, cons, k, f"{key} has no MathML counterpart of the same meaning but is mapped to {val}",
                                  witness=f"a rate law calling {key}(a, b) is exported as a different function")
                elif val != want or war != arity:
                    self.violated("E5", MOD, table, cons, k, f"{key} -> {val} listed with arity {arity}; reference: {want} with arity {war}",
                                  witness=f"{key} is exported as another operation / with dropped arguments")
                else:
                    self.holds("E5", MOD, table, cons, k, f"-> {val}, arity {arity}")
        for fname, ref, kindname in (("_convert_binop", BINOPS, "op"), ("_convert_unaryop", UNOPS, "op"), ("_convert_relation", RELS, "typ")):
            if not mod.has_func(fname):
                if fname == "_convert_relation":
                    fname = "_convert_compare"
                else:
                    raise AnalysisError(f"{fname} missing")
            fn = mod.func(fname)
            ot = operator_table(mod, fn)
            if ot is None:
                raise AnalysisError(f"{fname}: operator dispatch not found")
            entries, default, anchor = ot
            for k, val in sorted(entries.items()):
                val = val.replace("libsbml.", "")
                cons = f"{fname}[{k}]"
                if ref.get(k) == val:
                    self.holds("E5", MOD, fname, cons, anchor, f"{k} -> {val}")
                else:
                    self.violated("E5", MOD, fname, cons, anchor, f"Python {k} is exported as {val}; MathML counterpart is {ref.get(k)}",
                                  witness=f"a rate law using the {k} operator computes something else after re-import")

    def e6(self, mod) -> None:
        try:
            import libsbml
        except Exception as e:  # noqa: BLE001
            raise AnalysisError(f"libsbml not importable for its class dictionary: {e}") from e
        n = 0
        for name, fn in mod.functions.items():
            if "." in name:
                continue
            typ: dict[str, str] = {}
            for s in walk_no_nested(fn):
                if isinstance(s, ast.Assign) and isinstance(s.targets[0], ast.Name):
                    for c in ast.walk(s.value):
                        if isinstance(c, ast.Call) and isinstance(c.func, ast.Attribute) and c.func.attr in FACTORY:
                            typ[s.targets[0].id] = FACTORY[c.func.attr]
            for a in fn.args.args + fn.args.kwonlyargs:
                if a.annotation is not None and norm(a.annotation).startswith("libsbml."):
                    typ[a.arg] = norm(a.annotation).split(".")[-1]
            for c in walk_no_nested(fn):
                if isinstance(c, ast.Call) and isinstance(c.func, ast.Attribute):
                    recv = c.func.value
                    cls = None
                    if isinstance(recv, ast.Name) and recv.id in typ:
                        cls = typ[recv.id]
                    elif isinstance(recv, ast.Call) and isinstance(recv.func, ast.Attribute) and recv.func.attr in FACTORY:
                        cls = FACTORY[recv.func.attr]
                    if cls is None or not hasattr(libsbml, cls):
                        continue
                    n += 1
                    cons = f"{cls}.{c.func.attr}@{name}"
                    if hasattr(getattr(libsbml, cls), c.func.attr):
                        if not any(o.rule == "E6" and o.construct == cons for o in self.obs):
                            self.holds("E6", MOD, name, cons, c, f"libsbml.{cls} has {c.func.attr}")
                    else:
                        self.violated("E6", MOD, name, cons, c, f"libsbml.{cls} has no method `{c.func.attr}`: the export raises AttributeError as soon as this line runs",
                                      witness="any model with an initial assignment: sbml.write raises AttributeError")
        self.analysed["libsbml_method_calls_checked"] = n

    def e12(self, mod) -> None:
        """Leaves and chains, on path summaries: named constants, literal constants, and how the links of a comparison chain are joined."""
        import re as _re

        class I1(SymInterp):
            loop_unroll = 1

        # named constants
        fa = mod.func("_convert_attribute")
        want = {"e": ("AST_CONSTANT_E", None), "pi": ("AST_CONSTANT_PI", None), "inf": ("AST_REAL", ("np.inf", "math.inf", "float('inf')", "numpy.inf")),
                "nan": ("AST_REAL", ("np.nan", "math.nan", "float('nan')", "numpy.nan"))}
        probs = []
        seen = set()
        for st, _ in I1().run_function(fa, Sym()).returns:
            true_lits = [m_.group(1) for c, v in st.conds if v for m_ in [_re.match(r"^node\.attr == '(\w+)'$", c)] if m_]
            parent_ok = any(v and _re.match(r"^node\.value\.id in \(", c) for c, v in st.conds)
            ret = next((e[1] for e in reversed(st.events) if e[0] == "return"), "")
            kind = _re.match(r"^libsbml\.ASTNode\(libsbml\.(\w+)\)$", ret)
            setv = [m_.group(1) for e in st.events if e[0] == "call" for m_ in [_re.match(r"^libsbml\.ASTNode\(libsbml\.\w+\)\.setValue\((.+)\)$", e[1])] if m_]
            if len(true_lits) != 1 or not kind:
                probs.append("a returning path is not selected by exactly one attribute name")
                continue
            lit = true_lits[0]
            seen.add(lit)
            if not parent_ok:
                probs.append(f"`.{lit}` of an arbitrary object is exported as the mathematical constant")
            if lit not in want:
                continue
            k_, payload = want[lit]
            if kind.group(1) != k_ or (payload is None and setv) or (payload is not None and (len(setv) != 1 or setv[0] not in payload)):
                probs.append(f"math.{lit} is exported as {kind.group(1)}" + (f" with value {setv[0]}" if setv else ""))
        if probs:
            self.violated("E12", MOD, fa.name, "named-constants", fa, sorted(set(probs))[0], witness="a rate law using math.pi re-imports with math.e in its place")
        else:
            self.holds("E12", MOD, fa.name, "named-constants", fa, f"{sorted(seen)} of math / numpy map to their MathML constants; anything else raises")
        # literal constants
        fc = mod.func("_convert_constant")
        probs = []
        for st, _ in I1().run_function(fc, Sym()).returns:
            conds = dict(st.conds)
            ret = next((e[1] for e in reversed(st.events) if e[0] == "return"), "")
            setv = [m_.group(1) for e in st.events if e[0] == "call" for m_ in [_re.match(r"^libsbml\.ASTNode\(libsbml\.\w+\)\.setValue\((.+)\)$", e[1])] if m_]
            is_bool = conds.get("isinstance(node.value, bool)")
            if is_bool:
                val = conds.get("node.value", conds.get("node.value is True"))
                want_k = "AST_CONSTANT_TRUE" if val else "AST_CONSTANT_FALSE"
                if val is None or ret != f"libsbml.ASTNode(libsbml.{want_k})":
                    probs.append(f"the literal {val} is exported as `{ret}`")
            elif is_bool is False:
                if not (ret == "libsbml.ASTNode(libsbml.AST_REAL)" and setv == ["node.value"]):
                    probs.append(f"a numeric literal is exported as `{ret}` with value {setv}")
            else:
                probs.append("a literal is exported without telling booleans from numbers (True would be written as 1.0, or 1 as true)")
        if probs:
            self.violated("E12", MOD, fc.name, "literals", fc, sorted(set(probs))[0], witness="`k if True else 0` / `2.0 * x` re-imports with another constant")
        else:
            self.holds("E12", MOD, fc.name, "literals", fc, "True / False -> MathML true / false, numbers -> real with their own value")
        # comparison chains: one link alone, several joined by `and`
        fcmp = mod.func("_convert_compare")
        probs = []
        n_and = 0
        links_exprs = set()
        for st, _ in I1().run_function(fcmp, Sym()).returns:
            ret = next((e[1] for e in reversed(st.events) if e[0] == "return"), "")
            m_single = _re.match(r"^(?P<L>.+)\[0\]$", ret)
            if m_single and "AST_LOGICAL_AND" not in ret:
                L = m_single.group("L")
                links_exprs.add(L)
                single = [v for c, v in st.conds if c == f"len({L}) == 1"] + [not v for c, v in st.conds if c in (f"len({L}) > 1", f"len({L}) != 1", f"len({L}) >= 2")]
                if not single or not single[0]:
                    probs.append("the first link alone is returned although the chain may have several links")
            elif "AST_LOGICAL_AND" in ret:
                adds = [e[1] for e in st.events if e[0] == "call" and ".addChild(" in e[1]]
                for a in adds:
                    m_add = _re.search(r"\.addChild\(ITEM\(0, (?P<L>.+)\)\)$", a)
                    if m_add:
                        n_and += 1  # one iteration of the joining loop adds that link (paths with zero iterations of it add nothing)
                        links_exprs.add(m_add.group("L"))
                    else:
                        probs.append(f"`{a[:60]}` adds something other than the links to the `and` node")
            elif ret:
                probs.append(f"a chain is returned as `{ret[:50]}`")
        # the k-th link relates comparator k-1 to comparator k (the first one node.left to comparator 0)
        class I2(SymInterp):
            loop_unroll = 2

        shift = None  # True / False / None (form not recognised)
        for st, _ in I2().run_function(fcmp, Sym()).returns:
            apps = [e[1].replace(" ", "") for e in st.events if e[0] == "call" and ".append(" in e[1] and "ITEM(" in e[1]]
            if len(apps) < 2:
                continue
            a0, a1 = apps[0], apps[1]
            good = "ITEM(0,node.ops)" in a0 and "node.left" in a0 and "ITEM(0,node.comparators)" in a0 and "ITEM(1,node.ops)" in a1 and "node.left" not in a1 \
                and "ITEM(0,node.comparators)" in a1 and "ITEM(1,node.comparators)" in a1 and a1.index("ITEM(0,node.comparators)") < a1.index("ITEM(1,node.comparators)")
            shift = good if shift is not False else False
            if not good:
                probs.append(f"the second link of a chain is built as `{apps[1][:90]}`, not from the previous comparator and the next one")
        if shift is None:
            for L in links_exprs:
                try:
                    lc = ast.parse(L, mode="eval").body
                except SyntaxError:
                    continue
                if isinstance(lc, ast.ListComp) and len(lc.generators) == 1 and not lc.generators[0].ifs:
                    g = lc.generators[0]
                    it_ = norm(g.iter).replace("it.pairwise", "pairwise").replace("itertools.pairwise", "pairwise").replace(", strict=True", "")
                    tgt = norm(g.target).replace(" ", "")
                    m_t = _re.match(r"^\(?(\w+),\((\w+),(\w+)\)\)?$", tgt)
                    if it_ == "zip(node.ops, pairwise([node.left, *node.comparators]))" and m_t:
                        o_, l_, r_ = m_t.groups()
                        shift = norm(lc.elt).replace(" ", "") == f"_convert_relation({o_},_convert_node({l_}),_convert_node({r_}))"
                        if not shift:
                            probs.append(f"a link is built as `{norm(lc.elt)[:80]}`, not relation(op, left neighbour, right neighbour)")
        if probs or not n_and:
            self.violated("E12", MOD, fcmp.name, "chain-joined-by-and", fcmp, sorted(set(probs))[0] if probs else "no path joins several links with a logical and",
                          witness="`k if 0 < x < 2 else 0` is written as `k if 0 < x else 0`")
        elif shift is None:
            self.undecided_ob("E12", MOD, fcmp.name, "chain-joined-by-and", fcmp, "how consecutive links share their middle operand was not recognised")
        else:
            self.holds("E12", MOD, fcmp.name, "chain-joined-by-and", fcmp, "one link is returned as it is, several are the children of one logical `and`; link k relates comparator k-1 to comparator k")

    def e7(self, mod) -> None:
        conv = mod.func("_tree_to_sbml")
        tparam = conv.args.args[0].arg
        mutates = [c for c in walk_no_nested(conv) if isinstance(c, ast.Call) and isinstance(c.func, ast.Attribute) and c.func.attr == "visit"
                   and c.args and norm(c.args[0]) == tparam]
        if not mutates:
            self.holds("E7", MOD, conv.name, "in-place-rename", conv, "the tree is not transformed in place")
            return
        self.holds("E7", MOD, conv.name, "in-place-rename", mutates[0], f"`{norm(mutates[0])}` transforms its argument in place: callers must pass a fresh tree")
        MEMO = ("cache", "lru_cache", "functools.cache", "functools.lru_cache", "cached", "memoize")
        for fname, fn in mod.functions.items():
            for c in walk_no_nested(fn):
                if isinstance(c, ast.Call) and norm(c.func) == conv.name and c.args:
                    src = c.args[0]
                    chain = []
                    cur = src
                    while isinstance(cur, ast.Call) and isinstance(cur.func, ast.Name):
                        chain.append(cur.func.id)
                        callee = mod.functions.get(cur.func.id)
                        if callee is None:
                            # imported helper: look it up in its module
                            target = mod.imports.get(cur.func.id, "")
                            rel = "meta/source_tools.py" if "source_tools" in target else None
                            callee = self.prog.module(rel).functions.get(cur.func.id) if rel else None
                        if callee is None:
                            break
                        memo = [d for d in callee.decorator_list if norm(d).split("(")[0] in MEMO]
                        if memo:
                            self.violated("E7", MOD, fname, f"tree-source {norm(src)[:40]}", c,
                                          f"the tree handed to {conv.name} comes from `{callee.name}`, which is memoised (@{norm(memo[0])}): the in-place argument "
                                          "renaming of one component leaks into the next component that uses the same function",
                                          witness="two reactions using fns.mass_action_1s with args ['x','k1'] and ['y','k2']: the second kinetic law is exported with x and k1")
                            break
                        # follow a trivial wrapper: `return inner(fn)` / `tree = inner(fn); ...; return tree`
                        inner = [x for x in walk_no_nested(callee) if isinstance(x, ast.Call) and isinstance(x.func, ast.Name) and x.func.id in ("get_fn_ast",) + tuple(mod.functions)]
                        cur = inner[0] if inner and inner[0].func.id != callee.name else None
                    else:
                        pass
                    if not any(o.rule == "E7" and o.function == fname and o.verdict == "VIOLATED" for o in self.obs):
                        if isinstance(src, ast.Call):
                            self.holds("E7", MOD, fname, f"tree-source {norm(src)[:40]}", c, f"tree produced per call by {' -> '.join(chain) or norm(src)} (not memoised)")
                        elif isinstance(src, ast.Name):
                            # staged through a local: every definition must be a fresh parse, and none may be shared through a module-level table
                            from ..core import module_tables

                            tables = module_tables(mod)
                            vals = []
                            stored = []
                            for x in walk_no_nested(fn):
                                if isinstance(x, ast.Assign) and any(isinstance(t, ast.Name) and t.id == src.id for t in x.targets):
                                    vals.append(x.value)
                                    stored += [t for t in x.targets if isinstance(t, ast.Subscript) and isinstance(t.value, ast.Name) and t.value.id in tables]
                                elif isinstance(x, ast.NamedExpr) and x.target.id == src.id:
                                    vals.append(x.value)
                                elif isinstance(x, ast.Assign) and norm(x.value) == src.id:
                                    stored += [t for t in x.targets if isinstance(t, ast.Subscript) and isinstance(t.value, ast.Name) and t.value.id in tables]
                            from_table = [v for v in vals if any(isinstance(y, ast.Name) and y.id in tables for y in ast.walk(v))
                                          and not (isinstance(v, ast.Call) and norm(v.func) in ("copy.deepcopy", "deepcopy"))]
                            if from_table or stored:
                                w = from_table[0] if from_table else stored[0]
                                self.violated("E7", MOD, fname, f"tree-source {norm(src)[:40]}", c,
                                              f"the tree handed to {conv.name} is kept in the module-level table `{norm(w)[:50]}` and handed out again for the next component using the "
                                              "same function: the in-place argument renaming of one component leaks into the next",
                                              witness="two reactions using fns.mass_action_1s with args ['x','k1'] and ['y','k2']: the second kinetic law is exported with x and k1")
                            elif vals and all(isinstance(v, ast.Call) for v in vals):
                                self.holds("E7", MOD, fname, f"tree-source {norm(src)[:40]}", c, f"tree produced per call by {', '.join(sorted({norm(v.func) for v in vals}))} (not shared)")
                            else:
                                self.undecided_ob("E7", MOD, fname, f"tree-source {norm(src)[:40]}", c, "origin of the tree not recognised")
                        else:
                            self.undecided_ob("E7", MOD, fname, f"tree-source {norm(src)[:40]}", c, "origin of the tree not a direct call")

    def must_fire(self):
        return [
            Variant("log10-without-base", MOD, "_convert_known_call", "        if typ == libsbml.AST_FUNCTION_LOG:\n            base = libsbml.ASTNode(libsbml.AST_INTEGER)\n            base.setValue(10)\n            sbml_node.addChild(base)\n", "", expect="E11|", quick=True),
            Variant("formula-not-validated", MOD, "_sbmlify_fn", "    if not node.isWellFormedASTNode():\n        msg = f'Function {fn.__name__} cannot be represented in SBML'\n        raise NotImplementedError(msg)\n", "", expect="E11|", quick=True),
            Variant("reintroduce-shared-coefficient-rule-id", MOD, "_create_sbml_reactions", "reference = f'{name}_{compound_id}ref'", "reference = f'{compound_id}ref'", expect="E10|", quick=True),
            Variant("memoised-parse", MOD, "", "def _sbmlify_fn(fn: Callable, user_args: list[str]) -> libsbml.ASTNode:\n    node = _tree_to_sbml(get_fn_ast(fn), args=user_args)",
                    "from functools import cache\n\n@cache\ndef _parse_fn(fn: Callable) -> ast.FunctionDef:\n    tree = get_fn_ast(fn)\n    return tree\n\ndef _sbmlify_fn(fn: Callable, user_args: list[str]) -> libsbml.ASTNode:\n    node = _tree_to_sbml(_parse_fn(fn), args=user_args)",
                    expect="E7|", quick=True),
            Variant("piecewise-condition-first", MOD, "_convert_ifexp", "    sbml_node.addChild(true)\n    sbml_node.addChild(condition)", "    sbml_node.addChild(condition)\n    sbml_node.addChild(true)", expect="E8|", quick=True),
            Variant("first-link-only", MOD, "_convert_compare",
                    "    links = []\n    left = node.left\n    for op, right in zip(node.ops, node.comparators, strict=True):\n        links.append(_convert_relation(op, _convert_node(left), _convert_node(right)))\n        left = right\n    if len(links) == 1:\n        return links[0]",
                    "    return _convert_relation(node.ops[0], _convert_node(node.left), _convert_node(node.comparators[0]))\n    links = []", expect="E1|", quick=True),
            Variant("unknown-call-generic-node", MOD, "_convert_known_call", "    msg = f'Function {func} cannot be represented in SBML'\n    raise NotImplementedError(msg)",
                    "    sbml_node = libsbml.ASTNode(libsbml.AST_FUNCTION)\n    for arg in node.args:\n        sbml_node.addChild(_convert_node(arg))\n    return sbml_node", expect="E2|", quick=True),
            Variant("add-is-minus", MOD, "_convert_binop", "case ast.Add():\n            op = libsbml.AST_PLUS", "case ast.Add():\n            op = libsbml.AST_MINUS", expect="E5|", quick=True),
            Variant("reactant-iff-positive", MOD, "_create_sbml_reactions", "if factor < 0 else", "if factor > 0 else", expect="E4|", quick=True),
            Variant("computed-as-reactant", MOD, "_create_sbml_reactions", "sref = sbml_rxn.createProduct()\n                    sref.setId", "sref = sbml_rxn.createReactant()\n                    sref.setId", expect="E4|"),
            Variant("species-id-raw", MOD, "_create_sbml_variables", "cpd.setId(_convert_id_to_sbml(id_=name, prefix='CPD'))", "cpd.setId(name)", expect="E3|", quick=True),
            Variant("ia-symbol-wrong-prefix", MOD, "_create_sbml_variables", "ar.setSymbol(_convert_id_to_sbml(id_=name, prefix='CPD'))", "ar.setSymbol(_convert_id_to_sbml(id_=name, prefix='IA'))", expect="E3|"),
            Variant("set-variable-on-initial-assignment", MOD, "_create_sbml_parameters", "ar.setSymbol(", "ar.setVariable(", expect="E6|", quick=True),
            Variant("remainder-unary", MOD, "", "'abs': libsbml.AST_FUNCTION_ABS,", "'abs': libsbml.AST_FUNCTION_ABS, 'remainder': libsbml.AST_FUNCTION_REM,", expect="E5|"),
            Variant("log-is-log10", MOD, "", "'log': libsbml.AST_FUNCTION_LN", "'log': libsbml.AST_FUNCTION_LOG", expect="E5|"),
            Variant("no-arity-check", MOD, "_convert_known_call", "        if len(node.args) != 1:\n            msg = f'{func} with {len(node.args)} arguments'\n            raise NotImplementedError(msg)\n", "", expect="E1|") ,
            Variant("binop-default-times", MOD, "_convert_binop", "        case _:\n            raise NotImplementedError(type(node.op))", "        case _:\n            op = libsbml.AST_TIMES", expect="E1|"),
            Variant("lt-is-leq", MOD, "_convert_relation", "case ast.Lt():\n            typ = libsbml.AST_RELATIONAL_LT", "case ast.Lt():\n            typ = libsbml.AST_RELATIONAL_LEQ", expect="E5|"),
        ]

    def must_stay_silent(self):
        return [
            Variant("rename-links", MOD, "_convert_compare", r"\blinks\b", "relations", count=0, regex=True, quick=True),
        ]


CHECK = C08
