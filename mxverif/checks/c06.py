"""C06 - Python -> sympy translation is sound or refuses: translator structure (DESIGN 4/C06, S1-S9)."""

from __future__ import annotations

import ast

from ..core import AnalysisError, Check, Scope, dotted, nary_index_problems, norm, strip_docstring, walk_no_nested
from ..dispatch import applied_args, operator_table, classify_body, if_chain, isinstance_kinds, match_dispatch, sequential_chain
from ..variants import Variant

MOD = "meta/source_tools.py"
REFUSES = {"raise", "return-none"}

# Reference meanings (S7).  key -> accepted sympy attribute names.  One line of reason per non-obvious entry.
REFERENCE_FNS = {
    "abs": {"Abs"}, "min": {"Min"}, "max": {"Max"}, "pow": {"Pow"},
    "math.acos": {"acos"}, "math.acosh": {"acosh"}, "math.asin": {"asin"}, "math.asinh": {"asinh"}, "math.atan": {"atan"},
    "math.atan2": {"atan2"}, "math.atanh": {"atanh"}, "math.cbrt": {"cbrt"}, "math.ceil": {"ceiling"}, "math.cos": {"cos"},
    "math.cosh": {"cosh"}, "math.erf": {"erf"}, "math.erfc": {"erfc"}, "math.exp": {"exp"}, "math.factorial": {"factorial"},
    "math.floor": {"floor"}, "math.gamma": {"gamma"}, "math.gcd": {"gcd"}, "math.lcm": {"lcm"}, "math.log": {"log"},
    "math.pow": {"Pow"}, "math.prod": {"prod"}, "math.radians": {"rad"}, "math.sin": {"sin"}, "math.sinh": {"sinh"},
    "math.sqrt": {"sqrt"}, "math.tan": {"tan"}, "math.tanh": {"tanh"},
    "math.remainder": set(),  # IEEE remainder (round-half-even quotient); sympy has no counterpart, sympy.rem is polynomial division
    "math.trunc": {"trunc"},  # sympy.trunc is polynomial truncation: with one argument it raises -> refusal, never a wrong value
    "np.abs": {"Abs"}, "np.absolute": {"Abs"}, "np.acos": {"acos"}, "np.acosh": {"acosh"}, "np.asin": {"asin"}, "np.asinh": {"asinh"},
    "np.atan": {"atan"}, "np.atanh": {"atanh"}, "np.atan2": {"atan2"}, "np.pow": {"Pow"}, "np.add": {"Add"}, "np.arccos": {"acos"},
    "np.arccosh": {"acosh"}, "np.arcsin": {"asin"}, "np.arcsinh": {"asinh"}, "np.arctan2": {"atan2"}, "np.arctan": {"atan"},
    "np.arctanh": {"atanh"}, "np.cbrt": {"cbrt"}, "np.ceil": {"ceiling"}, "np.conjugate": {"conjugate"}, "np.cos": {"cos"},
    "np.cosh": {"cosh"}, "np.exp": {"exp"}, "np.floor": {"floor"}, "np.gcd": {"gcd"}, "np.lcm": {"lcm"}, "np.log": {"log"},
    "np.greater": {"StrictGreaterThan", "Gt"},  # x > y, not x >= y
    "np.greater_equal": {"GreaterThan", "Ge"}, "np.less": {"StrictLessThan", "Lt"}, "np.less_equal": {"LessThan", "Le"},
    "np.maximum": {"Max"}, "np.minimum": {"Min"},  # sympy.maximum/minimum are calculus helpers (f, symbol, domain)
    "np.mod": {"Mod"}, "np.power": {"Pow"}, "np.sign": {"sign"}, "np.sin": {"sin"}, "np.sinh": {"sinh"}, "np.sqrt": {"sqrt"},
    "np.tan": {"tan"}, "np.tanh": {"tanh"}, "np.trunc": {"trunc"},
    "np.positive": set(),  # +x; Abs is wrong for negative arguments
    "np.invert": set(),  # bitwise not; sympy.invert is the modular inverse
}
# Entries whose sympy counterpart equals the Python function on numbers only (S12): applied to symbols they mean something else.
NUMERIC_ONLY = {
    "math.cbrt": "x**(1/3) is the principal complex root: cbrt(-8.0) is -2.0, the expression evaluates to 1+1.73j",
    "np.cbrt": "x**(1/3) is the principal complex root: cbrt(-8.0) is -2.0, the expression evaluates to 1+1.73j",
    "math.atan2": "atan2(0, 0) is 0.0 in Python and nan in sympy", "np.atan2": "atan2(0, 0) is 0.0 in numpy and nan in sympy",
    "np.arctan2": "arctan2(0, 0) is 0.0 in numpy and nan in sympy",
    "math.gcd": "gcd of two symbols is the polynomial gcd, 1", "np.gcd": "gcd of two symbols is the polynomial gcd, 1",
    "math.lcm": "lcm of two symbols is the polynomial lcm, x*y", "np.lcm": "lcm of two symbols is the polynomial lcm, x*y",
    "math.trunc": "sympy.trunc is polynomial truncation", "np.trunc": "sympy.trunc is polynomial truncation",
}
REFERENCE_CONSTANTS = {
    "math.e": "sympy.E", "math.pi": "sympy.pi", "math.nan": "sympy.nan", "math.tau": "sympy.pi * 2", "math.inf": "sympy.oo",
    "np.e": "sympy.E", "np.pi": "sympy.pi", "np.nan": "sympy.nan", "np.inf": "sympy.oo",
}
ALLOWED_EFFECT_FREE = {"Pass", "Expr?", "Import", "ImportFrom"}


OPERATOR_FN = {"operator.gt": "{a} > {b}", "operator.ge": "{a} >= {b}", "operator.lt": "{a} < {b}", "operator.le": "{a} <= {b}",
               "operator.eq": "{a} == {b}", "operator.ne": "{a} != {b}", "sympy.Eq": "sympy.Eq({a}, {b})", "sympy.Ne": "sympy.Ne({a}, {b})",
               "sympy.Gt": "{a} > {b}", "sympy.Ge": "{a} >= {b}", "sympy.Lt": "{a} < {b}", "sympy.Le": "{a} <= {b}",
               "sympy.StrictGreaterThan": "{a} > {b}", "sympy.GreaterThan": "{a} >= {b}", "sympy.StrictLessThan": "{a} < {b}", "sympy.LessThan": "{a} <= {b}"}


def compare_links(mod, he: ast.FunctionDef):
    """The comparison-chain translation of _handle_expr in canonical form.

    -> (links, default, anchor): links = {operator kind: expression over PREV / RIGHT}, default = what happens to an operator
    kind that is not handled ("raise", "continue", "pass", ..), anchor = node.  Understands an isinstance chain on the operator
    and a lookup in a module-level {ast.<Op>: callable} table.  None when the loop over the links is not found."""
    loops = [l for l in walk_no_nested(he) if isinstance(l, ast.For) and "node.ops" in norm(l.iter) and "node.comparators" in norm(l.iter)
             and isinstance(l.target, ast.Tuple) and len(l.target.elts) == 2]
    if not loops:
        return None
    lp = loops[0]
    opv, cmpv = norm(lp.target.elts[0]), norm(lp.target.elts[1])

    def unwrap(e):
        while isinstance(e, ast.Call) and norm(e.func) == "cast" and len(e.args) == 2:
            e = e.args[1]
        return e

    right = prev = None
    for s in lp.body:
        if isinstance(s, ast.Assign) and isinstance(s.targets[0], ast.Name):
            v = unwrap(s.value)
            if isinstance(v, ast.Call) and norm(v.func) == "_handle_expr" and v.args and norm(v.args[0]) == cmpv:
                right = s.targets[0].id
    last = lp.body[-1]
    if right and isinstance(last, ast.Assign) and isinstance(last.targets[0], ast.Name) and norm(last.value) == right:
        prev = last.targets[0].id
    # prev must start as the translation of node.left
    sc = Scope(he)
    init_ok = False
    if prev:
        for s in walk_no_nested(he):
            if isinstance(s, ast.Assign) and norm(s.targets[0]) == prev and s is not last:
                v = unwrap(s.value)
                init_ok = isinstance(v, ast.Call) and norm(v.func) == "_handle_expr" and v.args and norm(v.args[0]) == "node.left"
    if not (right and prev and init_ok):
        return {}, "roles-not-recognised", lp

    def canon(e: ast.AST) -> str:
        class R(ast.NodeTransformer):
            def visit_Name(self, n):
                return ast.Name(id={prev: "PREV", right: "RIGHT"}.get(n.id, n.id), ctx=n.ctx)
        import copy as _c
        return norm(R().visit(_c.deepcopy(e)))

    links: dict[str, str] = {}
    default = "none"
    # (a) isinstance chain on the operator
    chain = [n for n in lp.body if isinstance(n, ast.If) and isinstance_kinds(n.test)]
    if chain:
        d = if_chain(chain[0])
        default = classify_body(d.default) if d.default else "none"
        cur = chain[0]
        while True:
            r = isinstance_kinds(cur.test)
            if r:
                app = [c for c in ast.walk(ast.Module(body=cur.body, type_ignores=[])) if isinstance(c, ast.Call) and isinstance(c.func, ast.Attribute) and c.func.attr == "append" and c.args]
                for k in r[1]:
                    links[k] = canon(app[0].args[0]) if app else "?"
            if len(cur.orelse) == 1 and isinstance(cur.orelse[0], ast.If):
                cur = cur.orelse[0]
            else:
                break
        return links, default, chain[0]
    # (b) table lookup
    for n in ast.walk(lp):
        tbl = key = None
        if isinstance(n, ast.Call) and isinstance(n.func, ast.Attribute) and n.func.attr == "get" and isinstance(n.func.value, ast.Name) and len(n.args) == 1:
            tbl, key, how = n.func.value.id, n.args[0], "get"
        elif isinstance(n, ast.Subscript) and isinstance(n.value, ast.Name) and isinstance(n.ctx, ast.Load):
            tbl, key, how = n.value.id, n.slice, "index"
        if tbl is None or norm(key) != f"type({opv})" or tbl not in mod.assigns or not isinstance(mod.assigns[tbl], ast.Dict):
            continue
        table = mod.assigns[tbl]
        # the looked-up callable and where it is applied
        sc_ = Scope(he)
        st_ = sc_.stmt_of(n)
        rel = None
        if isinstance(st_, ast.Assign) and isinstance(st_.targets[0], ast.Name):
            rel = st_.targets[0].id
        for w in ast.walk(st_):
            if isinstance(w, ast.NamedExpr) and w.value is n:
                rel = w.target.id
        app = [c for c in ast.walk(lp) if isinstance(c, ast.Call) and isinstance(c.func, ast.Attribute) and c.func.attr == "append" and c.args]
        applied = None
        for c in app:
            a0 = c.args[0]
            if isinstance(a0, ast.Call) and len(a0.args) == 2 and (norm(a0.func) == rel or a0.func is n):
                applied = (canon(a0.args[0]), canon(a0.args[1]))
        if applied is None:
            return {}, "application-not-recognised", lp
        for kx, vx in zip(table.keys, table.values):
            kind = norm(kx).split(".")[-1]
            form = OPERATOR_FN.get(norm(vx))
            if form is None and isinstance(vx, ast.Lambda) and len(vx.args.args) == 2:
                a_, b_ = vx.args.args[0].arg, vx.args.args[1].arg
                class L(ast.NodeTransformer):
                    def visit_Name(self, m):
                        return ast.Name(id={a_: applied[0], b_: applied[1]}.get(m.id, m.id), ctx=m.ctx)
                import copy as _c
                links[kind] = norm(L().visit(_c.deepcopy(vx.body)))
                continue
            links[kind] = form.format(a=applied[0], b=applied[1]) if form else f"{norm(vx)}({applied[0]}, {applied[1]})"
        if how == "index":
            default = "raise"  # KeyError
        else:
            # `.get(..) is None -> raise`
            default = "none"
            for g in ast.walk(lp):
                if isinstance(g, ast.If) and any(isinstance(x, ast.Raise) for x in g.body):
                    t = norm(g.test)
                    if rel and (t == f"{rel} is None" or t.endswith(f"{rel} := {norm(n)}) is None") or t == f"({rel} := {norm(n)}) is None"):
                        default = "raise"
        return links, default, n
    return {}, "dispatch-not-recognised", lp


class C06(Check):
    pid = "C06"
    title = "Python-to-symbolic translation is sound: equal everywhere, or refused"
    rules = {
        "S1": "refusal on the unknown: the default branch of every dispatcher of the translator (statement kinds, expression kinds, "
              "operator chains, callee shapes) refuses (raises one of the exceptions fn_to_sympy converts to None, or returns None); "
              "only effect-free statements (docstring, pass, imports) may be passed over",
        "S2": "every field consumed: handlers do not read list-valued node fields through a constant index or ignore them "
              "(Compare.ops/comparators, Call.keywords / starred arguments, Assign.targets, tuple targets) without a length test or refusal",
        "S3": "relational operators build relations: == / != map to sympy.Eq / sympy.Ne, never to Python's structural ==",
        "S4": "branch isolation: alternative branches of a conditional are translated with distinct fresh copies of the symbol table",
        "S5": "fall-through: a branch that does not return continues into the statements after the conditional; the "
              "'last assigned variable' fallback never supplies the value of a branch",
        "S6": "argument renaming is simultaneous (subs(..., simultaneous=True) / xreplace), not sequential",
        "S7": "vetted tables: every KNOWN_FNS / KNOWN_CONSTANTS entry whose key is in the reference table maps to a semantically equal sympy object",
        "S8": "failure is visible: the translator converts only its declared refusal exceptions to None (with a warning); every call site of "
              "fn_to_sympy on a claimed path tests the result for None (or uses it arithmetically) before formatting/storing it",
        "S10": "presence tests: a value fetched from the symbol table (ctx.symbols.get / lookup results) is tested with `is None` / "
               "`in`, never by truthiness - a translated value can be a falsy sympy zero, which a truthiness test mistakes for 'absent'",
        "S11": "operator semantics: every handled Python operator is translated by the same operator applied to the translated operands "
               "(+ - * / ** % // ; unary + -; comparison ops), and `a if c else b` becomes Piecewise((a, c), (b, True))",
        "S9": "tuple assignment evaluates all right-hand sides before binding any target",
        "S12": "numbers only: the value of a KNOWN_FNS hit is returned through sympy.Float(..), which refuses anything that is not a number - or else "
               "the table holds no entry whose sympy counterpart equals the Python function on numbers only (cbrt, atan2, gcd, lcm, trunc)",
        "S14": "merge of two fall-through branches: a name bound in both becomes Piecewise((if-value, condition), (else-value, True)) unless the values "
               "are identical; a name bound in only one of them is dropped (using it later fails instead of silently taking one branch's value)",
        "S13": "augmented assignment, where handled, is `target = target <op> value` with the OLD value of the target as the LEFT operand",
    }
    floors = {"S1": 6, "S2": 3, "S3": 2, "S4": 1, "S5": 2, "S6": 1, "S7": 60, "S8": 8, "S9": 1, "S10": 3, "S11": 12, "S12": 1, "S13": 1, "S14": 1}
    decided = [
        "constructs outside the supported subset make the translation fail visibly instead of being skipped",
        "conditionals: branches cannot see each other's assignments; code after an if/else is applied to every branch",
        "renaming arguments onto model names is a simultaneous substitution",
        "== and != stay symbolic; table entries mean what their Python counterparts mean",
    ]
    undecided = [
        "semantic equality of the handled constructs (sympy Piecewise / Mod / floor division vs CPython, behaviour at branch boundaries)",
        "resolution of names through modules/classes at translation time (uses runtime introspection)",
    ]
    assumptions = ["sympy.Expr.subs is sequential unless simultaneous=True; sympy.Float(expr) rejects non-numbers"]

    # ------------------------------------------------------------------
    def run(self) -> None:
        mod = self.prog.module(MOD)
        entry = mod.func("fn_to_sympy")
        # locate the statement walker and expression dispatcher by role
        walker = None
        for name, fn in mod.functions.items():
            for n in walk_no_nested(fn):
                if isinstance(n, ast.If):
                    d = if_chain(n)
                    if d and {"If", "Return"} <= d.kinds | {k for b in d.branches for k in b[0]}:
                        walker = (name, fn, n)
                    elif d and "If" in d.kinds:
                        # sequential style: `if isinstance(node, ast.If): ...` then further ifs
                        seq = sequential_chain(_block_of(fn, n), d.var)
                        if {"If", "Return"} <= seq.kinds | {"If"} and any("Return" in b[0] for b in seq.branches + self._chains_after(fn, n, d.var)):
                            walker = (name, fn, n)
        if walker is None:
            raise AnalysisError("statement walker of the translator not found")
        wname, wfn, wnode = walker
        self.analysed = {"statement_walker": wname}
        self.s1_statements(wname, wfn)
        self.s1_expressions(mod)
        self.s2(mod, wname, wfn)
        self.s3(mod)
        self.s45(mod, wname, wfn)
        self.s6(entry)
        self.s6_module(mod)
        # the consumers of the translator (code generators, symbolic model) rename arguments too when they are restructured: same rule there
        for rel_ in ("meta/codegen_model.py", "meta/codegen_mxlpy.py", "meta/sympy_tools.py", "symbolic/symbolic_model.py"):
            if rel_ in self.prog.sources:
                self.s6_module(self.prog.module(rel_), rel_)
        self.s7(mod)
        self.s12(mod)
        self.s13(mod, wname, wfn)
        self.s14(mod, wname, wfn)
        self.s8(mod, entry)
        self.s10(mod)
        self.s11(mod)

    def _chains_after(self, fn, node, var):
        out = []
        for s in _block_of(fn, node):
            if isinstance(s, ast.If):
                d = if_chain(s, var)
                if d:
                    out.extend(d.branches)
        return out

    # ---- S1 statements
    def s1_statements(self, wname, wfn) -> None:
        # all isinstance branches on the statement variable inside the walker's loop body
        var = None
        block = None
        for n in walk_no_nested(wfn):
            if isinstance(n, ast.If):
                r = isinstance_kinds(n.test)
                if r and "If" in r[1]:
                    var, block = r[0], _block_of(wfn, n)
        if var is None:
            raise AnalysisError(f"{wname}: statement dispatch not found")
        branches = []
        default = None
        default_node = None
        for s in block:
            if isinstance(s, ast.If):
                d = if_chain(s, var)
                if d:
                    branches.extend(d.branches)
                    if d.default is not None:
                        default, default_node = d.default, d.default_node
        handled = set()
        for kinds, body, node in branches:
            handled |= kinds
        self.analysed["statement_kinds_handled"] = sorted(handled)
        if default is None:
            self.violated("S1", MOD, wname, "statement-default", block[0],
                          "the statement dispatcher has no default branch: an unknown statement kind falls out of the chain and is skipped",
                          witness="def f(x): y = x; y += 1; return y  translates to x")
        else:
            what = classify_body(default)
            if what in REFUSES:
                self.holds("S1", MOD, wname, "statement-default", default_node, f"unknown statement kinds -> {what}")
            else:
                self.violated("S1", MOD, wname, "statement-default", default_node,
                              f"unknown statement kinds are passed over ({what}): a statement that changes the value (augmented assignment, loop, "
                              "del, nested def) is silently ignored",
                              witness="def f(x): y = x; y += 1; return y  translates to x instead of failing")
        for kinds, body, node in branches:
            what = classify_body(body)
            if what in ("continue", "pass", "log-only"):
                bad = kinds - ALLOWED_EFFECT_FREE
                cons = f"skipped-kinds {sorted(kinds)}"
                if bad:
                    self.violated("S1", MOD, wname, cons, node, f"statement kinds {sorted(bad)} are passed over although they can change the function's value")
                else:
                    self.holds("S1", MOD, wname, cons, node, "only effect-free statements are passed over")

    # ---- S1 expressions / operators / callee shapes
    def s1_expressions(self, mod) -> None:
        he = mod.func("_handle_expr")
        var = he.args.args[0].arg
        seq = sequential_chain(strip_docstring(he.body), var)
        what = classify_body(seq.default or [])
        self.analysed["expression_kinds_handled"] = sorted(seq.kinds)
        if what in REFUSES and seq.default:
            self.holds("S1", MOD, "_handle_expr", "expression-default", seq.default_node, f"unknown expression kinds -> {what}")
        else:
            self.violated("S1", MOD, "_handle_expr", "expression-default", seq.default_node or he,
                          f"an unknown expression kind is not refused ({what})",
                          witness="a rate law using a subscript / boolean operator / lambda is translated to something else")
        for name, fn in mod.functions.items():
            for n in walk_no_nested(fn):
                if isinstance(n, ast.Match):
                    d = match_dispatch(n)
                    cons = f"match {d.var}"
                    if d.default is None:
                        self.violated("S1", MOD, name, cons, n, f"`match {d.var}` has no wildcard case: an unhandled shape falls through silently")
                    else:
                        what = classify_body(d.default)
                        if what in REFUSES:
                            self.holds("S1", MOD, name, cons, n, f"unhandled {d.var} -> {what}")
                        else:
                            self.violated("S1", MOD, name, cons, n, f"unhandled `{d.var}` shapes are not refused ({what})",
                                          witness="an operator without a translation (e.g. `~x`, `x @ y`, `x << 1`) yields an expression")
        # operator dispatch in the Compare handler
        cl = compare_links(mod, he)
        if cl is None or not cl[0]:
            self.undecided_ob("S1", MOD, "_handle_expr", "comparison-operators", he, f"comparison operator dispatch not recognised ({cl[1] if cl else 'no loop over the links'})")
        else:
            links, what, anchor = cl
            if what in REFUSES:
                self.holds("S1", MOD, "_handle_expr", "comparison-operators", anchor, f"operators handled: {sorted(links)}; others -> {what}")
            else:
                self.violated("S1", MOD, "_handle_expr", "comparison-operators", anchor,
                              f"comparison operators other than {sorted(links)} are dropped from the chain instead of refused",
                              witness="`k if x is y else 0` / `a < b in c`: the unknown link disappears, the condition means something else")

    # ---- S2
    def s2(self, mod, wname, wfn) -> None:
        he = mod.func("_handle_expr")
        zips = [n for n in walk_no_nested(he) if isinstance(n, ast.Call) and norm(n.func) == "zip" and "node.ops" in norm(n) and "node.comparators" in norm(n)]
        idx = [n for n in walk_no_nested(he) if isinstance(n, ast.Subscript) and norm(n.value) in ("node.ops", "node.comparators") and isinstance(n.slice, ast.Constant)]
        if zips and not idx:
            self.holds("S2", MOD, "_handle_expr", "compare-all-links", zips[0], "every (op, comparator) link of a comparison chain is consumed")
        else:
            self.violated("S2", MOD, "_handle_expr", "compare-all-links", idx[0] if idx else he, "a comparison chain is read through a constant index: later links are ignored",
                          witness="`k if 0 < x < 2 else 0` keeps only `0 < x`")
        hc = mod.func("_handle_call")
        sc = Scope(hc)
        kw_tests = [n for n in walk_no_nested(hc) if isinstance(n, ast.If) and "node.keywords" in norm(n.test) and classify_body(n.body) in REFUSES]
        starred = any("Starred" in norm(n.test) for n in kw_tests)
        if kw_tests:
            self.holds("S2", MOD, "_handle_call", "call-keywords", kw_tests[0], "calls with keyword" + (" / starred" if starred else "") + " arguments are refused")
        else:
            self.violated("S2", MOD, "_handle_call", "call-keywords", hc, "Call.keywords is never looked at: keyword arguments of a nested call are dropped",
                          witness="helper(x, k=y) is translated as helper(x)")
        tgt_guard = [n for n in walk_no_nested(wfn) if isinstance(n, ast.If) and "len(node.targets)" in norm(n.test) and classify_body(n.body) in REFUSES]
        if tgt_guard:
            self.holds("S2", MOD, wname, "assign-targets", tgt_guard[0], "chained assignment targets are refused before targets[0] is used")
        else:
            self.violated("S2", MOD, wname, "assign-targets", wfn, "Assign.targets is read through targets[0] without a length test: `a = b = expr` binds only `a`",
                          witness="def f(x): a = b = x * 2; return b  -> KeyError / stale b")
        tup = [n for n in walk_no_nested(wfn) if isinstance(n, ast.If) and "ast.Tuple" in norm(n.test) and "ast.Name" in norm(n.test) and classify_body(n.body) in REFUSES]
        if tup:
            self.holds("S2", MOD, wname, "tuple-targets", tup[0], "tuple targets must all be names assigned from a tuple, else refused")
        else:
            self.violated("S2", MOD, wname, "tuple-targets", wfn, "tuple assignment silently skips targets that are not names / values that are not tuples",
                          witness="def f(x, y): x, y = swap(x, y); return x  uses the stale argument symbol")
        # generic: no list-valued node field is read through a constant index without a length test (covers handlers added later)
        n_reads = 0
        for fname, f in mod.functions.items():
            if "." in fname:
                continue
            bad, good = nary_index_problems(f, mod)
            n_reads += len(bad) + len(good)
            for n, fld in {f_: (n_, f_) for n_, f_ in reversed(bad)}.values():
                self.violated("S2", MOD, fname, f"indexed-field {fld}", n, f"`{norm(n)}` reads `{fld}` through a constant index and nothing in {fname} tests its length: "
                              "further elements are dropped without the translation failing", witness="`a and b and c` / `x = y = e` / f(a, b, c): only the indexed elements reach the expression")
            for fld in sorted({fld for _, fld in good}):
                n0 = [n for n, f_ in good if f_ == fld][0]
                self.holds("S2", MOD, fname, f"indexed-field {fld}", n0, "constant-index reads are preceded by a length test that refuses other lengths")
        self.analysed["constant_index_reads_of_list_fields"] = n_reads
        # S9 evaluate-then-bind
        loops = [n for n in walk_no_nested(wfn) if isinstance(n, ast.For) and "target_elements" in norm(n.iter)]
        ok = False
        for lp in loops:
            evals = [c for c in ast.walk(lp) if isinstance(c, ast.Call) and norm(c.func) == "_handle_expr"]
            binds = [s for s in ast.walk(lp) if isinstance(s, ast.Assign) and norm(s.targets[0]).startswith("ctx.symbols[")]
            if binds and not evals:
                ok = True
        if ok:
            self.holds("S9", MOD, wname, "tuple-evaluate-then-bind", loops[0], "all right-hand sides are translated before any target is bound")
        else:
            self.violated("S9", MOD, wname, "tuple-evaluate-then-bind", loops[0] if loops else wfn,
                          "tuple assignment binds each target right after translating its value: later values see earlier targets",
                          witness="def f(x, y): x, y = y, x; return x - y  translates to 0")

    # ---- S3
    def s3(self, mod) -> None:
        he = mod.func("_handle_expr")
        for op, rel in (("Eq", "sympy.Eq"), ("NotEq", "sympy.Ne")):
            br = [n for n in walk_no_nested(he) if isinstance(n, ast.If) and isinstance_kinds(n.test) and isinstance_kinds(n.test)[1] == {op}]
            if not br:
                self.holds("S3", MOD, "_handle_expr", f"relation-{op}", he, f"`{op}` is not handled (refused by the operator default)")
                continue
            t = norm(br[0].body[0])
            if f"{rel}(" in t:
                self.holds("S3", MOD, "_handle_expr", f"relation-{op}", br[0], f"{op} -> {rel}(..)")
            else:
                self.violated("S3", MOD, "_handle_expr", f"relation-{op}", br[0], f"`{t}` evaluates Python's structural {'==' if op == 'Eq' else '!='} on symbolic operands: it folds to a constant",
                              witness="def f(x): return 1.0 if x == 1 else 2.0  translates to 2.0")

    # ---- S4 / S5
    def s45(self, mod, wname, wfn) -> None:
        ifs = [n for n in walk_no_nested(wfn) if isinstance(n, ast.If) and isinstance_kinds(n.test) and "If" in isinstance_kinds(n.test)[1]]
        hb = ifs[0]
        rec = [c for c in ast.walk(hb) if isinstance(c, ast.Call) and norm(c.func) in (wname, "_handle_fn_body", "_handle_block")]
        if len(rec) < 2:
            raise AnalysisError(f"{wname}: recursive branch translations not found")
        ctx_args = []
        for c in rec:
            a = c.args[1] if len(c.args) > 1 else {k.arg: k.value for k in c.keywords}.get("ctx")
            ctx_args.append(norm(a))
        # resolve local names to their definitions
        defs = {}
        for s in ast.walk(hb):
            if isinstance(s, ast.Assign) and isinstance(s.targets[0], ast.Name):
                defs[s.targets[0].id] = norm(s.value)
        resolved = [defs.get(a, a) for a in ctx_args]
        fresh = [("dict(ctx.symbols)" in r or "copy" in r or ".copy()" in r) and "ctx.updated(" in r or "deepcopy" in r for r in resolved]
        distinct = len(set(ctx_args)) == len(ctx_args)
        if all(fresh) and distinct:
            self.holds("S4", MOD, wname, "branch-contexts", rec[0], f"branches use {ctx_args}, each a fresh copy of the symbols")
        else:
            self.violated("S4", MOD, wname, "branch-contexts", rec[0],
                          f"alternative branches are translated with context(s) {ctx_args} -> {resolved}: they share one symbol table, so an "
                          "assignment in one branch is visible in the other and in the code after the conditional",
                          witness="if x > 0: y = 2*x / else: y = x / return y + 1  ->  Piecewise((2x, x>0), (x, True)) or mixes the branches' y")
        body_args = [norm(c.args[0]) for c in rec]
        # what follows a branch body is exactly the statements after the conditional: <statements>[<index of the conditional> + 1:]
        from ..core import expand_locals, single_defs

        defs5 = single_defs(wfn, anywhere=True)
        enum = [l for l in ast.walk(wfn) if isinstance(l, ast.For) and isinstance(l.iter, ast.Call) and norm(l.iter.func) == "enumerate" and isinstance(l.target, ast.Tuple) and len(l.target.elts) == 2]
        idxv = norm(enum[0].target.elts[0]) if enum else "idx"
        seqv = norm(enum[0].iter.args[0]) if enum and enum[0].iter.args else "body"
        tails = {f"{seqv}[{idxv} + 1:]", f"{seqv}[1 + {idxv}:]", f"list({seqv}[{idxv} + 1:])"}

        def continues(call):
            a = call.args[0]
            parts = []
            if isinstance(a, (ast.List, ast.Tuple)):
                parts = [x.value if isinstance(x, ast.Starred) else x for x in a.elts]
            elif isinstance(a, ast.BinOp) and isinstance(a.op, ast.Add):
                parts = [a.left, a.right]
            return bool(parts) and norm(expand_locals(parts[-1], defs5, depth=2)) in tails

        cont = all(continues(c) for c in rec)
        if cont:
            self.holds("S5", MOD, wname, "branches-continue-into-rest", rec[0], f"branch bodies are translated together with the statements after the conditional: {body_args}")
        else:
            self.violated("S5", MOD, wname, "branches-continue-into-rest", rec[0],
                          f"branch bodies {body_args} are translated on their own: a branch that does not return takes the value of its last assignment, "
                          "and code after the conditional is not applied to it",
                          witness="if a > 1: b = a / else: b = a**2 / return b * 2  ->  Piecewise((a, a>1), (a**2, True))")
        fb = [n for n in walk_no_nested(wfn) if isinstance(n, ast.For) and "reversed(body)" in norm(n.iter)]
        if not fb:
            self.holds("S5", MOD, wname, "no-last-assignment-fallback-in-branches", wfn, "the branch translator has no 'last assigned variable' fallback")
        else:
            self.violated("S5", MOD, wname, "no-last-assignment-fallback-in-branches", fb[0],
                          "the function that translates branches falls back to the last assigned variable when a block has no return",
                          witness="if x > 0: y = 2*x / return y + 1  ->  Piecewise((2x, x>0), (2x+1, True))")

    # ---- S6
    def s6(self, entry) -> None:
        subs = [c for c in ast.walk(entry) if isinstance(c, ast.Call) and isinstance(c.func, ast.Attribute) and c.func.attr in ("subs", "xreplace")]
        if not subs:
            self.undecided_ob("S6", MOD, "fn_to_sympy", "argument-renaming", entry, "argument substitution not found")
            return
        c = subs[0]
        kw = {k.arg: norm(k.value) for k in c.keywords}
        if c.func.attr == "xreplace" or kw.get("simultaneous") == "True":
            self.holds("S6", MOD, "fn_to_sympy", "argument-renaming", c, "simultaneous substitution")
        else:
            self.violated("S6", MOD, "fn_to_sympy", "argument-renaming", c, f"`{norm(c)[:70]}` substitutes sequentially: overlapping old/new names are mixed up",
                          witness="f(x, y) = x - y with model_args [y, x] translates to 0")

    def s6_module(self, mod, rel: str = MOD) -> None:
        """every multi-name substitution anywhere in the translator is simultaneous"""
        n_mod = 0
        for fname, f in mod.functions.items():
            for c in walk_no_nested(f):
                if not (isinstance(c, ast.Call) and isinstance(c.func, ast.Attribute) and c.func.attr == "subs"):
                    continue
                if fname == "fn_to_sympy" and any(o.rule == "S6" and o.construct == "argument-renaming" and o.line == getattr(c, "_orig_lineno", c.lineno) for o in self.obs):
                    continue
                kw = {k.arg: norm(k.value) for k in c.keywords}
                if len(c.args) >= 2 or kw.get("simultaneous") == "True":
                    continue  # a single (old, new) pair cannot interfere with itself
                n_mod += 1
                self.violated("S6", rel, fname, f"substitution {norm(c.args[0])[:40] if c.args else ''}", c,
                              f"`{norm(c)[:80]}` substitutes several names sequentially: when a replacement mentions a name that is replaced later, the result is mixed up",
                              witness="ratio(a, b) = a/(1+b) called as ratio(b, a) translates to a/(a+1)")

        if rel != MOD and n_mod == 0:
            self.holds("S6", rel, "<module>", "substitutions", mod.tree, "no sequential multi-name substitution in this module")

    # ---- S7
    def s7(self, mod) -> None:
        tbl = mod.const("KNOWN_FNS")
        if not isinstance(tbl, ast.Dict):
            raise AnalysisError("KNOWN_FNS is not a dict literal")
        for k, v in zip(tbl.keys, tbl.values):
            key, val = norm(k), norm(v)
            cons = f"KNOWN_FNS[{key}]"
            if key not in REFERENCE_FNS:
                self.info("S7", MOD, "KNOWN_FNS", cons, k, f"unvetted entry -> {val}")
                continue
            ok = REFERENCE_FNS[key]
            if val.split(".")[-1] in ok:
                self.holds("S7", MOD, "KNOWN_FNS", cons, k, f"-> {val}")
            else:
                self.violated("S7", MOD, "KNOWN_FNS", cons, k, f"{key} is mapped to {val}, which is a different function" +
                              (f" (accepted: {sorted(ok)})" if ok else " (sympy has no counterpart: the entry must be absent so that the call is refused)"),
                              witness=f"a rate law calling {key} with constant arguments translates to a different number")
        ct = mod.const("KNOWN_CONSTANTS")
        for k, v in zip(ct.keys, ct.values):
            key, val = norm(k), norm(v)
            if key in REFERENCE_CONSTANTS:
                if val == REFERENCE_CONSTANTS[key]:
                    self.holds("S7", MOD, "KNOWN_CONSTANTS", f"KNOWN_CONSTANTS[{key}]", k, f"-> {val}")
                else:
                    self.violated("S7", MOD, "KNOWN_CONSTANTS", f"KNOWN_CONSTANTS[{key}]", k, f"{key} is mapped to {val} instead of {REFERENCE_CONSTANTS[key]}")
            else:
                self.info("S7", MOD, "KNOWN_CONSTANTS", f"KNOWN_CONSTANTS[{key}]", k, f"unvetted -> {val}")

    # ---- S14
    def s14(self, mod, wname, wfn) -> None:
        """When neither branch of a conditional returns, a name bound in both is their Piecewise (or the common value), a name bound in only one
        is dropped."""
        from ..interp import Sym, SymInterp

        loops = [n for n in ast.walk(wfn) if isinstance(n, ast.For) and isinstance(n.target, ast.Name) and "_if" in norm(n.iter) and "_else" in norm(n.iter) and ".symbols" in norm(n.iter)]
        if not loops:
            self.undecided_ob("S14", MOD, wname, "branch-merge", wfn, "the loop merging the assignments of two fall-through branches was not found")
            return
        lp = loops[0]
        var = lp.target.id

        class I1(SymInterp):
            loop_unroll = 1

        o = I1().block(lp.body, [Sym()])
        paths = list(o.normal) + list(o.continues)
        import re as _re

        probs = []
        seen = {"one": 0, "same": 0, "differ": 0}
        for st in paths:
            stores = [(e[1], e[2]) for e in st.events if e[0] == "store" and e[1].endswith(f".symbols[{var}]") and not e[1].startswith(("ctx_if", "ctx_else"))]
            gets = sorted({m_ for c, _ in st.conds for m_ in _re.findall(r"(\w+)\.symbols\.get\(" + var + r"\)", c)})
            one_missing = [v for c, v in st.conds if "is None" in c and ".symbols.get(" in c]
            same = [v for c, v in st.conds if _re.match(r"^\w+\.symbols\.get\(\w+\) == \w+\.symbols\.get\(\w+\)$", c)] + \
                   [not v for c, v in st.conds if _re.match(r"^\w+\.symbols\.get\(\w+\) != \w+\.symbols\.get\(\w+\)$", c)]
            if one_missing and one_missing[0]:
                seen["one"] += 1
                if stores:
                    probs.append(f"a name bound in only one branch is kept as `{stores[0][1][:50]}`")
                continue
            if same and same[0]:
                seen["same"] += 1
                if len(stores) != 1 or not _re.match(r"^ctx_(if|else)\.symbols\.get\(" + var + r"\)$", stores[0][1]):
                    probs.append("a name with the same value in both branches does not keep that value")
                continue
            seen["differ"] += 1
            want = f"_piecewise(ctx_if.symbols.get({var}), condition, ctx_else.symbols.get({var}))"
            alt = f"sympy.Piecewise((ctx_if.symbols.get({var}), condition), (ctx_else.symbols.get({var}), True))"
            if len(stores) != 1 or stores[0][1] not in (want, alt):
                probs.append(f"a name with different values in the two branches becomes `{stores[0][1][:70] if stores else 'nothing'}` instead of Piecewise((if-value, condition), (else-value, True))")
        if not seen["differ"]:
            probs.append("no path merges different values of the two branches")
        # what the conditional as a whole yields: both branches fall through -> falls through (after the merge); both return -> Piecewise of the
        # two values; exactly one returns -> refused
        import itertools

        sc = Scope(wfn)
        # the two recursive translations of the branches, and what follows them in the same block
        rec_assigns = {}
        for a_ in ast.walk(wfn):
            if isinstance(a_, ast.Assign) and isinstance(a_.targets[0], ast.Name) and isinstance(a_.value, ast.Call) and norm(a_.value.func) == wname and a_.value.args:
                t0 = norm(a_.value.args[0])
                if "node.body" in t0:
                    rec_assigns["if"] = a_
                elif "node.orelse" in t0:
                    rec_assigns["else"] = a_
        host = None
        outer = lp
        IFV = ELV = None
        if len(rec_assigns) == 2:
            IFV, ELV = rec_assigns["if"].targets[0].id, rec_assigns["else"].targets[0].id
            last = max(rec_assigns.values(), key=lambda x: x.lineno)
            for p_, fld, child in sc.ancestors(last):
                body_ = getattr(p_, fld, None)
                if isinstance(body_, list) and last in body_:
                    host = body_[body_.index(last) + 1:]
                    outer = host[0] if host else lp
                    break
        if host is None:
            self.undecided_ob("S14", MOD, wname, "conditional-value", lp, "the statements deciding what a conditional yields were not found")
        else:
            o2 = I1().block(host, [Sym()])
            A, B = f"{IFV} is _NO_RETURN", f"{ELV} is _NO_RETURN"

            def holds_(cond_txt, a, b):
                try:
                    t = ast.parse(cond_txt, mode="eval").body
                except SyntaxError:
                    return None

                def ev(e):
                    tx = norm(e)
                    if tx == A:
                        return a
                    if tx == B:
                        return b
                    if tx == f"{IFV} is not _NO_RETURN":
                        return not a
                    if tx == f"{ELV} is not _NO_RETURN":
                        return not b
                    if isinstance(e, ast.Compare) and len(e.ops) == 1 and isinstance(e.ops[0], (ast.Eq, ast.NotEq, ast.Is, ast.IsNot)):
                        l_, r_ = ev(e.left), ev(e.comparators[0])
                        if l_ is None or r_ is None:
                            return None
                        return (l_ == r_) if isinstance(e.ops[0], (ast.Eq, ast.Is)) else (l_ != r_)
                    if isinstance(e, ast.BoolOp):
                        vals = [ev(x) for x in e.values]
                        if None in vals:
                            return None
                        return all(vals) if isinstance(e.op, ast.And) else any(vals)
                    if isinstance(e, ast.UnaryOp) and isinstance(e.op, ast.Not):
                        v = ev(e.operand)
                        return None if v is None else not v
                    return None
                return ev(t)

            cprobs = []
            n_ret = 0
            for st, _ in o2.returns:
                ret = next((e[1] for e in reversed(st.events) if e[0] == "return"), "")
                if ret == "None":
                    continue
                n_ret += 1
                feas = []
                for a, b in itertools.product((True, False), repeat=2):
                    ok = True
                    for c, v in st.conds:
                        h = holds_(c, a, b)
                        if h is not None and h != v:
                            ok = False
                    if ok:
                        feas.append((a, b))
                for a, b in feas:
                    if a and b:
                        if ret != "_NO_RETURN":
                            cprobs.append(f"both branches fall through but the conditional yields `{ret[:50]}`")
                    elif not a and not b:
                        if ret.replace(" ", "") not in (f"_piecewise({IFV},condition,{ELV})", f"sympy.Piecewise(({IFV},condition),({ELV},True))"):
                            cprobs.append(f"both branches return but the conditional yields `{ret[:60]}` instead of Piecewise((if-value, condition), (else-value, True))")
                    else:
                        cprobs.append(f"one branch returns and the other falls through, and the conditional still yields `{ret[:50]}`: one of the two outcomes is lost")
            if cprobs or not n_ret:
                self.violated("S14", MOD, wname, "conditional-value", outer, sorted(set(cprobs))[0] if cprobs else "no path yields a value for a conditional",
                              witness="def f(x):\n  if x > 1: return x\n  else: y = 2 * x\n  return y    -- translated as if the first branch did not exist")
            else:
                self.holds("S14", MOD, wname, "conditional-value", outer, "both fall through -> merged and falls through; both return -> Piecewise; mixed -> refused")
        if probs:
            self.violated("S14", MOD, wname, "branch-merge", lp, sorted(set(probs))[0],
                          witness="def f(x): \n  if x > 1: y = x \n  else: y = 2 * x \n  return y + 1   translates with y taken from one branch only")
        else:
            self.holds("S14", MOD, wname, "branch-merge", lp, "bound in one branch -> dropped; same value -> kept; different values -> Piecewise((if-value, condition), (else-value, True))")

    # ---- S12
    def s12(self, mod) -> None:
        from ..interp import Sym, SymInterp

        users = [(n, f) for n, f in mod.functions.items() if "." not in n and any(isinstance(x, ast.Name) and x.id == "KNOWN_FNS" for x in walk_no_nested(f))]
        if not users:
            raise AnalysisError("no function reads KNOWN_FNS")
        tbl = mod.const("KNOWN_FNS")
        present = {norm(k) for k in tbl.keys} if isinstance(tbl, ast.Dict) else set()
        for fname, f in users:
            raw = []
            n_ret = 0
            for st, val in SymInterp().run_function(f, Sym()).returns:
                txt = next((e[1] for e in reversed(st.events) if e[0] == "return"), None)
                if txt is None or "KNOWN_FNS" not in txt:
                    continue
                try:
                    tree = ast.parse(txt, mode="eval").body
                except SyntaxError:
                    continue
                # applications of a table value: Call whose func mentions KNOWN_FNS
                apps = [c for c in ast.walk(tree) if isinstance(c, ast.Call) and any(isinstance(x, ast.Name) and x.id == "KNOWN_FNS" for x in ast.walk(c.func))]
                if not apps:
                    continue
                n_ret += 1
                wrapped = set()
                for w in ast.walk(tree):
                    if isinstance(w, ast.Call) and norm(w.func) in ("sympy.Float", "Float", "float", "sympy.Number", "sympy.sympify(float"):
                        wrapped.update(id(x) for x in ast.walk(w))
                if any(id(a) not in wrapped for a in apps):
                    raw.append(txt)
            if not n_ret:
                continue
            cons = "table-hit-value"
            if not raw:
                self.holds("S12", MOD, fname, cons, f, "every table hit is returned as sympy.Float(fn(*args)): symbolic results are refused")
                continue
            bad = sorted(k for k in present if k in NUMERIC_ONLY)
            if bad:
                self.violated("S12", MOD, fname, cons, f, f"a table hit can be returned without passing sympy.Float (`{raw[0][:60]}..`), so calls on symbols stay symbolic, "
                              f"but {bad} are equal to their Python functions on numbers only ({NUMERIC_ONLY[bad[0]]})",
                              witness="def v(x): return math.cbrt(x)  translates to x**(1/3); at x = -8 Python gives -2.0, the expression 1+1.73j")
            else:
                self.holds("S12", MOD, fname, cons, f, "table hits may stay symbolic and no numbers-only entry is in the table")

    # ---- S13
    def s13(self, mod, wname, wfn) -> None:
        """If the statement walker handles ast.AugAssign, the binary operation it builds has the old target value on the left."""
        from ..core import expand_locals, single_defs

        branch = None
        for n in walk_no_nested(wfn):
            if isinstance(n, ast.If) and "AugAssign" in ((isinstance_kinds(n.test) or (None, ()))[1]):
                branch = n.body
                break
            if isinstance(n, ast.match_case) and "AugAssign" in norm(n.pattern):
                branch = n.body
                break
        if branch is None:
            self.holds("S13", MOD, wname, "augmented-assignment", wfn, "not handled: refused by the statement default (S1)")
            return
        wrap = ast.Module(body=branch, type_ignores=[])
        defs = {}
        for x in ast.walk(wrap):
            if isinstance(x, ast.NamedExpr):
                defs[x.target.id] = x.value
            elif isinstance(x, ast.Assign) and len(x.targets) == 1 and isinstance(x.targets[0], ast.Name):
                defs.setdefault(x.targets[0].id, x.value)

        def role(e):
            t = norm(expand_locals(e, defs, depth=4))
            has_t, has_v = ".target" in t, ".value" in t
            return "both" if has_t and has_v else "target" if has_t else "value" if has_v else None

        verdicts = []
        for c in ast.walk(wrap):
            pairs = None
            if isinstance(c, ast.Call):
                named = {k.arg: k.value for k in c.keywords if k.arg}
                if "left" in named and "right" in named:
                    pairs = (named["left"], named["right"])
                elif "left" in named and len(c.args) >= 1:
                    pairs = None
                else:
                    pos = [a for a in c.args if role(a) in ("target", "value")]
                    if len(pos) == 2 and {role(pos[0]), role(pos[1])} == {"target", "value"}:
                        pairs = (pos[0], pos[1])
            elif isinstance(c, ast.BinOp):
                pairs = (c.left, c.right)
            if pairs and {role(pairs[0]), role(pairs[1])} == {"target", "value"}:
                verdicts.append((c, role(pairs[0]) == "target"))
        if not verdicts:
            self.undecided_ob("S13", MOD, wname, "augmented-assignment", branch[0], "AugAssign is handled but the operation combining target and value was not recognised")
            return
        c, ok = verdicts[0]
        if all(v for _, v in verdicts):
            self.holds("S13", MOD, wname, "augmented-assignment", c, f"`{norm(c)[:70]}`: old target value on the left, value on the right")
        else:
            c = [x for x, v in verdicts if not v][0]
            self.violated("S13", MOD, wname, "augmented-assignment", c, f"`{norm(c)[:90]}` puts the value on the left and the old target on the right: "
                          "`x -= y` is translated as `x = y - x` (likewise /=, **=, //=, %=)",
                          witness="def v(s, total): total -= s; return total   translates to s - total")

    # ---- S8
    def s8(self, mod, entry) -> None:
        tr = [s for s in strip_docstring(entry.body) if isinstance(s, ast.Try)]
        if len(tr) != 1:
            raise AnalysisError("fn_to_sympy: try/except shape not recognised")
        h = tr[0].handlers
        names = sorted({norm(e) for hh in h for e in (hh.type.elts if isinstance(hh.type, ast.Tuple) else [hh.type])}) if all(hh.type is not None for hh in h) else ["<bare>"]
        logs = any(isinstance(c, ast.Call) and norm(c.func) == "_LOGGER.warning" for hh in h for c in ast.walk(hh))
        if set(names) <= {"TypeError", "ValueError", "NotImplementedError"} and logs and all(classify_body(hh.body) == "return-none" for hh in h):
            self.holds("S8", MOD, "fn_to_sympy", "declared-refusals-only", h[0], f"only {names} become None, with a warning")
        else:
            self.violated("S8", MOD, "fn_to_sympy", "declared-refusals-only", h[0], f"fn_to_sympy converts {names} to None" + ("" if logs else " without a warning"),
                          witness="a programming error inside the translator is reported as 'cannot translate' / a failure is silent")
        claimed = {
            "meta/codegen_model.py", "meta/codegen_mxlpy.py", "symbolic/symbolic_model.py", "meta/sympy_tools.py", "meta/source_tools.py",
        }
        for rel in sorted(self.prog.sources):
            m = self.prog.module(rel)
            for fname, fn in m.functions.items():
                sc = None
                for c in walk_no_nested(fn):
                    if not (isinstance(c, ast.Call) and dotted(c.func).split(".")[-1] == "fn_to_sympy"):
                        continue
                    sc = sc or Scope(fn)
                    verdict, why = call_site_visibility(c, sc, fn)
                    cons = f"fn_to_sympy@{fname}:{_ordinal(fn, c)}"
                    if rel not in claimed:
                        self.info("S8", rel, fname, cons, c, f"display/report path, not claimed: {why}")
                    elif verdict:
                        self.holds("S8", rel, fname, cons, c, why)
                    else:
                        self.violated("S8", rel, fname, cons, c, f"a failed translation (None) is not detected here: {why}",
                                      witness="an untranslatable function is printed as `None` / stored as None instead of raising")

    def s11(self, mod) -> None:
        BIN = {"Add": "left + right", "Sub": "left - right", "Mult": "left * right", "Div": "left / right", "Pow": "left ** right", "Mod": "left % right", "FloorDiv": "left // right"}
        UN = {"UAdd": "+left", "USub": "-left"}
        OPF = {"operator.add": "{0} + {1}", "operator.sub": "{0} - {1}", "operator.mul": "{0} * {1}", "operator.truediv": "{0} / {1}", "operator.pow": "{0} ** {1}",
               "operator.mod": "{0} % {1}", "operator.floordiv": "{0} // {1}", "operator.pos": "+{0}", "operator.neg": "-{0}"}
        for fname, table in (("_handle_binop", BIN), ("_handle_unaryop", UN)):
            fn = mod.func(fname)
            ot = operator_table(mod, fn)
            if ot is None:
                raise AnalysisError(f"{fname}: operator dispatch not found")
            entries, default, anchor = ot
            # operand roles: the names that hold the translated left / right (or only) operand
            roles = {}
            for s_ in walk_no_nested(fn):
                if isinstance(s_, ast.Assign) and isinstance(s_.targets[0], ast.Name):
                    v_ = s_.value
                    while isinstance(v_, ast.Call) and norm(v_.func) == "cast" and len(v_.args) == 2:
                        v_ = v_.args[1]
                    if isinstance(v_, ast.Call) and norm(v_.func) == "_handle_expr" and v_.args:
                        src = norm(v_.args[0])
                        if src in ("node.left", "node.operand"):
                            roles[s_.targets[0].id] = "left"
                        elif src == "node.right":
                            roles[s_.targets[0].id] = "right"
            args_ = applied_args(fn, anchor) if not isinstance(anchor, (ast.Match, ast.If)) else None
            if not isinstance(anchor, ast.Match):
                if default == "raise":
                    self.holds("S1", MOD, fname, "operator-table", anchor, f"operators {sorted(entries)} handled through a table; any other operator raises")
                else:
                    self.violated("S1", MOD, fname, "operator-table", anchor, f"an operator missing from the table is not refused ({default})",
                                  witness="an operator without a translation (e.g. `~x`, `x @ y`, `x << 1`) yields an expression")

            def canon(txt: str) -> str:
                t_ = ast.parse(txt, mode="eval").body
                class R(ast.NodeTransformer):
                    def visit_Name(self_i, n_):
                        return ast.Name(id=roles.get(n_.id, n_.id), ctx=n_.ctx)
                return norm(R().visit(t_))

            for k, val in sorted(entries.items()):
                if args_ is not None and val in OPF:
                    try:
                        got = canon(OPF[val].format(*args_))
                    except (IndexError, SyntaxError):
                        got = f"{val}({', '.join(args_)})"
                else:
                    try:
                        got = canon(val)
                    except SyntaxError:
                        got = val
                if k not in table:
                    self.info("S11", MOD, fname, f"operator {k}", anchor, f"unvetted operator -> {got}")
                elif got == table[k]:
                    self.holds("S11", MOD, fname, f"operator {k}", anchor, f"{k} -> {got}")
                else:
                    self.violated("S11", MOD, fname, f"operator {k}", anchor, f"Python {k} is translated as `{got}` instead of `{table[k]}`",
                                  witness=f"a rate law using the {k} operator translates to an expression with different values")
        he = mod.func("_handle_expr")
        CMP = {"Gt": "PREV > RIGHT", "GtE": "PREV >= RIGHT", "Lt": "PREV < RIGHT", "LtE": "PREV <= RIGHT",
               "Eq": "sympy.Eq(PREV, RIGHT)", "NotEq": "sympy.Ne(PREV, RIGHT)"}
        cl = compare_links(mod, he)
        if cl and cl[0]:
            for k, got in sorted(cl[0].items()):
                if k not in CMP:
                    self.info("S11", MOD, "_handle_expr", f"comparison {k}", cl[2], f"unvetted comparison -> {got}")
                elif got == CMP[k]:
                    self.holds("S11", MOD, "_handle_expr", f"comparison {k}", cl[2], f"{k} -> {got} (PREV = translated left neighbour, RIGHT = translated comparator)")
                else:
                    self.violated("S11", MOD, "_handle_expr", f"comparison {k}", cl[2], f"Python comparison {k} is translated as `{got}` instead of `{CMP[k]}`",
                                  witness="a conditional rate law switches branches at the wrong side of its threshold")
        pw = [r for r in walk_no_nested(he) if isinstance(r, ast.Return) and "Piecewise" in norm(r.value) and "if_true" in norm(r.value)]
        if pw and norm(pw[0].value) == "sympy.Piecewise((if_true, condition), (if_false, True))":
            defs = {norm(a.targets[0]): norm(a.value) for a in walk_no_nested(he) if isinstance(a, ast.Assign) and isinstance(a.targets[0], ast.Name)}
            if (defs.get("condition"), defs.get("if_true"), defs.get("if_false")) == ("_handle_expr(node.test, ctx)", "_handle_expr(node.body, ctx)", "_handle_expr(node.orelse, ctx)"):
                self.holds("S11", MOD, "_handle_expr", "conditional-expression", pw[0], "a if c else b -> Piecewise((a, c), (b, True))")
            else:
                self.violated("S11", MOD, "_handle_expr", "conditional-expression", pw[0], f"conditional expression operands are bound as {defs}",
                              witness="`a if c else b` translates with its branches or condition exchanged")
        else:
            self.violated("S11", MOD, "_handle_expr", "conditional-expression", pw[0] if pw else he, "`a if c else b` is not translated as Piecewise((a, c), (b, True))",
                          witness="`a if c else b` translates with its branches exchanged")

    def s10(self, mod) -> None:
        """Truthiness tests on values that may be symbolic expressions."""
        sources = ("ctx.symbols.get(", "symbols.get(", "_handle_expr(", "fn_to_sympy(", "_handle_call(", "_handle_attribute(", "_handle_name(")
        for name, fn in mod.functions.items():
            if "." in name:
                continue
            maybe_expr: dict[str, ast.AST] = {}
            for n in walk_no_nested(fn):
                pairs = []
                if isinstance(n, ast.Assign) and isinstance(n.targets[0], ast.Name):
                    pairs = [(n.targets[0].id, n.value)]
                elif isinstance(n, ast.NamedExpr):
                    pairs = [(n.target.id, n.value)]
                for t, v in pairs:
                    if isinstance(v, ast.Call) and any(norm(v).startswith(src) for src in sources):
                        maybe_expr[t] = v
            if not maybe_expr:
                continue
            bad = None
            n_tests = 0
            for n in walk_no_nested(fn):
                tests = []
                if isinstance(n, (ast.If, ast.While, ast.IfExp)):
                    tests = [n.test]
                elif isinstance(n, ast.Assert):
                    tests = [n.test]
                for t in tests:
                    for sub in ([t] + ([t.operand] if isinstance(t, ast.UnaryOp) and isinstance(t.op, ast.Not) else []) +
                                (list(t.values) if isinstance(t, ast.BoolOp) else [])):
                        inner = sub.operand if isinstance(sub, ast.UnaryOp) and isinstance(sub.op, ast.Not) else sub
                        if isinstance(inner, ast.Name) and inner.id in maybe_expr:
                            bad = bad or (n, inner.id)
                        if isinstance(inner, ast.NamedExpr) and isinstance(inner.value, ast.Call) and any(norm(inner.value).startswith(src) for src in sources):
                            bad = bad or (n, inner.target.id)
                        if isinstance(inner, ast.Compare) and any(isinstance(x, ast.Name) and x.id in maybe_expr or isinstance(x, ast.NamedExpr) for x in ast.walk(inner)):
                            n_tests += 1
            if bad:
                node, var = bad
                self.violated("S10", MOD, name, f"truthiness-of {var}", node,
                              f"`{norm(node.test)[:70]}` tests a translated value by truthiness: a value that is exactly zero (e.g. `leak = 0.0`, or a difference "
                              "that cancels) is treated as missing",
                              witness="def f(x): leak = 0.0; return x + leak  with a module-level float also called `leak`: the module constant is used instead of the local 0.0")
            else:
                self.holds("S10", MOD, name, "presence-tests", fn, f"{len(maybe_expr)} looked-up value(s); none is tested by truthiness ({n_tests} explicit None/compare tests)")

    # ------------------------------------------------------------------
    def must_fire(self):
        B = "_handle_block"
        return [
            Variant("known-calls-stay-symbolic", MOD, "_handle_call", "return sympy.Float(fn(*model_args))", "return fn(*model_args)", expect="S12|", quick=True),
            Variant("statement-default-skips", MOD, B, "            msg = f'Statement type {type(node).__name__} not implemented'\n            raise NotImplementedError(msg)",
                    "            _LOGGER.debug('Skipping node of type %s', type(node))", expect="S1|meta/source_tools.py|_handle_block|statement-default", quick=True),
            Variant("shared-branch-context", MOD, B, "ctx_else = ctx.updated(symbols=dict(ctx.symbols))", "ctx_else = ctx_if", expect="S4|", quick=True),
            Variant("branch-context-not-copied", MOD, B, "ctx_if = ctx.updated(symbols=dict(ctx.symbols))", "ctx_if = ctx", expect="S4|"),
            Variant("branches-without-rest", MOD, B, "_handle_block([*node.body, *rest], ctx_if)", "_handle_block(node.body, ctx_if)", expect="S5|", quick=True),
            Variant("eq-structural", MOD, "_handle_expr", "comparisons.append(sympy.Eq(prev_value, right))", "comparisons.append(prev_value == right)", expect="S3|", quick=True),
            Variant("ne-structural", MOD, "_handle_expr", "comparisons.append(sympy.Ne(prev_value, right))", "comparisons.append(prev_value != right)", expect="S3|"),
            Variant("compare-default-dropped", MOD, "_handle_expr", "            else:\n                msg = f'Comparison {type(op).__name__} not implemented'\n                raise NotImplementedError(msg)\n", "", expect="S1|", quick=True),
            Variant("sequential-subs", MOD, "fn_to_sympy", ", simultaneous=True)", ")", expect="S6|", quick=True),
            Variant("positive-is-abs", MOD, "", "np.power: sympy.Pow,", "np.power: sympy.Pow, np.positive: sympy.Abs,", expect="S7|", quick=True),
            Variant("sin-is-cos", MOD, "", "np.sin: sympy.sin", "np.sin: sympy.cos", expect="S7|"),
            Variant("greater-nonstrict", MOD, "", "np.greater: sympy.StrictGreaterThan", "np.greater: sympy.GreaterThan", expect="S7|"),
            Variant("keywords-ignored", MOD, "_handle_call", "    if node.keywords or any((isinstance(i, ast.Starred) for i in node.args)):\n        msg = 'Keyword and starred call arguments are not implemented'\n        raise NotImplementedError(msg)\n", "", expect="S2|", quick=True),
            Variant("binop-default-identity", MOD, "_handle_binop", "        case _:\n            msg = f'Operation {type(node.op).__name__} not implemented'\n            raise NotImplementedError(msg)", "        case _:\n            return left", expect="S1|"),
            Variant("expr-default-zero", MOD, "_handle_expr", "    msg = f'Expression type {type(node).__name__} not implemented'\n    raise NotImplementedError(msg)", "    return sympy.Float(0.0)", expect="S1|"),
            Variant("catch-everything", MOD, "fn_to_sympy", "except (TypeError, ValueError, NotImplementedError) as e:", "except Exception as e:", expect="S8|"),
            Variant("tuple-sequential-binding", MOD, B,
                    "                for target, expr in zip(target_elements, values, strict=True):\n                    ctx.symbols[cast(ast.Name, target).id] = expr",
                    "                for target, value_expr in zip(target_elements, node.value.elts, strict=True):\n                    ctx.symbols[cast(ast.Name, target).id] = _handle_expr(value_expr, ctx)", expect="S9|"),
            Variant("truthiness-lookup", MOD, "_handle_name", "    value = ctx.symbols.get(node.id)\n    if value is None:", "    value = ctx.symbols.get(node.id)\n    if not value:", expect="S10|", quick=True),
            Variant("truthiness-call-args", MOD, "_handle_call", "        if (expr := _handle_expr(i, ctx)) is None:\n            return None", "        if not (expr := _handle_expr(i, ctx)):\n            return None", expect="S10|"),
            Variant("ifexp-branches-swapped", MOD, "_handle_expr", "return sympy.Piecewise((if_true, condition), (if_false, True))", "return sympy.Piecewise((if_false, condition), (if_true, True))", expect="S11|", quick=True),
            Variant("usub-dropped", MOD, "_handle_unaryop", "return -left", "return left", expect="S11|"),
            Variant("floordiv-as-truediv", MOD, "_handle_binop", "return left // right", "return left / right", expect="S11|"),
            Variant("gt-as-ge", MOD, "_handle_expr", "comparisons.append(prev_value > right)", "comparisons.append(prev_value >= right)", expect="S11|"),
            Variant("mxlpy-codegen-no-none-check", "meta/codegen_mxlpy.py", "_fn_to_symbolic_repr", "    if (expr := fn_to_sympy(fn, origin=k, model_args=args)) is None:\n        msg = f\"Unable to parse fn for '{k}'\"\n        raise ValueError(msg)\n",
                    "    expr = fn_to_sympy(fn, origin=k, model_args=args)\n", expect="S8|"),
        ]

    def must_stay_silent(self):
        return [
            Variant("known-call-value-staged", MOD, "_handle_call", "        return sympy.Float(fn(*model_args))", "        value = fn(*model_args)\n        return sympy.Float(value)", quick=True),
            Variant("xreplace-form", MOD, "fn_to_sympy", "sympy_expr.subs(dict(zip(fn_args, model_args, strict=True)), simultaneous=True)",
                    "sympy_expr.xreplace({sympy.Symbol(k): v for k, v in zip(fn_args, model_args, strict=True)})", quick=True),
            Variant("rename-rest", MOD, "_handle_block", r"\brest\b", "rest_of_body", count=0, regex=True),
        ]


def _block_of(fn: ast.FunctionDef, node: ast.stmt) -> list[ast.stmt]:
    """The statement list that directly contains `node`."""
    for p in ast.walk(fn):
        for fld in ("body", "orelse", "finalbody"):
            b = getattr(p, fld, None)
            if isinstance(b, list) and node in b:
                return b
    return []


def _ordinal(fn, call) -> int:
    calls = [c for c in ast.walk(fn) if isinstance(c, ast.Call) and dotted(c.func).split(".")[-1] == "fn_to_sympy"]
    calls.sort(key=lambda c: (c.lineno, c.col_offset))
    return calls.index(call)


def call_site_visibility(c: ast.Call, sc: Scope, fn: ast.FunctionDef) -> tuple[bool, str]:
    """Is a None result of this fn_to_sympy call detected before it can be formatted / stored / returned?"""
    parents = list(sc.ancestors(c))
    # (a) walrus + `is None` test, or direct `is None` comparison
    for p, fld, child in parents:
        if isinstance(p, ast.Compare) and any(isinstance(o, (ast.Is, ast.IsNot)) for o in p.ops) and \
                any(isinstance(x, ast.Constant) and x.value is None for x in p.comparators):
            return True, "result compared with None"
        if isinstance(p, ast.BinOp):
            return True, "result used arithmetically (None raises TypeError)"
        if isinstance(p, ast.Return) and fn.name == "_handle_call":
            return True, "returned to the translator, which propagates None"
        if isinstance(p, ast.stmt):
            break
    # (b) assigned to a name that is tested for None / used arithmetically before other uses
    stmt = sc.stmt_of(c)
    if isinstance(stmt, (ast.Assign, ast.AnnAssign)):
        tgt = stmt.targets[0] if isinstance(stmt, ast.Assign) else stmt.target
        if isinstance(tgt, ast.Name):
            name = tgt.id
            later = [n for n in ast.walk(fn) if isinstance(n, ast.Name) and n.id == name and isinstance(n.ctx, ast.Load)
                     and (n.lineno, n.col_offset) > (stmt.lineno, stmt.col_offset)]
            later.sort(key=lambda n: (n.lineno, n.col_offset))
            for n in later[:1]:
                for p, fld, child in sc.ancestors(n):
                    if isinstance(p, ast.Compare) and any(isinstance(o, (ast.Is, ast.IsNot)) for o in p.ops):
                        return True, f"`{name}` is tested for None before use"
                    if isinstance(p, ast.BinOp):
                        return True, f"`{name}` is first used arithmetically (None raises TypeError)"
                    if isinstance(p, ast.stmt):
                        break
            return False, f"`{name}` is used without a None test"
    return False, "the result flows on unchecked"


CHECK = C06
