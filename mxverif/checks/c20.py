"""C20 - fitting: loss laws by abstract interpretation, copy discipline, residual shape (DESIGN 4/C20, A.5)."""

from __future__ import annotations

import ast
from dataclasses import dataclass

from ..core import AnalysisError, Check, dotted, forwarding_problems, norm, strip_docstring, walk_no_nested
from ..interp import Sym, SymInterp
from ..variants import Variant

LOSSES = "fit/losses.py"
ROUT = "fit/routines.py"
ABST = "fit/abstract.py"


@dataclass(frozen=True)
class AV:
    """Abstract value of a loss sub-expression w.r.t. one parameter playing the prediction."""

    kind: str  # PRED | TRUE | SIGNED | RATIO | NONNEG | NONPOS | CONST | UNKNOWN
    zero: bool | None = None  # value is 0 when prediction == data
    hom: bool = False  # non-negative, grows without bound when the prediction alone is scaled up
    mono: str = ""  # for SIGNED built as g(pred) - g(true): text of g


MONO_FNS = {"log", "log1p", "sqrt", "exp", "log10", "log2"}
EVEN_FNS = {"abs", "absolute", "square", "fabs"}
PRESERVE = {"mean", "sum", "sqrt", "nanmean", "nansum", "median", "cast", "float", "average"}


class LossAI:
    def __init__(self, pred: str, true: str, aliases: dict[str, str]) -> None:
        self.pred, self.true, self.aliases = pred, true, aliases

    def fname(self, f: ast.AST) -> str:
        n = dotted(f)
        if n in self.aliases:
            n = self.aliases[n]
        return n.split(".")[-1]

    def ev(self, e: ast.AST) -> AV:
        if isinstance(e, ast.Name):
            if e.id == self.pred:
                return AV("PRED")
            if e.id == self.true:
                return AV("TRUE")
            return AV("UNKNOWN")
        if isinstance(e, ast.Constant) and isinstance(e.value, (int, float)):
            return AV("CONST", zero=e.value == 0)
        if isinstance(e, ast.UnaryOp) and isinstance(e.op, ast.USub):
            v = self.ev(e.operand)
            if v.kind == "NONNEG":
                return AV("NONPOS", v.zero, v.hom)
            if v.kind == "NONPOS":
                return AV("NONNEG", v.zero, v.hom)
            return v
        if isinstance(e, ast.BinOp):
            a, b = self.ev(e.left), self.ev(e.right)
            if isinstance(e.op, ast.Sub):
                if {a.kind, b.kind} == {"PRED", "TRUE"}:
                    return AV("SIGNED", True)
                if a.kind == "MONO" and b.kind == "MONO" and a.mono == b.mono and a.zero != b.zero:
                    return AV("SIGNED", True)
                if a.kind == "MONO" and b.kind == "MONO" and a.zero != b.zero:
                    return AV("OFFDIAG")  # g(pred) - h(true) with g != h: not zero at pred == true
                if a.kind in ("PRED", "TRUE") and b.kind == "CONST":
                    return AV(a.kind + "+", mono="-" + norm(e.right))
                return AV("UNKNOWN")
            if isinstance(e.op, ast.Add) and ({a.kind, b.kind} == {"PRED", "TRUE"} or (a.kind == "MONO" and b.kind == "MONO" and a.zero != b.zero)):
                # pred + true (or g(pred) + g(true)): does not vanish where the prediction reproduces the data
                return AV("OFFDIAG")
            if isinstance(e.op, ast.Add):
                # g(x + c): keep the argument's identity for monotone wrappers
                if a.kind in ("PRED", "TRUE") and b.kind == "CONST":
                    return AV(a.kind + "+", mono=norm(e.right))
                if b.kind in ("PRED", "TRUE") and a.kind == "CONST":
                    return AV(b.kind + "+", mono=norm(e.left))
                if a.kind == "NONNEG" and b.kind == "NONNEG":
                    return AV("NONNEG", (a.zero and b.zero) if None not in (a.zero, b.zero) else None, a.hom or b.hom)
                return AV("UNKNOWN")
            if isinstance(e.op, ast.Mult):
                for x, y in ((a, b), (b, a)):
                    if x.kind == "CONST" and isinstance(e.left if x is a else e.right, ast.Constant):
                        c = (e.left if x is a else e.right).value
                        if c > 0:
                            return y
                        if c < 0:
                            return self.ev(ast.UnaryOp(op=ast.USub(), operand=e.right if x is a else e.left))
                if a.kind == "NONNEG" and b.kind == "NONNEG":
                    z = True if (a.zero or b.zero) else (False if (a.zero is False and b.zero is False) else None)
                    return AV("NONNEG", z, a.hom or b.hom)
                if "SIGNED" in (a.kind, b.kind) or "RATIO" in (a.kind, b.kind):
                    return AV("RATIO", True)
                return AV("UNKNOWN")
            if isinstance(e.op, ast.Div):
                if a.kind in ("SIGNED", "RATIO"):
                    return AV("RATIO", True)
                if a.kind == "OFFDIAG" and b.kind in ("PRED", "TRUE", "CONST", "NONNEG"):
                    return AV("OFFDIAG")
                if a.kind == "NONNEG" and b.kind in ("NONNEG", "CONST"):
                    return AV("NONNEG", a.zero, False)
                return AV("UNKNOWN")
            if isinstance(e.op, ast.Pow) and isinstance(e.right, ast.Constant) and e.right.value == 2:
                if a.kind in ("SIGNED", "RATIO"):
                    return AV("NONNEG", True)
                if a.kind == "OFFDIAG":
                    return AV("NONNEG", False)
                return AV("NONNEG", a.zero, a.hom) if a.kind in ("NONNEG", "NONPOS") else AV("UNKNOWN")
            return AV("UNKNOWN")
        if isinstance(e, ast.Call):
            fn = self.fname(e.func)
            if not e.args:
                return AV("UNKNOWN")
            if fn == "cast" and len(e.args) == 2:
                return self.ev(e.args[1])
            a = self.ev(e.args[0])
            if fn in EVEN_FNS:
                if a.kind in ("SIGNED", "RATIO"):
                    return AV("NONNEG", True)
                if a.kind == "OFFDIAG":
                    return AV("NONNEG", False)
                if a.kind in ("NONNEG", "NONPOS"):
                    return AV("NONNEG", a.zero, a.hom)
                if a.kind == "PRED":
                    return AV("NONNEG", False, True)
                return AV("UNKNOWN")
            if fn == "norm":
                if a.kind in ("SIGNED", "RATIO"):
                    return AV("NONNEG", True)
                if a.kind == "PRED":
                    return AV("NONNEG", False, True)
                if a.kind == "TRUE":
                    return AV("NONNEG", False, False)
                return AV("UNKNOWN")
            if fn in MONO_FNS:
                if a.kind in ("PRED", "TRUE"):
                    return AV("MONO", zero=a.kind == "PRED", mono=fn)
                if a.kind in ("PRED+", "TRUE+"):
                    return AV("MONO", zero=a.kind == "PRED+", mono=f"{fn}({a.mono})")
                if fn == "sqrt" and a.kind in ("NONNEG", "SIGNED", "RATIO"):
                    return a  # monotone: keeps sign class / zero; of a signed quantity it is undefined below equality
                return AV("UNKNOWN")
            if fn in PRESERVE:
                return a
            return AV("UNKNOWN")
        return AV("UNKNOWN")


def verdict(v: AV) -> tuple[str, str]:
    if v.kind == "NONNEG" and v.zero is True:
        return "OK", "non-negative and zero when the prediction reproduces the data"
    if v.kind in ("SIGNED", "RATIO"):
        return "BAD", "signed (not bounded below) in the prediction: a prediction far on one side of the data gets an arbitrarily low loss"
    if v.kind == "OFFDIAG":
        return "BAD", "built from prediction + data (or differently shifted terms): signed and not zero when the prediction reproduces the data"
    if v.kind == "NONNEG" and v.zero is False:
        return "BAD", "non-negative but not zero when the prediction reproduces the data: its minimum lies elsewhere (e.g. at prediction == -data, or at a small prediction)"
    if v.kind == "NONPOS" and v.hom:
        return "BAD", "non-positive and decreasing in the size of the prediction: merely being large is rewarded"
    if v.kind == "NONPOS":
        return "BAD", "non-positive everywhere: cannot be smallest at prediction == data unless constant"
    return "UNDECIDED", f"abstract value {v}"


class C20(Check):
    pid = "C20"
    title = "Fitting: losses measure discrepancy; fits are honest and spare the input"
    rules = {
        "L1": "loss laws: each exported loss, abstractly interpreted over (sign, zero-at-equal, growth in the prediction), is >= 0 and 0 "
              "at prediction == data; PROVED-BAD = signed/unbounded below, or <= 0 and growing with the size of the prediction",
        "L2": "copy discipline: as_deepcopy defaults to True in every public fit routine and the model handed to the residual settings "
              "is the copy on that path, made before any update",
        "L3": "each residual applies the candidate values to the model before simulating, evaluates settings.loss on the selected "
              "columns, and maps a failed simulation to +inf",
        "L5": "routing and forwarding: the candidate values are routed to parameters / initial values by membership in the model's own "
              "parameter / variable names, and every ensemble / carousel routine forwards each option it accepts (loss, residual, integrator, "
              "bounds, y0, copy flag) under the same name",
        "L6": "one name order per minimiser: the start vector x0, the bounds list, the names that label a candidate vector for the residual and the "
              "names that label the optimiser's answer all enumerate the start dictionary in the same order",
        "L7": "joint fits: every entry's residual is computed from its own data and with its own y0 / integrator / loss function where the entry brings "
              "one, otherwise with the routine's",
        "L4": "standard scaling applies one and the same affine map (x - mean(data)) / std(data) to data and prediction",
    }
    floors = {"L1": 7, "L2": 10, "L3": 9, "L4": 2, "L5": 12, "L6": 5, "L7": 3}
    decided = [
        "which shipped losses are proper discrepancy measures (>= 0, 0 at equality) and which provably are not",
        "with copying enabled (the default) no fit routine hands the caller's model to the optimiser loop",
        "residual = loss(data, prediction at the candidate values), +inf on failure",
    ]
    undecided = ["optimiser outcomes ('never worse than the start')", "reported loss equals recomputed loss (depends on the minimiser)", "losses outside the abstract domain (reported as INFO, no alarm)"]
    assumptions = ["numpy semantics of abs/square/mean/sum/sqrt/log/linalg.norm", "_Settings.loss passes (data, prediction) positionally to the loss"]

    def run(self) -> None:
        self.l1()
        self.l2()
        self.l3()
        self.l4()
        self.l5()
        self.l6()
        self.l7()

    def l7(self) -> None:
        """Joint fits: every entry is fitted with its own data and its own y0 / integrator / loss where it brings one, else the routine's."""
        mod = self.prog.module(ROUT)
        n = 0
        for name, f in mod.functions.items():
            if "." in name or not name.startswith("joint_"):
                continue
            loops = [l for l in ast.walk(f) if isinstance(l, ast.For) and isinstance(l.target, ast.Name) and norm(l.iter) == "to_fit"]
            calls = [c for l in loops for c in ast.walk(l) if isinstance(c, ast.Call) and norm(c.func).endswith("_Settings")]
            if not calls:
                continue
            n += 1
            it_ = loops[0].target.id
            for c in calls:
                kw = {k.arg: k.value for k in c.keywords}
                probs = []
                if norm(kw.get("data")) != f"{it_}.data":
                    probs.append(f"data={norm(kw.get('data'))} is not the entry's own data")
                for fld in ("y0", "integrator", "loss_fn"):
                    if fld not in [a.arg for a in f.args.args + f.args.kwonlyargs]:
                        continue
                    v = kw.get(fld)
                    ok = False
                    if isinstance(v, ast.IfExp) and isinstance(v.test, ast.Compare) and len(v.test.ops) == 1 and norm(v.test.left) == f"{it_}.{fld}" \
                            and isinstance(v.test.comparators[0], ast.Constant) and v.test.comparators[0].value is None:
                        own, other = (v.body, v.orelse) if isinstance(v.test.ops[0], ast.IsNot) else (v.orelse, v.body) if isinstance(v.test.ops[0], ast.Is) else (None, None)
                        ok = own is not None and norm(own) == f"{it_}.{fld}" and norm(other) == fld
                    elif isinstance(v, ast.BoolOp) and isinstance(v.op, ast.Or) and [norm(x) for x in v.values] == [f"{it_}.{fld}", fld]:
                        ok = True
                    if not ok:
                        probs.append(f"{fld}=`{norm(v)[:60]}` is not the entry's own {fld} where it has one, else the routine's")
                if probs:
                    self.violated("L7", ROUT, name, "entry-overrides", c, "; ".join(probs),
                                  witness=f"fit.{name}(..., to_fit=[entry with loss_fn=losses.mae], loss_fn=losses.rmse) minimises the rmse of that entry (or calls None)")
                else:
                    self.holds("L7", ROUT, name, "entry-overrides", c, "each entry's data, and its own y0 / integrator / loss where given, reach its residual settings")
        self.analysed["joint_routines_checked"] = n

    def l6(self) -> None:
        from ..core import expand_locals, single_defs

        MINI = "minimizers/_scipy.py"
        mod = self.prog.module(MINI)

        def order(e, defs, p0):
            """Order class of a sequence expression relative to the start dictionary."""
            e = expand_locals(e, defs, depth=4)
            if isinstance(e, ast.Name):
                return "p0" if e.id == p0 else f"?{e.id}"
            if isinstance(e, ast.Call):
                f = norm(e.func)
                if isinstance(e.func, ast.Attribute) and e.func.attr in ("keys", "values", "items", "copy") and not e.args:
                    return order(e.func.value, defs, p0)
                if f in ("list", "tuple", "iter", "dict", "np.array", "np.asarray", "np.fromiter", "array") and e.args:
                    return order(e.args[0], defs, p0)
                if f in ("sorted", "reversed") and e.args:
                    return f"{f}({order(e.args[0], defs, p0)})" + ("" if not e.keywords else "[" + ",".join(norm(k) for k in e.keywords) + "]")
                if f == "zip" and e.args:
                    return order(e.args[0], defs, p0)
            if isinstance(e, (ast.List, ast.Tuple)) and len(e.elts) == 1 and isinstance(e.elts[0], ast.Starred):
                return order(e.elts[0].value, defs, p0)
            if isinstance(e, (ast.ListComp, ast.GeneratorExp, ast.DictComp)) and len(e.generators) == 1:
                g = e.generators[0]
                o = order(g.iter, defs, p0)
                return o if not g.ifs else f"filtered({o})"
            return f"?{norm(e)[:40]}"

        n_cls = 0
        for cname in sorted(mod.classes if hasattr(mod, "classes") else []):
            pass
        for qual, fn in mod.functions.items():
            if not qual.endswith(".__call__"):
                continue
            params = [a.arg for a in fn.args.args]
            if len(params) < 3:
                continue
            p0 = params[2]
            defs = single_defs(fn, anywhere=True)
            seqs: list[tuple[str, ast.AST, str]] = []
            for c in ast.walk(fn):
                if not isinstance(c, ast.Call):
                    continue
                f = norm(c.func)
                for k in c.keywords:
                    if k.arg == "x0":
                        seqs.append(("x0", k.value, order(k.value, defs, p0)))
                    if k.arg == "bounds" and isinstance(expand_locals(k.value, defs), (ast.ListComp, ast.GeneratorExp, ast.Call)):
                        seqs.append(("bounds", k.value, order(k.value, defs, p0)))
                if f == "_pack_updates" and len(c.args) == 2:
                    kind = "result-names" if norm(expand_locals(c.args[0], defs)).endswith(".x") else "candidate-names"
                    seqs.append((kind, c.args[1], order(c.args[1], defs, p0)))
                elif f == "zip" and len(c.args) >= 2:
                    second = norm(expand_locals(c.args[1], defs))
                    if second.endswith(".x"):
                        seqs.append(("result-names", c.args[0], order(c.args[0], defs, p0)))
                    elif any(isinstance(a, ast.Lambda) for a in ast.walk(fn) if any(x is c for x in ast.walk(a))):
                        seqs.append(("candidate-names", c.args[0], order(c.args[0], defs, p0)))
            kinds = {k for k, _, _ in seqs}
            if not {"candidate-names", "result-names"} <= kinds:
                self.undecided_ob("L6", MINI, qual, "name-order", fn, f"candidate / result labelling not recognised (found {sorted(kinds)})")
                continue
            n_cls += 1
            ref = next(o for k, _, o in seqs if k == "candidate-names")
            for kind, node, o in seqs:
                cons = f"order {kind} {norm(node)[:40]}"
                if o.startswith("?") or "?" in o:
                    self.undecided_ob("L6", MINI, qual, cons, node, f"order of `{norm(node)[:60]}` not derivable from the start dictionary")
                elif o == ref:
                    self.holds("L6", MINI, qual, cons, node, f"{kind} enumerates {o}")
                else:
                    self.violated("L6", MINI, qual, cons, node, f"{kind} enumerates `{o}` while the candidate vector is labelled in the order `{ref}`: values are reported (or started, or bounded) under other parameters' names",
                                  witness="p0 = {'k2': 1.0, 'k1': 5.0}: the optimum of k1 is reported as k2; the reported loss is not the loss at the reported parameters")
        self.analysed["minimisers_checked"] = n_cls

    def l1(self) -> None:
        mod = self.prog.module(LOSSES)
        fns = [f for n, f in mod.functions.items() if "." not in n and not n.startswith("_") and len(f.args.args) == 2]
        if len(fns) < 5:
            raise AnalysisError(f"{LOSSES}: loss functions not recognised")
        for f in fns:
            p0, p1 = (a.arg for a in f.args.args)
            aliases = {}
            body = strip_docstring(f.body)
            for s in body:
                if isinstance(s, ast.Assign) and isinstance(s.targets[0], ast.Name) and dotted(s.value):
                    aliases[s.targets[0].id] = dotted(s.value)
            rets = [s for s in body if isinstance(s, ast.Return)]
            if len(rets) != 1:
                self.info("L1", LOSSES, f.name, "loss-law", f, "not a single-expression loss; outside the abstract domain")
                continue
            results = []
            for pred, true in ((p1, p0), (p0, p1)):  # _Settings.loss binds the prediction to the 2nd parameter
                v = LossAI(pred, true, aliases).ev(rets[0].value)
                results.append((pred, *verdict(v)))
            bad = [r for r in results if r[1] == "BAD"]
            und = [r for r in results if r[1] == "UNDECIDED"]
            if bad:
                self.violated("L1", LOSSES, f.name, "loss-law", rets[0],
                              f"`{norm(rets[0].value)}` is {bad[0][2]} (prediction bound to `{bad[0][0]}`)",
                              witness="losses.mean(pred=data-1000, ...) = -1000 < loss at pred == data" if f.name == "mean" else
                                      "scaling the prediction by 1000 lowers the loss 1000-fold" if "norm" in norm(rets[0].value) else "")
            elif und:
                self.info("L1", LOSSES, f.name, "loss-law", rets[0], f"outside the abstract domain: {und[0][2]} - no verdict")
            else:
                self.holds("L1", LOSSES, f.name, "loss-law", rets[0], f"`{norm(rets[0].value)}`: {results[0][2]} (either argument as prediction)")

    def l2(self) -> None:
        mod = self.prog.module(ROUT)
        n = 0
        for name, f in mod.functions.items():
            if "." in name or name.startswith("_"):
                continue
            params = f.args.args + f.args.kwonlyargs
            pnames = [a.arg for a in params]
            if "as_deepcopy" not in pnames:
                continue
            n += 1
            defaults = dict(zip([a.arg for a in f.args.kwonlyargs], f.args.kw_defaults))
            pos_defaults = dict(zip([a.arg for a in f.args.args][len(f.args.args) - len(f.args.defaults):], f.args.defaults))
            d = defaults.get("as_deepcopy", pos_defaults.get("as_deepcopy"))
            if isinstance(d, ast.Constant) and d.value is True:
                self.holds("L2", ROUT, name, "default-true", d, "as_deepcopy defaults to True")
            else:
                self.violated("L2", ROUT, name, "default-true", f, f"as_deepcopy defaults to `{norm(d)}`: by default the caller's model is modified by the fit",
                              witness=f"fit.{name}(model, ...) leaves the candidate values of the last evaluation in `model`")
            # the copy reaches the settings
            body = strip_docstring(f.body)
            settings = [c for c in walk_no_nested(f) if isinstance(c, ast.Call) and dotted(c.func).endswith("_Settings")]
            delegs = [c for c in walk_no_nested(f) if isinstance(c, ast.Call) and "as_deepcopy" in {k.arg for k in c.keywords}]
            cons = "copy-reaches-settings"
            mparam = "model" if "model" in pnames else None
            if settings:
                # copy variable: `if as_deepcopy: P = deepcopy(P)` (C = P) or `C = deepcopy(P) if as_deepcopy else P`
                copyvar = None
                copy_line = None
                for i, st in enumerate(body):
                    if isinstance(st, ast.If) and norm(st.test) == "as_deepcopy" and not st.orelse and len(st.body) == 1 and isinstance(st.body[0], ast.Assign):
                        a0 = st.body[0]
                        if isinstance(a0.value, ast.Call) and norm(a0.value.func) in ("deepcopy", "copy.deepcopy") and norm(a0.targets[0]) == norm(a0.value.args[0]):
                            copyvar, copy_line = norm(a0.targets[0]), st.lineno
                    if isinstance(st, ast.Assign) and isinstance(st.value, ast.IfExp) and norm(st.value.test) == "as_deepcopy" \
                            and isinstance(st.value.body, ast.Call) and norm(st.value.body.func) in ("deepcopy", "copy.deepcopy") \
                            and norm(st.value.body.args[0]) == norm(st.value.orelse):
                        copyvar, copy_line = norm(st.targets[0]), st.lineno
                ok_all = True
                why = ""
                node_bad = settings[0]
                for sc_ in settings:
                    kw = {k.arg: k.value for k in sc_.keywords}
                    t = norm(kw.get("model"))
                    if t in ("deepcopy(i.model) if as_deepcopy else i.model", "copy.deepcopy(i.model) if as_deepcopy else i.model"):
                        continue
                    if copyvar is None:
                        ok_all, why = False, f"`{t}` is stored in the settings and no copy is made under as_deepcopy"
                        break
                    if t != copyvar:
                        ok_all, why = False, f"the settings receive `{t}`, not the copy `{copyvar}`"
                        break
                    if sc_.lineno < copy_line:
                        ok_all, why = False, "the settings are built before the copy is made"
                        break
                if ok_all and copyvar is not None and mparam is not None:
                    # the caller's object must not be touched once a separate copy exists / before it is copied
                    uses = [x for x in walk_no_nested(f) if isinstance(x, ast.Name) and x.id == mparam and isinstance(x.ctx, ast.Load)]
                    if copyvar != mparam:
                        later = [x for x in uses if x.lineno > copy_line]
                        if later:
                            ok_all, why, node_bad = False, f"the caller's `{mparam}` is used again (line {later[0].lineno}) although the routine works on the copy `{copyvar}`: it can be updated or returned instead of the copy", later[0]
                    mutated_before = [c for c in walk_no_nested(f) if isinstance(c, ast.Call) and isinstance(c.func, ast.Attribute) and norm(c.func.value) == mparam
                                      and c.func.attr.startswith(("update", "add", "remove", "scale", "make")) and c.lineno < copy_line]
                    if mutated_before:
                        ok_all, why, node_bad = False, "the model is updated before the copy is made", mutated_before[0]
                if ok_all:
                    self.holds("L2", ROUT, name, cons, settings[0], "the settings receive the deep copy whenever as_deepcopy is set; the caller's model is not touched afterwards")
                else:
                    self.violated("L2", ROUT, name, cons, node_bad, why, witness="the caller's model carries fitted / candidate values after the fit although as_deepcopy=True")
            elif delegs and all({k.arg: norm(k.value) for k in c.keywords}["as_deepcopy"] == "as_deepcopy" for c in delegs):
                self.holds("L2", ROUT, name, cons, delegs[0], f"delegates with as_deepcopy=as_deepcopy to {dotted(delegs[0].func) or 'a routine'}")
            else:
                self.violated("L2", ROUT, name, cons, f, "as_deepcopy is accepted but neither applied nor forwarded")
        self.analysed["fit_routines_with_as_deepcopy"] = n

    def l3(self) -> None:
        mod = self.prog.module(ROUT)
        res = [f for n, f in mod.functions.items() if n.endswith("_residual") and "." not in n and not n.startswith("_")]
        if len(res) < 3:
            raise AnalysisError("residual functions not recognised")
        for f in res:
            q = f.name
            body = strip_docstring(f.body)
            # order of effects on every path (epoch-tagged summaries): [y0] -> candidate parameters / initial values -> simulation
            import re

            class I(SymInterp):
                loop_unroll = 1
                epochs = True

            out3 = I().run_function(f, Sym())
            paths3 = [st for st, _ in out3.returns]
            P = "settings.model.update_parameter(ITEM(0, settings.p_names), updates[ITEM(0, settings.p_names)])"
            V = "settings.model.update_variable(ITEM(0, settings.v_names), updates[ITEM(0, settings.v_names)])"
            Y = "settings.model.update_variables(settings.y0)"
            seen_full = False
            bad3 = ""
            for st in paths3:
                calls = [e[1] for e in st.events if e[0] == "call"]
                texts = " ".join(c for c, _ in st.conds) + " ".join(str(e[-1]) for e in st.events)
                ks = [int(k_) for k_ in re.findall(r"AT\((\d+), Simulator\(", texts)]
                if not ks:
                    continue
                k_sim = min(ks)
                ups = [i for i, c in enumerate(calls) if c in (P, V)]
                other_updates = [c for c in calls if c.startswith("settings.model.update") and c not in (P, V, Y)]
                if P in calls and V in calls:
                    seen_full = True
                if other_updates:
                    bad3 = f"`{other_updates[0][:80]}` is not a candidate value written under its own name"
                if ups and max(ups) >= k_sim:
                    bad3 = "candidate values are written after the simulation was started"
                if Y in calls and ups and calls.index(Y) > min(ups):
                    bad3 = "the fixed initial conditions (y0) are written after the candidate values and overwrite fitted initial values"
                if any(c == "settings.y0 is None" and not p_ for c, p_ in st.conds) and Y not in calls:
                    bad3 = "the supplied y0 is not applied"
            anchor3 = [s_ for s_ in body if isinstance(s_, ast.For)]
            if seen_full and not bad3:
                self.holds("L3", ROUT, q, "apply-before-simulate", anchor3[0] if anchor3 else f, "y0 first, then candidate parameter and initial values, all before the simulation")
            else:
                self.violated("L3", ROUT, q, "apply-before-simulate", f, bad3 or "candidate values are not (all) applied to the model before it is simulated",
                              witness="the residual is evaluated at the previous candidate / the fitted initial value is overwritten by y0: the reported loss does not belong to the reported parameters")
            # what is returned for a failed / a successful simulation (plain summaries, match and isinstance alike)
            p3 = [st for st, _ in SymInterp().run_function(f, Sym()).returns]
            fails = [st for st in p3 if any(c.startswith("isinstance(") and c.endswith(".value, Simulation)") and not p_ for c, p_ in st.conds)]
            succs = [st for st in p3 if any(c.startswith("isinstance(") and c.endswith(".value, Simulation)") and p_ for c, p_ in st.conds)]
            if not fails or not succs:
                self.undecided_ob("L3", ROUT, q, "failure-to-inf", f, "result dispatch not recognised")
                continue

            def returned(st):
                r_ = [e[1] for e in st.events if e[0] == "return"]
                return r_[-1] if r_ else "None"

            anchor_f = [r_ for r_ in ast.walk(f) if isinstance(r_, ast.Return) and r_.value is not None and "inf" in norm(r_.value)]
            if all(returned(st) in ("np.inf", "float('inf')", "math.inf", "numpy.inf") for st in fails):
                self.holds("L3", ROUT, q, "failure-to-inf", anchor_f[0] if anchor_f else f, "failed simulation -> +inf")
            else:
                self.violated("L3", ROUT, q, "failure-to-inf", anchor_f[0] if anchor_f else f, "a failed simulation is not mapped to +inf: the optimiser can prefer parameters at which the model does not run",
                              witness="a candidate where integration fails gets a finite (or zero) residual")
            ok_loss = True
            for st in succs:
                subj = [c[len("isinstance("):-len(", Simulation)")] for c, p_ in st.conds if c.startswith("isinstance(") and c.endswith(".value, Simulation)") and p_][-1]
                if not returned(st).startswith(f"settings.loss({subj}.get_combined().loc[:, settings.data."):
                    ok_loss = False
            anchor_s = [r_ for r_ in ast.walk(f) if isinstance(r_, ast.Return) and r_.value is not None and "settings.loss(" in norm(r_.value)]
            if ok_loss:
                self.holds("L3", ROUT, q, "loss-of-selected-columns", anchor_s[0] if anchor_s else f, "settings.loss(prediction restricted to the data's columns)")
            else:
                self.violated("L3", ROUT, q, "loss-of-selected-columns", anchor_s[0] if anchor_s else f, "the residual is not settings.loss of the prediction restricted to the data columns")

    def l5(self) -> None:
        mod = self.prog.module(ROUT)
        for name, f in mod.functions.items():
            if "." in name or name.startswith("_"):
                continue
            # (a) routing inside every _Settings(...)
            for c in [c for c in walk_no_nested(f) if isinstance(c, ast.Call) and dotted(c.func).endswith("_Settings")]:
                kw = {k.arg: k.value for k in c.keywords}
                defs = {norm(a.targets[0]): norm(a.value) for a in walk_no_nested(f) if isinstance(a, ast.Assign) and isinstance(a.targets[0], ast.Name)}
                ok = True
                why = ""
                for field, getter in (("p_names", "get_parameter_names()"), ("v_names", "get_variable_names()")):
                    v = kw.get(field)
                    if not (isinstance(v, ast.ListComp) and len(v.generators) == 1 and norm(v.generators[0].iter) == "p0" and len(v.generators[0].ifs) == 1):
                        ok, why = False, f"{field}={norm(v)[:50]} is not a membership filter of p0"
                        break
                    t = v.generators[0].ifs[0]
                    src = norm(t.comparators[0]) if isinstance(t, ast.Compare) and isinstance(t.ops[0], ast.In) else "?"
                    if not defs.get(src, "").endswith(getter):
                        ok, why = False, f"{field} filters p0 by `{src}` = {defs.get(src, '?')}, not by the model's {getter[4:-2].replace('_', ' ')}"
                        break
                if ok:
                    self.holds("L5", ROUT, name, "candidate-routing", c, "p0 entries are routed to parameters / initial values by the model's own name lists")
                else:
                    self.violated("L5", ROUT, name, "candidate-routing", c, why, witness="fitting an initial value: the candidate is never applied, the fit returns p0 with the loss of the start point")
            # (b) forwarding in delegating routines
            for c in walk_no_nested(f):
                if not isinstance(c, ast.Call):
                    continue
                target = None
                callnode = c
                if norm(c.func) == "partial" and c.args and isinstance(c.args[0], ast.Name) and c.args[0].id in mod.functions:
                    target = mod.functions[c.args[0].id]
                    callnode = ast.Call(func=c.args[0], args=[], keywords=c.keywords)
                elif isinstance(c.func, ast.Name) and c.func.id in mod.functions and c.func.id != name and not c.func.id.startswith("_") \
                        and "as_deepcopy" in {k.arg for k in c.keywords}:
                    target = mod.functions[c.func.id]
                if target is None or target.name.startswith("_"):
                    continue
                probs = forwarding_problems(f, callnode, target, ignore=("model", "ensemble", "carousel", "p0") if norm(c.func) == "partial" else ())
                cons = f"forwards-options-to {target.name}"
                if probs:
                    self.violated("L5", ROUT, name, cons, c, "; ".join(probs), witness=f"fit.{name}(..., loss_fn=losses.mae) silently fits with the default loss")
                else:
                    self.holds("L5", ROUT, name, cons, c, f"every option shared with {target.name} is forwarded under its own name")

    def l4(self) -> None:
        mod = self.prog.module(ABST)
        m = mod.methods("_Settings")
        loss = m["loss"]
        lp_ = [st for st, _ in SymInterp().run_function(loss, Sym()).returns]

        def ret_(st):
            r_ = [e[1] for e in st.events if e[0] == "return"]
            return r_[-1] if r_ else "None"

        scaled_ = [ret_(st) for st in lp_ if ("self.standard_scale", True) in st.conds]
        plain_ = [ret_(st) for st in lp_ if ("self.standard_scale", False) in st.conds]
        t = ("return " + scaled_[0] if scaled_ and len(set(scaled_)) == 1 else "") + " | " + ("return " + plain_[0] if plain_ and len(set(plain_)) == 1 else "")
        ds = norm(m["data_scaled"].body[-1]) if "data_scaled" in m else ""
        if scaled_ and set(scaled_) == {"self.loss_fn(self.data_scaled, (prediction - self.mean) / self.scale)"} and ds == "return (self.data - self.mean) / self.scale" \
                and "return self.data.mean()" in norm(m["mean"]) and "return self.data.std()" in norm(m["scale"]):
            self.holds("L4", ABST, "_Settings.loss", "same-affine-map", loss, "(x - mean(data)) / std(data) applied to data and prediction alike")
        else:
            self.violated("L4", ABST, "_Settings.loss", "same-affine-map", loss, "data and prediction are scaled by different maps: the scaled loss is not zero at prediction == data",
                          witness="a perfect prediction has a non-zero standard-scaled residual")
        if plain_ and set(plain_) == {"self.loss_fn(self.data, prediction)"}:
            self.holds("L4", ABST, "_Settings.loss", "unscaled-branch", loss, "loss_fn(data, prediction)")
        else:
            self.violated("L4", ABST, "_Settings.loss", "unscaled-branch", loss, "unscaled residual is not loss_fn(data, prediction)")

    def must_fire(self):
        return [
            Variant("sorted-candidate-names", "minimizers/_scipy.py", "LocalScipyMinimizer.__call__", "par_names = list(p0.keys())", "par_names = sorted(p0)", expect="L6|", quick=True),
            Variant("rmse-without-square", LOSSES, "rmse", "np.sqrt(np.mean(np.square(y_pred - y_true)))", "np.sqrt(np.mean(y_pred - y_true))", expect="L1|fit/losses.py|rmse", quick=True),
            Variant("mae-without-abs", LOSSES, "mae", "np.mean(np.abs(y_true - y_pred))", "np.mean(y_true - y_pred)", expect="L1|fit/losses.py|mae", quick=True),
            Variant("default-no-copy", ROUT, "time_course", "as_deepcopy: bool=True", "as_deepcopy: bool=False", expect="L2|fit/routines.py|time_course|default-true", quick=True),
            Variant("settings-before-copy", ROUT, "steady_state", "    if as_deepcopy:\n        model = deepcopy(model)\n", "    original = model\n    if as_deepcopy:\n        copied = deepcopy(model)\n", expect="L2|"),
            Variant("copy-made-but-original-used", ROUT, "protocol_time_course", "    if as_deepcopy:\n        model = deepcopy(model)\n", "    fit_model = deepcopy(model) if as_deepcopy else model\n", expect="L2|fit/routines.py|protocol_time_course|"),
            Variant("variable-candidates-routed-by-parameter-names", ROUT, "time_course", "v_names=[i for i in p0 if i in v_names]", "v_names=[i for i in p0 if i in p_names]", expect="L5|", quick=True),
            Variant("ensemble-drops-loss", ROUT, "ensemble_time_course", "loss_fn=loss_fn", "loss_fn=losses.rmse", expect="L5|"),
            Variant("carousel-crosses-options", ROUT, "carousel_steady_state", "y0=y0", "y0=None", expect="L5|"),
            Variant("y0-after-candidates", ROUT, "time_course_residual", "    if (y0 := settings.y0) is not None:\n        settings.model.update_variables(y0)\n    for p in settings.p_names:\n        settings.model.update_parameter(p, updates[p])\n    for p in settings.v_names:\n        settings.model.update_variable(p, updates[p])\n",
                    "    for p in settings.p_names:\n        settings.model.update_parameter(p, updates[p])\n    for p in settings.v_names:\n        settings.model.update_variable(p, updates[p])\n    if (y0 := settings.y0) is not None:\n        settings.model.update_variables(y0)\n", expect="L3|", quick=True),
            Variant("joint-ignores-flag", ROUT, "joint_steady_state", "model=deepcopy(i.model) if as_deepcopy else i.model", "model=i.model", expect="L2|"),
            Variant("carousel-forces-false", ROUT, "carousel_time_course", "as_deepcopy=as_deepcopy", "as_deepcopy=False", expect="L2|"),
            Variant("failure-to-zero", ROUT, "time_course_residual", "return cast(float, np.inf)", "return 0.0", expect="L3|", quick=True),
            Variant("simulate-before-update", ROUT, "steady_state_residual",
                    "    for p in settings.v_names:\n        settings.model.update_variable(p, updates[p])\n    res = Simulator(settings.model, integrator=settings.integrator).simulate_to_steady_state().get_result()",
                    "    res = Simulator(settings.model, integrator=settings.integrator).simulate_to_steady_state().get_result()\n    for p in settings.v_names:\n        settings.model.update_variable(p, updates[p])", expect="L3|"),
            Variant("scale-prediction-only-by-std", ABST, "_Settings.loss", "(prediction - self.mean) / self.scale", "prediction / self.scale", expect="L4|", quick=True),
        ]

    def must_stay_silent(self):
        return [
            Variant("names-by-unpacking", "minimizers/_scipy.py", "LocalScipyMinimizer.__call__", "par_names = list(p0.keys())", "par_names = [*p0]", quick=True),
            Variant("x0-from-names", "minimizers/_scipy.py", "LocalScipyMinimizer.__call__", "x0=list(p0.values())", "x0=[p0[n] for n in par_names]", quick=True),
            Variant("mse-pow-form", LOSSES, "mean_squared", "np.square(y_pred - y_true)", "(y_pred - y_true) ** 2", quick=True),
            Variant("mae-swapped-difference", LOSSES, "mae", "np.abs(y_true - y_pred)", "np.abs(y_pred - y_true)"),
            Variant("separate-copy-variable", ROUT, "steady_state", "    if as_deepcopy:\n        model = deepcopy(model)\n", "    model = deepcopy(model) if as_deepcopy else model\n"),
            Variant("rmse-scaled", LOSSES, "rmse", "np.sqrt(np.mean(np.square(y_pred - y_true)))", "2.0 * np.sqrt(np.mean(np.square(y_pred - y_true)))"),
        ]


CHECK = C20
