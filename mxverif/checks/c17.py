"""C17 - SBML import: module identity, argument-list agreement, exhaustive transforms (DESIGN 4/C17, A.6)."""

from __future__ import annotations

import ast

from ..core import AnalysisError, Check, Scope, classify_memo_key, memo_tables, norm, strip_docstring, walk_no_nested
from ..deps import DepInterp, DepSt
from ..interp import Sym, SymInterp
from ..variants import Variant

MOD = "sbml/_import.py"
GENMOD = "meta/codegen_mxlpy.py"
TOOLS = "meta/sympy_tools.py"
LOSSY = ("stem", "name", "valid_filename", "lower", "sub", "normalize")
CONTENT_SOURCES = ("file.read_bytes()", "file.read_text()")
PATH_SOURCES = ("file.resolve()", "file.absolute()")


class C17(Check):
    pid = "C17"
    title = "SBML import builds the model the document describes"
    rules = {
        "U9": "(shared with C01) what the imported model returns as derivatives is stoichiometry x rates at the queried state, computed coefficients "
              "(compartment sizes, rule-defined stoichiometries) included - every right-hand-side entry point, pandas variants too (A1, A5, A10 of C01)",
        "U7": "(shared with C11) the generator the import writes its module with keeps one injective definition table (K1 of C11)",
        "U1": "the generated module's file path and sys.modules key depend on an injective function of the input document (its "
              "resolved path and/or content digest), not only on lossy derivatives such as the file stem",
        "U2": "the argument list of a generated function definition and the argument list of the builder call that uses it are the same "
              "expression, for every component kind (derived, reactions, initial assignments, computed coefficients)",
        "U3": "every initial assignment of the document is applied to a parameter or a variable, or refused",
        "U4": "the stoichiometry transform is exhaustive: number -> number, symbol -> name, anything else -> computed coefficient",
        "U6": "no memoisation of imported models keyed by the path alone (or by other non-injective keys): a document rewritten at the "
              "same path must be imported anew",
        "U8": "nothing of the document is dropped on the way: each variable, parameter, derived quantity (assignment rule) and reaction of the transformed "
              "document is stored into the symbolic model under its own key on every path of the loop that walks it",
        "U5": "the generated source is written before it is imported, and the model is built from exactly that module",
    }
    floors = {"U9": 10, "U7": 5, "U1": 2, "U2": 4, "U3": 2, "U4": 1, "U5": 2, "U6": 1, "U8": 4}
    decided = [
        "two documents read in one session (same stem, different directory or content) get different generated modules",
        "generated functions are called with the arguments they were defined with",
        "every stoichiometry shape is carried over",
    ]
    undecided = ["fidelity of the imported equations to the document (pysbml's transformation, third party)", "identifier mapping performed by pysbml",
                 "initial assignments on targets other than parameters/species (reported as INFO: no witness document constructed)"]
    assumptions = ["a SHA-256 digest of path + content is injective in practice"]

    def u8(self, mod) -> None:
        from ..interp import Sym, SymInterp

        class I1(SymInterp):
            loop_unroll = 1

        cg = mod.func("_codegen")
        params = [a.arg for a in cg.args.args]
        doc = params[1] if len(params) > 1 else "model"
        paths = [st for st, _ in I1().run_function(cg, Sym()).returns]
        if not paths:
            raise AnalysisError("_codegen: no returning path")
        for kind in ("variables", "parameters", "derived", "reactions"):
            src = f"{doc}.{kind}"
            key = f"KEY(0, {src})"
            iterated = stored = 0
            skipped = None
            for st in paths:
                texts = [x for e in st.events for x in e[1:] if isinstance(x, str)] + [c for c, _ in st.conds]
                if not any(key in t or f"VALUE(0, {src})" in t for t in texts):
                    continue
                iterated += 1
                if any(e[0] == "store" and e[1].endswith(f".{kind}[{key}]") or (e[0] == "store" and f"{kind}[{key}]" in e[1]) for e in st.events):
                    stored += 1
                else:
                    skipped = next((c for c, _ in st.conds if key in c), "a condition")
            loop = next((l for l in ast.walk(cg) if isinstance(l, ast.For) and norm(l.iter).startswith(src)), cg)
            comps = [(c, g) for c in ast.walk(cg) if isinstance(c, (ast.DictComp, ast.ListComp, ast.GeneratorExp)) for g in c.generators if norm(g.iter).startswith(src)]
            if iterated == 0 and comps:
                c, g = comps[0]
                key_ok = not isinstance(c, ast.DictComp) or (isinstance(g.target, ast.Tuple) and norm(c.key) == norm(g.target.elts[0]))
                if g.ifs or not key_ok:
                    self.violated("U8", MOD, "_codegen", f"keeps-every {kind}", c, f"the comprehension over {src} " + (f"filters by `{norm(g.ifs[0])[:60]}`" if g.ifs else "does not keep the entries' own keys")
                                  + ": quantities of the document are missing from the imported model",
                                  witness="a document with an assignment rule `adenylate_conc := ATP + ADP` that nothing else refers to: the imported model has no such quantity")
                else:
                    self.holds("U8", MOD, "_codegen", f"keeps-every {kind}", c, f"an unfiltered comprehension over {src} keeps every entry under its own key")
            elif iterated == 0:
                self.undecided_ob("U8", MOD, "_codegen", f"keeps-every {kind}", cg, f"where the {kind} of the transformed document are walked was not found")
            elif stored == iterated:
                self.holds("U8", MOD, "_codegen", f"keeps-every {kind}", loop, f"every iteration stores sym.{kind}[key]")
            else:
                self.violated("U8", MOD, "_codegen", f"keeps-every {kind}", loop, f"an entry of {src} is skipped when `{skipped[:70]}`: that quantity of the document is missing from the imported model",
                              witness="a document with an assignment rule `adenylate_conc := ATP + ADP` that nothing else refers to: the imported model has no such quantity")

    def run(self) -> None:
        mod = self.prog.module(MOD)
        rd = mod.func("read")
        self.u8(mod)
        self.borrow("C11", ("K1",), "U7")
        self.borrow("C01", ("A1", "A5", "A10"), "U9")
        # ---- U1: what does the module name depend on?
        di = DepInterp()
        st = DepSt().set("file", frozenset({"file"}))
        di.run_function(rd, st)
        calls = [c for c in walk_no_nested(rd) if isinstance(c, ast.Call) and norm(c.func) == "import_from_path"]
        cg = [c for c in walk_no_nested(rd) if isinstance(c, ast.Call) and norm(c.func) == "_codegen"]
        if not calls or not cg:
            raise AnalysisError("read(): import_from_path / _codegen calls not found")
        name_arg = calls[0].args[0]
        # expand the name expression through local definitions
        defs = {}
        for s in strip_docstring(rd.body):
            if isinstance(s, ast.Assign) and isinstance(s.targets[0], ast.Name):
                defs[s.targets[0].id] = s.value

        # a hash object fed incrementally is the hash of the concatenation of what it was fed
        for hname, hv in list(defs.items()):
            if isinstance(hv, ast.Call) and norm(hv.func).startswith("hashlib."):
                fed = list(hv.args)
                for c_ in walk_no_nested(rd):
                    if isinstance(c_, ast.Call) and norm(c_.func) == f"{hname}.update" and c_.args:
                        fed.append(c_.args[0])
                if fed:
                    cat = fed[0]
                    for x_ in fed[1:]:
                        cat = ast.BinOp(left=cat, op=ast.Add(), right=x_)
                    defs[hname] = ast.Call(func=hv.func, args=[cat], keywords=[])

        def expand(e, depth=0) -> str:
            t = norm(e)
            if depth > 4:
                return t
            for n in ast.walk(e):
                if isinstance(n, ast.Name) and n.id in defs:
                    t = t.replace(n.id, "(" + expand(defs[n.id], depth + 1) + ")")
            return t

        full = expand(name_arg)
        content = any(k in full for k in CONTENT_SOURCES)
        path_only = any(k in full for k in PATH_SOURCES) and not content
        injective = content
        cons = "module-key"
        if injective:
            self.holds("U1", MOD, "read", cons, calls[0], f"module name `{norm(name_arg)}` = {full[:140]} depends on the resolved path / content of the document")
        else:
            self.violated("U1", MOD, "read", cons, calls[0],
                          (f"module name `{norm(name_arg)}` = {full[:100]} depends on the document's path but not on its content: a document rewritten at the same path "
                           "replaces the generated source of the model imported before" if path_only else
                           f"module name `{norm(name_arg)}` = {full[:100]} depends only on lossy derivatives of the path (stem, normalised text): different documents share one generated module"),
                          witness="write A to m.xml, read it; write B to m.xml, read it: source lookups for A's functions (export, symbolic model) now see B's functions"
                          if path_only else "read('a/m.xml'); read('b/m.xml'): to_symbolic_model of the first model now sees (or fails on) the second document's functions")
        same = norm(cg[0].args[0]) == norm(name_arg)
        cgf = mod.func("_codegen")
        path_stmt = [s for s in walk_no_nested(cgf) if isinstance(s, ast.Assign) and norm(s.targets[0]) == "path"]
        uses_name = path_stmt and "{name}" in norm(path_stmt[0].value)
        if same and uses_name:
            self.holds("U1", MOD, "_codegen", "file-path-key", path_stmt[0], "the generated file is named after the same key as the module")
        else:
            self.violated("U1", MOD, "_codegen", "file-path-key", path_stmt[0] if path_stmt else cgf, "generated file name and module key are derived differently")
        # ---- U6
        n6 = 0
        for tname, qual, key, node in memo_tables(mod):
            n6 += 1
            c6 = classify_memo_key(key)
            if c6 == "ok":
                self.holds("U6", MOD, qual, f"memo {tname}", node, f"module-level table `{tname}` keyed by `{key[:60]}`")
            else:
                self.violated("U6", MOD, qual, f"memo {tname}", node,
                              f"module-level table `{tname}` is keyed by `{key[:70]}` ({'the path but not the content of the document' if c6 == 'path-only' else 'a non-injective name'}): "
                              "a different document at the same key is answered with the model imported before",
                              witness="write A to m.xml, read it; write B to m.xml, read it: the second read returns A's model")
        self.holds("U6", MOD, "<module>", "module-level-state", mod.tree, f"{n6} module-level memo table(s) written by functions of the import module")
        # ---- U5
        opens = [n for n in walk_no_nested(cgf) if isinstance(n, ast.With)]
        ret = [r for r in walk_no_nested(cgf) if isinstance(r, ast.Return)]
        if opens and ret and norm(ret[-1].value) == "path" and "f.write(generate_mxlpy_code_from_symbolic_repr(sym" in norm(opens[0]):
            self.holds("U5", MOD, "_codegen", "write-then-return-path", opens[0], "source written (file closed) before its path is returned for import")
        else:
            self.violated("U5", MOD, "_codegen", "write-then-return-path", cgf, "the generated source is not written and closed before it is imported")
        ifp = mod.func("import_from_path")
        t = " ".join(norm(ifp).split())
        if "spec_from_file_location(module_name, file_path)" in t and "loader.exec_module(module)" in t and "return module.create_model" in t:
            self.holds("U5", MOD, "import_from_path", "model-from-that-module", ifp, "the model factory is taken from the module executed from that file")
        else:
            self.violated("U5", MOD, "import_from_path", "model-from-that-module", ifp, "the model factory does not come from the freshly executed module")
        # ---- U2
        def args_ok(c):
            kw_ = {k.arg: norm(k.value) for k in c.keywords}
            core = f"free_symbols({kw_.get('expr')})"
            # any order of the expression's own free symbols is fine: definition and call use the same list object
            return kw_.get("args") in (core, f"sorted({core})", f"list({core})", f"tuple({core})")

        for kind in ("derived", "reactions"):
            # where the component table is filled: a store `sym.<kind>[..] = ..` or the `<kind>=` argument of the SymbolicRepr constructor
            sites = [s_.value for s_ in walk_no_nested(cgf) if isinstance(s_, ast.Assign) and isinstance(s_.targets[0], ast.Subscript) and norm(s_.targets[0].value) == f"sym.{kind}"]
            sites += [k_.value for c_ in walk_no_nested(cgf) if isinstance(c_, ast.Call) and norm(c_.func) == "SymbolicRepr" for k_ in c_.keywords if k_.arg == kind]
            fns = [c for v_ in sites for c in ast.walk(v_) if isinstance(c, ast.Call) and norm(c.func) == "SymbolicFn"]
            if fns and all(args_ok(c) for c in fns):
                self.holds("U2", MOD, "_codegen", f"args-of-{kind}", fns[0], "args = free_symbols(expr) of the very expression that becomes the body")
            else:
                self.violated("U2", MOD, "_codegen", f"args-of-{kind}", fns[0] if fns else cgf, f"argument list of {kind} functions is not the free symbols of their own expression",
                              witness="the generated function is called with arguments in another order / of another expression")
        gen = self.prog.module(GENMOD).func("generate_mxlpy_code_from_symbolic_repr")
        # def emission uses functions[...] = (expr, args) and the call uses the same .args attribute
        regs = [c for c in walk_no_nested(gen) if isinstance(c, ast.Call) and norm(c.func) == "_register_fn"]
        sc = Scope(gen)
        n_ok = 0
        for c in regs:
            obj = norm(c.args[-1]).rsplit(".", 1)[0]  # fn.args -> fn
            stmt = sc.stmt_of(c)
            later = sorted((j for j in ast.walk(gen) if isinstance(j, ast.JoinedStr) and j.lineno > c.lineno
                            and any(isinstance(v, ast.Constant) and (".add_" in str(v.value) or "Derived(" in str(v.value)) for v in j.values)),
                           key=lambda j: j.lineno)
            tgt = norm(stmt.targets[0]) if isinstance(stmt, ast.Assign) else None
            interpolated = []
            for j in later:
                vals = [norm(v.value) for v in j.values if isinstance(v, ast.FormattedValue)]
                if tgt in vals:
                    interpolated = vals
                    break
            used = f"{obj}.args" in interpolated and not any(x != f"{obj}.args" and f"{obj}.args" in x for x in interpolated)
            cons = f"def-and-call-args {obj}"
            if used and norm(c.args[-1]) == f"{obj}.args" and norm(c.args[-2]) == f"{obj}.expr":
                n_ok += 1
                self.holds("U2", GENMOD, gen.name, cons, c, f"definition registered with ({obj}.expr, {obj}.args); the builder call is emitted with args={{{obj}.args}}")
            else:
                self.violated("U2", GENMOD, gen.name, cons, c, "the emitted definition and the emitted builder call take their argument lists from different expressions")
        pf = self.prog.module(TOOLS).func("sympy_to_python_fn")
        if "for i in args" in norm(pf) and "pycode(expr" in norm(pf):
            self.holds("U2", TOOLS, pf.name, "def-signature-from-args", pf, "the def's parameter list is exactly `args`, in order")
        else:
            self.violated("U2", TOOLS, pf.name, "def-signature-from-args", pf, "the emitted def does not take exactly `args` as parameters")
        # ---- U4
        ts = mod.func("_transform_stoichiometry")
        pk, pv = [a_.arg for a_ in ts.args.args][:2]
        rets4 = SymInterp().run_function(ts, Sym()).returns
        ok4 = bool(rets4)
        kinds4 = set()
        for st, _ in rets4:
            rv = [e[1] for e in st.events if e[0] == "return"]
            rv = rv[-1] if rv else "None"
            is_float = [p_ for c, p_ in st.conds if c == f"isinstance({pv}, sympy.Float)"]
            is_sym = [p_ for c, p_ in st.conds if c == f"isinstance({pv}, sympy.Symbol)"]
            if is_float and is_float[-1]:
                kinds4.add("float")
                ok4 = ok4 and rv == pv
            elif is_sym and is_sym[-1]:
                kinds4.add("symbol")
                ok4 = ok4 and rv == f"{pv}.name"
            else:
                kinds4.add("other")
                ok4 = ok4 and rv in (f"SymbolicFn({pk}, expr={pv}, args=free_symbols({pv}))", f"SymbolicFn(fn_name={pk}, expr={pv}, args=free_symbols({pv}))")
        if ok4 and kinds4 == {"float", "symbol", "other"}:
            self.holds("U4", MOD, ts.name, "exhaustive", ts, "Float -> number, Symbol -> name, everything else -> computed coefficient over its own free symbols")
        else:
            self.violated("U4", MOD, ts.name, "exhaustive", ts, "a stoichiometry shape falls through without being carried over",
                          witness="a rule-defined stoichiometry is dropped / a named one becomes a computed constant")
        # ---- U3
        ia = [l for l in strip_docstring(cgf.body) if isinstance(l, ast.For) and "initial_assignments" in norm(l.iter)]
        if not ia:
            self.violated("U3", MOD, "_codegen", "assignments-applied", cgf, "the document's initial assignments are not applied at all",
                          witness="a species with an <initialAssignment> starts from its plain initialConcentration")
        else:
            o3 = SymInterp().block(ia[0].body, [SymInterp().assign(ia[0].target, SymInterp().item(ia[0].iter, 0, Sym()), Sym())])
            K, E = "KEY(0, model.initial_assignments)", "VALUE(0, model.initial_assignments)"
            want_v = f"SymbolicFn(fn_name={K}, expr={E}, args=free_symbols({E}))"
            p3 = [st for st in list(o3.normal) + list(o3.continues)
                  if not any((c.endswith("] is not None") and not p_) or (c.endswith("] is None") and p_) for c, p_ in st.conds)]  # a table lookup is never None
            for kind in ("parameters", "variables"):
                sel = [st for st in p3 if (f"{K} in model.{kind}", True) in st.conds and not (kind == "variables" and (f"{K} in model.parameters", True) in st.conds)]
                ok3 = bool(sel) and all(st.stores() == [(f"sym.{kind}[{K}].value", want_v)] for st in sel)
                if ok3:
                    self.holds("U3", MOD, "_codegen", f"assignments-applied-to-{kind}", ia[0], f"an initial assignment on a {kind[:-1]} replaces its value by the assignment's function")
                else:
                    self.violated("U3", MOD, "_codegen", f"assignments-applied-to-{kind}", ia[0], f"initial assignments on {kind} are not applied",
                                  witness=f"a {kind[:-1]} with an <initialAssignment>: the imported model starts from the plain value")
            silently = [st for st in p3 if (f"{K} in model.parameters", False) in st.conds and (f"{K} in model.variables", False) in st.conds
                        and not st.stores() and not any(e[0] == "raise" for e in st.events)]
            if silently:
                self.info("U3", MOD, "_codegen", "assignment-on-other-target", ia[0],
                          "an initial assignment whose target is neither a parameter nor a variable of the transformed model is silently skipped; "
                          "whether pysbml can hand over such a target was not established, so this is not armed")

    def must_fire(self):
        return [
            Variant("reintroduce-stem-only", MOD, "read", "out_name = f'{valid_filename(file.stem)}_{digest}'", "out_name = valid_filename(file.stem)", expect="U1|", quick=True),
            Variant("digest-of-path-only", MOD, "read", "hashlib.sha256(str(file.resolve()).encode() + b'\\x00' + file.read_bytes())", "hashlib.sha256(str(file.resolve()).encode())", expect="U1|", quick=True),
            Variant("imported-models-cached-by-path", MOD, "", "def read(file: Path) -> Model:", "_IMPORTED: dict = {}\n\n\ndef remember_import(file, model_fn):\n    _IMPORTED[file.resolve()] = model_fn\n\n\ndef read(file: Path) -> Model:", expect="U6|", quick=True),
            Variant("species-assignments-dropped", MOD, "_codegen", "        elif key in model.variables:\n            sym.variables[key].value = SymbolicFn(fn_name=key, expr=der, args=free_symbols(der))\n", "", expect="U3|"),
            Variant("named-coefficient-becomes-one", MOD, "_transform_stoichiometry", "return v.name", "return sympy.Float(1.0)", expect="U4|"),
            Variant("digest-of-stem", MOD, "read", "hashlib.sha256(str(file.resolve()).encode() + b'\\x00' + file.read_bytes())", "hashlib.sha256(file.stem.encode())", expect="U1|", quick=True),
            Variant("args-from-other-expression", MOD, "_codegen", "sym.derived[key] = SymbolicFn(fn_name=key, expr=der, args=free_symbols(der))",
                    "sym.derived[key] = SymbolicFn(fn_name=key, expr=der, args=sorted(model.parameters))", expect="U2|", quick=True),
            Variant("call-args-sorted", GENMOD, "generate_mxlpy_code_from_symbolic_repr", "args={fn.args},\\n            )')\n    reactions_source", "args={sorted(fn.args)},\\n            )')\n    reactions_source", expect="U2|"),
            Variant("symbol-coefficient-dropped", MOD, "_transform_stoichiometry", "    if isinstance(v, sympy.Symbol):\n        return v.name\n", "", expect="U4|", quick=True),
            Variant("path-not-returned", MOD, "_codegen", "    return path", "    return default_tmp_dir(None, remove_old_cache=False) / 'model.py'", expect="U5|"),
        ]

    def must_stay_silent(self):
        return [
            Variant("reaction-args-sorted-consistently", MOD, "_codegen", "fn=SymbolicFn(fn_name=key, expr=rxn.expr, args=free_symbols(rxn.expr))", "fn=SymbolicFn(fn_name=key, expr=rxn.expr, args=sorted(free_symbols(rxn.expr)))"),
            Variant("md5-digest", MOD, "read", "hashlib.sha256(", "hashlib.md5(", quick=True),
        ]


CHECK = C17
