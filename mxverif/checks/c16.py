"""C16 - linear label model vs isotopomer model: the direction clause (DESIGN 4/C16, A.4)."""

from __future__ import annotations

import ast
import re as _re

from ..core import AnalysisError, Check, norm, strip_docstring
from ..interp import Sym, SymInterp
from ..variants import Variant
from .c05 import classify_reader

LIN = "linear_label_map.py"
ISO = "label_map.py"


class C16(Check):
    pid = "C16"
    title = "Linear label model tracks the isotopomer model's positional enrichment"
    rules = {
        "X5": "(shared with C05) the isotopomer mapper reads substrate / product occurrences in the declared order of the stoichiometry, the order the linear mapper and the label maps use (L7 of C05)",
        "X1": "both mappers read a label map in the documented gather direction (product position i <- substrate position "
              "labelmap[i]); the reader is located by role (what LinearLabelMapper.build_model applies to the substrate positions)",
        "X2": "per position pair the linear model's reaction is flux * label(substrate position), leaving the substrate pool with "
              "-1/pool(substrate) and entering the product pool with +1/pool(product); external positions are the EXT parameter",
        "X4": "expansion to label positions is occurrence-major: each copy of a species contributes all its positions consecutively "
              "(positions iterate in the innermost loop), matching the isotopomer mapper's per-occurrence label strings",
        "X3": "positions without a partner are padded with EXT at the end of the shorter side (the isotopomer mapper appends external labels at the end)",
    }
    floors = {"X1": 2, "X2": 4, "X3": 2, "X4": 2, "X5": 2}
    decided = [
        "the two mappers interpret every map (incl. non-involutive permutations) in the same, documented direction",
        "shape of the per-position label transfer terms",
    ]
    undecided = [
        "equality of the two models' rates of change at a metabolic steady state (needs evaluation of both models)",
        "stationarity of uniform enrichment; absence of label without source",
    ]
    assumptions = ["documented reading: docs/label-models.ipynb, 'DHAP(1) is built from GAP(3) ... [2, 1, 0]'"]

    def run(self) -> None:
        lin = self.prog.module(LIN)
        iso = self.prog.module(ISO)
        bm = lin.func("LinearLabelMapper.build_model")
        q = "LinearLabelMapper.build_model"
        self.borrow("C05", ("L7",), "X5")
        # locate the reader by role
        reader = None
        inline = None
        for n in ast.walk(bm):
            # any call of a module function with (positions, label_map), wherever its result goes
            if isinstance(n, ast.Call) and isinstance(n.func, ast.Name) and n.func.id in lin.functions and len(n.args) == 2 and norm(n.args[1]) == "label_map" and not n.keywords:
                f = lin.functions[n.func.id]
                if len(f.args.args) < 2:
                    continue
                cls_, _ = classify_reader(f, f.args.args[1].arg, f.args.args[0].arg)
                if cls_ != "none":
                    reader = (f, n)
        if reader is None:
            cls, ev = classify_reader(bm, "label_map", "subs", out_param="prods")
            if cls == "none":
                raise AnalysisError("no reader of the label map found in LinearLabelMapper.build_model")
            fq, node = q, ev[0]
        else:
            f, call = reader
            cls, ev = classify_reader(f, f.args.args[1].arg, f.args.args[0].arg)
            fq, node = f.name, ev[0]
        self.analysed = {"linear_reader": fq}
        if cls == "gather":
            self.holds("X1", LIN, fq, "map-direction", node, f"`{norm(node)}`: map elements index the substrate positions (gather)")
        elif cls == "scatter":
            self.violated("X1", LIN, fq, "map-direction", node,
                          f"`{norm(node)}`: map elements are used as product positions (scatter): the linear model applies the inverse "
                          "permutation of the documented reading that LabelMapper uses; they agree only for involutions such as [2,1,0]",
                          witness="A(3)->B(3) with label_maps {'v1':[2,0,1]}: isotopomer model sends A atom 1 to B atom 2, linear model to B atom 3")
        else:
            self.undecided_ob("X1", LIN, fq, "map-direction", node, f"reader mixes gather and scatter uses of the map ({cls})")
        rd = iso.func("_map_substrates_to_products")
        c2, ev2 = classify_reader(rd, "labelmap", "rate_suffix")
        if c2 == "gather":
            self.holds("X1", ISO, rd.name, "map-direction", ev2[0], f"`{norm(ev2[0])}` (gather)")
        elif c2 == "scatter":
            self.violated("X1", ISO, rd.name, "map-direction", ev2[0], "isotopomer mapper reads the map as scatter (inverse of the documented reading)")
        else:
            self.undecided_ob("X1", ISO, rd.name, "map-direction", rd, "reader not classifiable")

        self.x2(lin, bm, q)
        # X4: how species occurrences are expanded to label positions, read off the arguments of the padding call
        lm_loops = [l for l in strip_docstring(bm.body) if isinstance(l, ast.For) and norm(l.iter) == "self.label_maps.items()"]
        if not lm_loops:
            raise AnalysisError("build_model: loop over the label maps not found")
        o4 = SymInterp().block(lm_loops[0].body, [SymInterp().assign(lm_loops[0].target, SymInterp().item(lm_loops[0].iter, 0, Sym()), Sym())])

        class Pad(SymInterp):
            found: list = []

            def text(self_i, e, st):
                if isinstance(e, ast.Call) and norm(e.func) == "_add_label_influx_or_efflux":
                    Pad.found.append([SymInterp.text(self_i, a_, st) for a_ in e.args])
                return SymInterp.text(self_i, e, st)

        Pad.found = []
        Pad().block(lm_loops[0].body, [SymInterp().assign(lm_loops[0].target, SymInterp().item(lm_loops[0].iter, 0, Sym()), Sym())])
        pad_args = Pad.found[0] if Pad.found else None
        for i_, side in enumerate(("subs", "prods")):
            if not pad_args or len(pad_args) < 2:
                self.undecided_ob("X4", LIN, q, f"expansion-{side}", bm, "expansion of species occurrences to label positions not found")
                continue
            lc = ast.parse(pad_args[i_], mode="eval").body
            # list(chain.from_iterable(isotopomers[i] for i in SRC)) is the nested comprehension [j for i in SRC for j in isotopomers[i]]
            inner_ = lc
            while isinstance(inner_, ast.Call) and norm(inner_.func) in ("list", "tuple") and len(inner_.args) == 1:
                inner_ = inner_.args[0]
            if isinstance(inner_, ast.Call) and norm(inner_.func).endswith("chain.from_iterable") and len(inner_.args) == 1 \
                    and isinstance(inner_.args[0], (ast.GeneratorExp, ast.ListComp)) and len(inner_.args[0].generators) >= 1:
                g_ = inner_.args[0]
                j_ = ast.Name(id="_pos", ctx=ast.Load())
                lc = ast.ListComp(elt=j_, generators=[*g_.generators, ast.comprehension(target=ast.Name(id="_pos", ctx=ast.Store()), iter=g_.elt, ifs=[], is_async=0)])
                ast.fix_missing_locations(lc)
            anchor4 = [a_ for a_ in ast.walk(bm) if isinstance(a_, ast.ListComp) and "isotopomers[" in norm(a_)]
            anchor4 = anchor4[min(i_, len(anchor4) - 1)] if anchor4 else bm
            if not (isinstance(lc, ast.ListComp) and "isotopomers[" in norm(lc)):
                self.undecided_ob("X4", LIN, q, f"expansion-{side}", anchor4, f"expansion `{norm(lc)[:80]}` not recognised")
                continue
            gens = lc.generators
            last = norm(gens[-1].iter)
            bound_before = {n_.id for g in gens[:-1] for n_ in ast.walk(g.target) if isinstance(n_, ast.Name)}
            inner_ok = last.startswith("isotopomers[") and last[len("isotopomers["):-1] in bound_before and norm(lc.elt) == norm(gens[-1].target) and not any(g.ifs for g in gens)
            # multiplicity: the outermost source lists a species as often as its coefficient says
            src0 = norm(gens[0].iter)
            multi = None
            if "_stoichiometry_to_duplicate_list(" in src0 or ".elements()" in src0:
                multi = True
            elif len(gens) >= 3 and any("range(" in norm(g.iter) or "repeat(" in norm(g.iter) for g in gens[1:-1]):
                multi = True
            elif _re.fullmatch(r"_unpack_stoichiometries\(.*\)\[[01]\](\.keys\(\))?", src0) or _re.fullmatch(r"(list|tuple|sorted)\(_unpack_stoichiometries\(.*\)\[[01]\]\)", src0):
                multi = False
            if multi is False:
                self.violated("X4", LIN, q, f"multiplicity-{side}", anchor4, f"the species of one side are taken from `{src0[:70]}`, each once: a species with coefficient 2 contributes its label positions only once",
                              witness="2 A -> B (A with one position, B with two): the second B position is fed by the external pool instead of the second A")
            elif multi is True:
                self.holds("X4", LIN, q, f"multiplicity-{side}", anchor4, "each species is listed once per unit of its coefficient before its positions are laid out")
            else:
                self.undecided_ob("X4", LIN, q, f"multiplicity-{side}", anchor4, f"how `{src0[:70]}` lists repeated species was not recognised")
            if inner_ok:
                self.holds("X4", LIN, q, f"expansion-{side}", anchor4, "occurrences (coefficient copies) in the outer loops, positions innermost")
            else:
                self.violated("X4", LIN, q, f"expansion-{side}", anchor4,
                              f"`{norm(lc)[:90]}` repeats each position before moving to the next (positions are not the innermost loop): for a coefficient >= 2 the "
                              "copies of a species are interleaved position by position instead of laid out one after the other",
                              witness="A(4 positions) -> 2 B(2 positions): B expands to [B__0, B__0, B__1, B__1] instead of [B__0, B__1, B__0, B__1]")
        # X3: padding, decided on the list lengths for the three orderings of (substrates, products)
        pad = lin.func("_add_label_influx_or_efflux")
        for side, other in (("products", "substrates"), ("substrates", "products")):
            ok3, why3 = self.padding(pad, side, other)
            if ok3:
                self.holds("X3", LIN, pad.name, f"pad-{side}", pad, f"{side} padded with EXT at the end by the length difference")
            else:
                self.violated("X3", LIN, pad.name, f"pad-{side}", pad, f"{side} are not padded with EXT at the end up to the length of {other} ({why3})")

    def x2(self, lin, bm, q) -> None:
        # X2: small functions and their use
        import sympy

        def ret_expr(name):
            f = lin.func(name)
            r = [s for s in strip_docstring(f.body) if isinstance(s, ast.Return)]
            if len(r) != 1:
                raise AnalysisError(f"{name}: single return expected")
            syms = {a.arg: sympy.Symbol(f"a{i}") for i, a in enumerate(f.args.args)}

            def cv(e):
                if isinstance(e, ast.Name):
                    return syms[e.id]
                if isinstance(e, ast.Constant):
                    return sympy.nsimplify(e.value)
                if isinstance(e, ast.UnaryOp) and isinstance(e.op, ast.USub):
                    return -cv(e.operand)
                if isinstance(e, ast.BinOp):
                    a, b = cv(e.left), cv(e.right)
                    return {ast.Add: a + b, ast.Sub: a - b, ast.Mult: a * b, ast.Div: a / b}[type(e.op)]
                raise AnalysisError(f"{name}: `{norm(e)}` not interpretable")

            return cv(r[0].value), f

        a0, a1 = sympy.symbols("a0 a1")
        # one iteration of the per-position loop, as path summaries
        pos_loops = [l for l in ast.walk(bm) if isinstance(l, ast.For) and isinstance(l.iter, ast.Call) and norm(l.iter.func) == "enumerate" and l.iter.args
                     and isinstance(l.iter.args[0], ast.Call) and norm(l.iter.args[0].func) == "zip" and len(l.iter.args[0].args) == 2]
        if len(pos_loops) != 1:
            self.undecided_ob("X2", LIN, q, "per-position-terms", bm, "loop over enumerate(zip(sources, products)) not found")
            return
        pl = pos_loops[0]
        src_seq, dst_seq = norm(pl.iter.args[0].args[0]), norm(pl.iter.args[0].args[1])
        SRC, DST = f"ITEM(0, {src_seq})", f"ITEM(0, {dst_seq})"
        o2 = SymInterp().block(pl.body, [SymInterp().assign(pl.target, SymInterp().item(pl.iter, 0, Sym()), Sym())])
        paths2 = list(o2.normal) + list(o2.continues)
        adds = [(st, e[1]) for st in paths2 for e in st.events if e[0] == "call" and e[1].startswith("m.add_reaction(")]
        if not adds:
            raise AnalysisError("build_model: no path of the position loop adds a reaction")
        fn_names = set()
        args_ok = True
        for st, txt in adds:
            cn = ast.parse(txt, mode="eval").body
            kw = {k.arg: k.value for k in cn.keywords}
            fn_names.add(norm(kw.get("fn")))
            if norm(kw.get("args")) != f"[{SRC}, rxn_name]":
                args_ok = False
        calls = [c for c in ast.walk(bm) if isinstance(c, ast.Call) and norm(c.func) == "m.add_reaction"]
        fn_name = sorted(fn_names)[0]
        e, f = ret_expr(fn_name)
        if len(fn_names) == 1 and sympy.simplify(e - a0 * a1) == 0 and args_ok:
            self.holds("X2", LIN, fn_name, "transfer-rate", f, "rate = label(substrate position) * steady-state flux")
        else:
            self.violated("X2", LIN, fn_name, "transfer-rate", f, f"label transfer rate is `{e}` over args other than [substrate position, flux], not label(substrate position) * flux")
        # identical positions produce nothing
        same_skipped = all(not any(e_[0] == "call" and e_[1].startswith("m.add_reaction(") for e_ in st.events)
                           for st in paths2 if (f"{SRC} == {DST}", True) in st.conds or (f"{SRC} != {DST}", False) in st.conds)
        eq_paths = [st for st in paths2 if (f"{SRC} == {DST}", True) in st.conds or (f"{DST} == {SRC}", True) in st.conds or (f"{SRC} != {DST}", False) in st.conds]
        adding_unchecked = [st for st, _ in adds if not any(c in (f"{SRC} == {DST}", f"{DST} == {SRC}", f"{SRC} != {DST}", f"{DST} != {SRC}") for c, _ in st.conds)]
        if eq_paths and same_skipped and not adding_unchecked:
            self.holds("X2", LIN, q, "identity-pairs-skipped", pl, "a position that is carried onto itself creates no reaction")
        else:
            self.violated("X2", LIN, q, "identity-pairs-skipped", pl, "a position that the map carries onto itself still gets a transfer reaction: its two stoichiometry entries share one key, "
                          "the second (+1/pool) overwrites the first, and the position gains label out of nothing",
                          witness="A + B -> A + C with A mapped onto itself: A's enrichment grows with the flux although nothing is transferred")
        for side, want, POS in (("substrate", -1 / a0, SRC), ("product", 1 / a0, DST)):
            bad = None
            seen = False
            for st, _ in adds:
                is_ext = [(c, p_) for c, p_ in st.conds if c in (f"{POS} != 'EXT'", f"{POS} == 'EXT'")]
                tracked = bool(is_ext) and ((is_ext[-1][0].endswith("!= 'EXT'")) == is_ext[-1][1])
                stores = [e_ for e_ in st.events if e_[0] == "store" and e_[1] == f"stoichiometry[{POS}]"]
                if not is_ext:
                    bad = "the position is not tested against the external source 'EXT'"
                    continue
                if not tracked:
                    if stores:
                        bad = "a coefficient is set for the external source"
                    continue
                seen = True
                if len(stores) != 1:
                    bad = f"no coefficient is set for the {side} position"
                    continue
                try:
                    dn = ast.parse(stores[0][2], mode="eval").body
                except SyntaxError:
                    bad = "coefficient not parseable"
                    continue
                k = {x.arg: norm(x.value) for x in dn.keywords} if isinstance(dn, ast.Call) and norm(dn.func) == "Derived" else {}
                pools = (f"[{POS}.split('__')[0]]", f"[{POS}.partition('__')[0]]", f"[{POS}.split('__', 1)[0]]")
                if not k.get("fn") or k.get("args") not in pools:
                    bad = f"coefficient of the {side} position is `{stores[0][2][:80]}`, not a function of its own compound's pool"
                    continue
                e, f = ret_expr(k["fn"])
                if sympy.simplify(e - want) != 0:
                    bad = f"coefficient of the {side} position is `{e}`, not {want} of its own pool"
            node = [n for n in ast.walk(bm) if isinstance(n, ast.Assign) and isinstance(n.targets[0], ast.Subscript) and norm(n.targets[0].value) == "stoichiometry"]
            node = node[0 if side == "substrate" else -1] if node else bm
            if bad is None and seen:
                self.holds("X2", LIN, q, f"coefficient-{side}", node, f"{want} with a0 = total pool of the {side}'s compound")
            else:
                self.violated("X2", LIN, q, f"coefficient-{side}", node, bad or f"no coefficient is set for the {side} position",
                              witness="enrichment of the product position changes at the wrong rate or with the wrong sign")
        ext = [n for n in ast.walk(bm) if isinstance(n, ast.Dict) and "'EXT'" in [norm(k) for k in n.keys if k is not None]]
        if ext and norm(dict(zip([norm(k) for k in ext[0].keys], ext[0].values))["'EXT'"]) == "external_label":
            self.holds("X2", LIN, q, "external-parameter", ext[0], "EXT parameter = external_label")
        else:
            self.violated("X2", LIN, q, "external-parameter", bm, "the EXT label source is not bound to external_label")

    @staticmethod
    def padding(pad: ast.FunctionDef, side: str, other: str) -> tuple[bool, str]:
        """Length abstraction of the padding function: lists are their lengths (sympy expressions); the three orderings of the two
        input lengths are separate cases in which every comparison the function makes is decided by sign assumptions."""
        import sympy

        n = sympy.Symbol("n", integer=True, nonnegative=True)
        d = sympy.Symbol("d", integer=True, positive=True)
        cases = {"longer": {side: n + d, other: n}, "shorter": {side: n, other: n + d}, "equal": {side: n, other: n}}
        for cname, lens0 in cases.items():
            lens = dict(lens0)
            env: dict[str, object] = {}
            want = sympy.Max(lens0[side], lens0[other]) if cname == "equal" else (n + d)

            def ev(e):
                if isinstance(e, ast.Constant) and isinstance(e.value, int):
                    return sympy.Integer(e.value)
                if isinstance(e, ast.NamedExpr):
                    v = ev(e.value)
                    env[e.target.id] = v
                    return v
                if isinstance(e, ast.Name) and e.id in env:
                    return env[e.id]
                if isinstance(e, ast.Call) and norm(e.func) == "len" and norm(e.args[0]) in lens:
                    return lens[norm(e.args[0])]
                if isinstance(e, ast.Call) and norm(e.func) in ("max", "min") and len(e.args) == 2:
                    a_, b_ = ev(e.args[0]), ev(e.args[1])
                    df = sympy.simplify(a_ - b_)
                    if df.is_nonnegative:
                        return a_ if norm(e.func) == "max" else b_
                    if df.is_nonpositive:
                        return b_ if norm(e.func) == "max" else a_
                    raise ValueError("undecided max")
                if isinstance(e, ast.Call) and norm(e.func) == "abs" and len(e.args) == 1:
                    v = ev(e.args[0])
                    return v if v.is_nonnegative else -v if v.is_nonpositive else sympy.Abs(v)
                if isinstance(e, ast.BinOp) and isinstance(e.op, (ast.Add, ast.Sub)):
                    a_, b_ = ev(e.left), ev(e.right)
                    return a_ + b_ if isinstance(e.op, ast.Add) else a_ - b_
                if isinstance(e, ast.UnaryOp) and isinstance(e.op, ast.USub):
                    return -ev(e.operand)
                raise ValueError(f"`{norm(e)}` not interpretable")

            def decide(t):
                if isinstance(t, ast.Compare) and len(t.ops) == 1:
                    df = sympy.simplify(ev(t.left) - ev(t.comparators[0]))
                    op = type(t.ops[0])
                    table = {ast.Gt: (df.is_positive, df.is_nonpositive), ast.GtE: (df.is_nonnegative, df.is_negative), ast.Lt: (df.is_negative, df.is_nonnegative),
                             ast.LtE: (df.is_nonpositive, df.is_positive), ast.Eq: (df.is_zero, df.is_nonzero), ast.NotEq: (df.is_nonzero, df.is_zero)}
                    yes, no = table.get(op, (None, None))
                    if yes:
                        return True
                    if no:
                        return False
                raise ValueError(f"test `{norm(t)}` not decided in case {cname}")

            def pad_amount(e):
                """['EXT'] * N -> N (clamped at 0), else None"""
                if isinstance(e, ast.BinOp) and isinstance(e.op, ast.Mult):
                    lst_, cnt = (e.left, e.right) if isinstance(e.left, ast.List) else (e.right, e.left)
                    if isinstance(lst_, ast.List) and len(lst_.elts) == 1 and norm(lst_.elts[0]) == "'EXT'":
                        v = ev(cnt)
                        if v.is_nonnegative:
                            return v
                        if v.is_nonpositive:
                            return sympy.Integer(0)
                        raise ValueError("undecided padding amount")
                return None

            def run(stmts) -> bool:
                """False when the function left through raise / return."""
                for s_ in stmts:
                    if isinstance(s_, ast.If) and not s_.orelse and s_.body and isinstance(s_.body[-1], ast.Raise):
                        continue  # validation (of the map's length): the non-raising continuation is what is analysed
                    if isinstance(s_, ast.If):
                        if decide(s_.test):
                            if not run(s_.body):
                                return False
                        elif not run(s_.orelse):
                            return False
                    elif isinstance(s_, ast.Assign) and isinstance(s_.targets[0], ast.Name) and s_.targets[0].id not in lens:
                        try:
                            env[s_.targets[0].id] = ev(s_.value)
                        except ValueError:
                            pass
                    elif isinstance(s_, ast.Expr) and isinstance(s_.value, ast.Call) and isinstance(s_.value.func, ast.Attribute) and norm(s_.value.func.value) in lens:
                        meth = s_.value.func.attr
                        if meth == "extend" and s_.value.args:
                            amt = pad_amount(s_.value.args[0])
                            if amt is None:
                                raise ValueError(f"`{norm(s_)}` extends by something other than EXT")
                            lens[norm(s_.value.func.value)] += amt
                        elif meth in ("insert", "append", "pop", "remove", "clear", "reverse", "sort"):
                            raise ValueError(f"`{norm(s_)}` changes the list other than by padding at the end")
                    elif isinstance(s_, ast.AugAssign) and norm(s_.target) in lens and isinstance(s_.op, ast.Add):
                        amt = pad_amount(s_.value)
                        if amt is None:
                            raise ValueError(f"`{norm(s_)}` extends by something other than EXT")
                        lens[norm(s_.target)] += amt
                    elif isinstance(s_, ast.Assign) and norm(s_.targets[0]) in lens:
                        v_ = s_.value
                        if isinstance(v_, ast.BinOp) and isinstance(v_.op, ast.Add) and norm(v_.left) == norm(s_.targets[0]) and pad_amount(v_.right) is not None:
                            lens[norm(s_.targets[0])] += pad_amount(v_.right)
                        else:
                            raise ValueError(f"`{norm(s_)}` rebuilds the list other than by padding at the end")
                    elif isinstance(s_, (ast.Raise, ast.Return)):
                        return False
                return True

            try:
                run(strip_docstring(pad.body))
            except ValueError as e_:
                return False, str(e_)
            if sympy.simplify(lens[side] - want) != 0:
                return False, f"case {side} {cname}: length becomes {lens[side]} instead of {want}"
        return True, ""

    def must_fire(self):
        return [
            Variant("reintroduce-scatter-helper", LIN, "LinearLabelMapper.build_model", "_gather_substrates_by_labelmap(subs, label_map)",
                    "_map_substrates_to_labelmap(subs, label_map)", expect="X1|linear_label_map.py|_map_substrates_to_labelmap|map-direction", quick=True),
            Variant("inline-scatter-on-products", LIN, "LinearLabelMapper.build_model",
                    "        subs = _gather_substrates_by_labelmap(subs, label_map)\n        for i, (substrate, product) in enumerate(zip(subs, prods, strict=True)):",
                    "        for i in range(len(label_map)):\n            substrate, product = subs[i], prods[label_map[i]]", expect="X1|", quick=True),
            Variant("position-major-expansion", LIN, "LinearLabelMapper.build_model", "prods = [j for i in prods for j in isotopomers[i]]",
                    "prods = [j for i in dict.fromkeys(prods) for j in isotopomers[i] for _ in range(prods.count(i))]", expect="X4|", quick=True),
            Variant("gather-helper-becomes-scatter", LIN, "_gather_substrates_by_labelmap", "    return [substrates[pos] for pos in labelmap]",
                    "    res = list(substrates)\n    for i, pos in enumerate(labelmap):\n        res[pos] = substrates[i]\n    return res", expect="X1|", quick=True),
            Variant("iso-reader-scatter", ISO, "_map_substrates_to_products", "    return ''.join([rate_suffix[i] for i in labelmap])",
                    "    out = [''] * len(labelmap)\n    for src, dst in enumerate(labelmap):\n        out[dst] = rate_suffix[src]\n    return ''.join(out)", expect="X1|label_map.py"),
            Variant("product-coefficient-negative", LIN, "LinearLabelMapper.build_model", "Derived(fn=_one_div, args=[product.split('__')[0]])",
                    "Derived(fn=_neg_one_div, args=[product.split('__')[0]])", expect="X2|", quick=True),
            Variant("product-uses-substrate-pool", LIN, "LinearLabelMapper.build_model", "Derived(fn=_one_div, args=[product.split('__')[0]])",
                    "Derived(fn=_one_div, args=[substrate.split('__')[0]])", expect="X2|"),
            Variant("rate-from-product-label", LIN, "LinearLabelMapper.build_model", "args=[substrate, rxn_name]", "args=[product, rxn_name]", expect="X2|"),
            Variant("one-div-wrong", LIN, "_one_div", "return 1 / y", "return y", expect="X2|"),
            Variant("pad-front", LIN, "_add_label_influx_or_efflux", "substrates.extend(['EXT'] * diff)", "substrates[:0] = ['EXT'] * diff", expect="X3|"),
        ]

    def must_stay_silent(self):
        return [
            Variant("inline-gather", LIN, "LinearLabelMapper.build_model", "_gather_substrates_by_labelmap(subs, label_map)", "[subs[pos] for pos in label_map]", quick=True),
            Variant("rename-pos", LIN, "_gather_substrates_by_labelmap", r"\bpos\b", "src", count=0, regex=True),
        ]


CHECK = C16
