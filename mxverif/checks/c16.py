"""C16 - linear label model vs isotopomer model: the direction clause (DESIGN 4/C16, A.4)."""

from __future__ import annotations

import ast

from ..core import AnalysisError, Check, norm, strip_docstring
from ..variants import Variant
from .c05 import classify_reader

LIN = "linear_label_map.py"
ISO = "label_map.py"


class C16(Check):
    pid = "C16"
    title = "Linear label model tracks the isotopomer model's positional enrichment"
    rules = {
        "X1": "both mappers read a label map in the documented gather direction (product position i <- substrate position "
              "labelmap[i]); the reader is located by role (what LinearLabelMapper.build_model applies to the substrate positions)",
        "X2": "per position pair the linear model's reaction is flux * label(substrate position), leaving the substrate pool with "
              "-1/pool(substrate) and entering the product pool with +1/pool(product); external positions are the EXT parameter",
        "X4": "expansion to label positions is occurrence-major: each copy of a species contributes all its positions consecutively "
              "(positions iterate in the innermost loop), matching the isotopomer mapper's per-occurrence label strings",
        "X3": "positions without a partner are padded with EXT at the end of the shorter side (the isotopomer mapper appends external labels at the end)",
    }
    floors = {"X1": 2, "X2": 4, "X3": 2, "X4": 2}
    decided = [
        "the two mappers interpret every map (incl. non-involutive permutations) in the same, documented direction",
        "shape of the per-position label transfer terms",
    ]
    undecided = [
        "equality of the two models' rates of change at a metabolic steady state (needs evaluation of both models)",
        "stationarity of uniform enrichment; absence of label without source",
    ]
    assumptions = ["documented reading: docs/label-models.ipynb, 'DHAP(1) is built from GAP(3) ... [2, 1, 0]'"]

    def run(self) -> None:
        lin = self.prog.module(LIN)
        iso = self.prog.module(ISO)
        bm = lin.func("LinearLabelMapper.build_model")
        q = "LinearLabelMapper.build_model"
        # locate the reader by role
        reader = None
        inline = None
        for n in ast.walk(bm):
            if isinstance(n, ast.Assign) and isinstance(n.value, ast.Call) and isinstance(n.value.func, ast.Name) \
                    and n.value.func.id in lin.functions and len(n.value.args) == 2 and norm(n.value.args[1]) == "label_map" \
                    and norm(n.targets[0]) == norm(n.value.args[0]):
                f = lin.functions[n.value.func.id]
                cls_, _ = classify_reader(f, f.args.args[1].arg, f.args.args[0].arg)
                if cls_ != "none":
                    reader = (f, n)
        if reader is None:
            cls, ev = classify_reader(bm, "label_map", "subs", out_param="prods")
            if cls == "none":
                raise AnalysisError("no reader of the label map found in LinearLabelMapper.build_model")
            fq, node = q, ev[0]
        else:
            f, call = reader
            cls, ev = classify_reader(f, f.args.args[1].arg, f.args.args[0].arg)
            fq, node = f.name, ev[0]
        self.analysed = {"linear_reader": fq}
        if cls == "gather":
            self.holds("X1", LIN, fq, "map-direction", node, f"`{norm(node)}`: map elements index the substrate positions (gather)")
        elif cls == "scatter":
            self.violated("X1", LIN, fq, "map-direction", node,
                          f"`{norm(node)}`: map elements are used as product positions (scatter): the linear model applies the inverse "
                          "permutation of the documented reading that LabelMapper uses; they agree only for involutions such as [2,1,0]",
                          witness="A(3)->B(3) with label_maps {'v1':[2,0,1]}: isotopomer model sends A atom 1 to B atom 2, linear model to B atom 3")
        else:
            self.undecided_ob("X1", LIN, fq, "map-direction", node, f"reader mixes gather and scatter uses of the map ({cls})")
        rd = iso.func("_map_substrates_to_products")
        c2, ev2 = classify_reader(rd, "labelmap", "rate_suffix")
        if c2 == "gather":
            self.holds("X1", ISO, rd.name, "map-direction", ev2[0], f"`{norm(ev2[0])}` (gather)")
        elif c2 == "scatter":
            self.violated("X1", ISO, rd.name, "map-direction", ev2[0], "isotopomer mapper reads the map as scatter (inverse of the documented reading)")
        else:
            self.undecided_ob("X1", ISO, rd.name, "map-direction", rd, "reader not classifiable")

        # X2: small functions and their use
        import sympy

        def ret_expr(name):
            f = lin.func(name)
            r = [s for s in strip_docstring(f.body) if isinstance(s, ast.Return)]
            if len(r) != 1:
                raise AnalysisError(f"{name}: single return expected")
            syms = {a.arg: sympy.Symbol(f"a{i}") for i, a in enumerate(f.args.args)}

            def cv(e):
                if isinstance(e, ast.Name):
                    return syms[e.id]
                if isinstance(e, ast.Constant):
                    return sympy.nsimplify(e.value)
                if isinstance(e, ast.UnaryOp) and isinstance(e.op, ast.USub):
                    return -cv(e.operand)
                if isinstance(e, ast.BinOp):
                    a, b = cv(e.left), cv(e.right)
                    return {ast.Add: a + b, ast.Sub: a - b, ast.Mult: a * b, ast.Div: a / b}[type(e.op)]
                raise AnalysisError(f"{name}: `{norm(e)}` not interpretable")

            return cv(r[0].value), f

        a0, a1 = sympy.symbols("a0 a1")
        calls = [c for c in ast.walk(bm) if isinstance(c, ast.Call) and norm(c.func) == "m.add_reaction"]
        if len(calls) != 1:
            raise AnalysisError("build_model: single m.add_reaction expected")
        kw = {k.arg: k.value for k in calls[0].keywords}
        fn_name = norm(kw["fn"])
        e, f = ret_expr(fn_name)
        if sympy.simplify(e - a0 * a1) == 0 and norm(kw["args"]) == "[substrate, rxn_name]":
            self.holds("X2", LIN, fn_name, "transfer-rate", f, "rate = label(substrate position) * steady-state flux")
        else:
            self.violated("X2", LIN, fn_name, "transfer-rate", f, f"label transfer rate is `{e}` over args {norm(kw['args'])}, not label(substrate position) * flux")
        der = {}
        for n in ast.walk(bm):
            if isinstance(n, ast.Assign) and isinstance(n.targets[0], ast.Subscript) and norm(n.targets[0].value) == "stoichiometry" \
                    and isinstance(n.value, ast.Call) and norm(n.value.func) == "Derived":
                k = {x.arg: norm(x.value) for x in n.value.keywords}
                der[norm(n.targets[0].slice)] = (k.get("fn"), k.get("args"), n)
        for side, want, pool in (("substrate", -1 / a0, "substrate"), ("product", 1 / a0, "product")):
            if side not in der:
                self.violated("X2", LIN, q, f"coefficient-{side}", bm, f"no coefficient is set for the {side} position")
                continue
            fnn, args, node = der[side]
            e, f = ret_expr(fnn)
            if sympy.simplify(e - want) == 0 and args == f"[{pool}.split('__')[0]]":
                self.holds("X2", LIN, q, f"coefficient-{side}", node, f"{want} with a0 = total pool of the {side}'s compound")
            else:
                self.violated("X2", LIN, q, f"coefficient-{side}", node, f"coefficient of the {side} position is `{e}` of {args}, not {want} of its own pool",
                              witness="enrichment of the product position changes at the wrong rate or with the wrong sign")
        ext = [n for n in ast.walk(bm) if isinstance(n, ast.Dict) and "'EXT'" in [norm(k) for k in n.keys if k is not None]]
        if ext and norm(dict(zip([norm(k) for k in ext[0].keys], ext[0].values))["'EXT'"]) == "external_label":
            self.holds("X2", LIN, q, "external-parameter", ext[0], "EXT parameter = external_label")
        else:
            self.violated("X2", LIN, q, "external-parameter", bm, "the EXT label source is not bound to external_label")
        # X4
        for side in ("subs", "prods"):
            comps = [a for a in ast.walk(bm) if isinstance(a, ast.Assign) and norm(a.targets[0]) == side and isinstance(a.value, ast.ListComp)
                     and "isotopomers[" in norm(a.value)]
            if not comps:
                self.undecided_ob("X4", LIN, q, f"expansion-{side}", bm, "expansion of species occurrences to label positions not found")
                continue
            lc = comps[0].value
            gens = lc.generators
            last = norm(gens[-1].iter)
            dup = [a for a in ast.walk(bm) if isinstance(a, ast.Assign) and norm(a.targets[0]) == side and norm(a.value) == f"_stoichiometry_to_duplicate_list({side})"
                   and a.lineno < comps[0].lineno]
            occurrence_outer = len(gens) == 2 and norm(gens[0].iter) == side and last == f"isotopomers[{norm(gens[0].target)}]" and norm(lc.elt) == norm(gens[1].target)
            if occurrence_outer and dup:
                self.holds("X4", LIN, q, f"expansion-{side}", comps[0], "occurrences (coefficient copies) in the outer loop, positions innermost")
            elif last.startswith("isotopomers["):
                self.holds("X4", LIN, q, f"expansion-{side}", comps[0], "positions iterate in the innermost loop")
            else:
                self.violated("X4", LIN, q, f"expansion-{side}", comps[0],
                              f"`{norm(lc)[:90]}` repeats each position before moving to the next (positions are not the innermost loop): for a coefficient >= 2 the "
                              "copies of a species are interleaved position by position instead of laid out one after the other",
                              witness="A(4 positions) -> 2 B(2 positions): B expands to [B__0, B__0, B__1, B__1] instead of [B__0, B__1, B__0, B__1]")
        dl = lin.func("_stoichiometry_to_duplicate_list")
        if "long_form.extend([k] * v)" in norm(dl) and ".items()" in norm(dl) and "sorted" not in norm(dl):
            pass
        # X3
        pad = lin.func("_add_label_influx_or_efflux")
        t = norm(pad)
        for side, other in (("products", "substrates"), ("substrates", "products")):
            want = f"if (diff := (len({other}) - len({side}))) > 0: {side}.extend(['EXT'] * diff)"
            if want in t:
                self.holds("X3", LIN, pad.name, f"pad-{side}", pad, f"{side} padded with EXT at the end by the length difference")
            else:
                self.violated("X3", LIN, pad.name, f"pad-{side}", pad, f"{side} are not padded with EXT at the end up to the length of {other}")

    def must_fire(self):
        return [
            Variant("reintroduce-scatter-helper", LIN, "LinearLabelMapper.build_model", "_gather_substrates_by_labelmap(subs, label_map)",
                    "_map_substrates_to_labelmap(subs, label_map)", expect="X1|linear_label_map.py|_map_substrates_to_labelmap|map-direction", quick=True),
            Variant("inline-scatter-on-products", LIN, "LinearLabelMapper.build_model",
                    "        subs = _gather_substrates_by_labelmap(subs, label_map)\n        for i, (substrate, product) in enumerate(zip(subs, prods, strict=True)):",
                    "        for i in range(len(label_map)):\n            substrate, product = subs[i], prods[label_map[i]]", expect="X1|", quick=True),
            Variant("position-major-expansion", LIN, "LinearLabelMapper.build_model", "prods = [j for i in prods for j in isotopomers[i]]",
                    "prods = [j for i in dict.fromkeys(prods) for j in isotopomers[i] for _ in range(prods.count(i))]", expect="X4|", quick=True),
            Variant("gather-helper-becomes-scatter", LIN, "_gather_substrates_by_labelmap", "    return [substrates[pos] for pos in labelmap]",
                    "    res = list(substrates)\n    for i, pos in enumerate(labelmap):\n        res[pos] = substrates[i]\n    return res", expect="X1|", quick=True),
            Variant("iso-reader-scatter", ISO, "_map_substrates_to_products", "    return ''.join([rate_suffix[i] for i in labelmap])",
                    "    out = [''] * len(labelmap)\n    for src, dst in enumerate(labelmap):\n        out[dst] = rate_suffix[src]\n    return ''.join(out)", expect="X1|label_map.py"),
            Variant("product-coefficient-negative", LIN, "LinearLabelMapper.build_model", "Derived(fn=_one_div, args=[product.split('__')[0]])",
                    "Derived(fn=_neg_one_div, args=[product.split('__')[0]])", expect="X2|", quick=True),
            Variant("product-uses-substrate-pool", LIN, "LinearLabelMapper.build_model", "Derived(fn=_one_div, args=[product.split('__')[0]])",
                    "Derived(fn=_one_div, args=[substrate.split('__')[0]])", expect="X2|"),
            Variant("rate-from-product-label", LIN, "LinearLabelMapper.build_model", "args=[substrate, rxn_name]", "args=[product, rxn_name]", expect="X2|"),
            Variant("one-div-wrong", LIN, "_one_div", "return 1 / y", "return y", expect="X2|"),
            Variant("pad-front", LIN, "_add_label_influx_or_efflux", "substrates.extend(['EXT'] * diff)", "substrates[:0] = ['EXT'] * diff", expect="X3|"),
        ]

    def must_stay_silent(self):
        return [
            Variant("inline-gather", LIN, "LinearLabelMapper.build_model", "_gather_substrates_by_labelmap(subs, label_map)", "[subs[pos] for pos in label_map]", quick=True),
            Variant("rename-pos", LIN, "_gather_substrates_by_labelmap", r"\bpos\b", "src", count=0, regex=True),
        ]


CHECK = C16
