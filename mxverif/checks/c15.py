"""C15 - steady states: the failure half (DESIGN 4/C15)."""

from __future__ import annotations

import ast

from ..core import AnalysisError, Check, Scope, norm, strip_docstring, walk_no_nested
from ..interp import Sym, SymInterp
from ..variants import Variant

SCIPY = "integrators/int_scipy.py"
SIM = "simulator.py"
TYPES = "types.py"


class C15(Check):
    pid = "C15"
    title = "Steady-state results are steady states; absence is reported as failure"
    rules = {
        "Z4": "(shared with C01) the state handed to the integrator and the columns of what comes back are both in the declaration order of the variables, so a steady state is reported under the right names (A2 of C01)",
        "Z1": "a successful course is returned by integrate_to_steady_state only under the dominating test "
              "`norm(change between consecutive iterates) < tolerance`; the iterate is advanced every step; the loop's fall-through is the failure value",
        "Z3": "the previous iterate is a private copy: a value bound directly to the result of the third-party stepper (which hands out its "
              "internal, reused state buffer) must not be carried as the reference state - `prev = cur` without a copy aliases the buffer and the "
              "measured change is identically zero",
        "Z2": "failure plumbing: the integrator's result goes to the result handler, failures land in Simulator._errors, get_result returns "
              "the first error before looking at frames, Result.default substitutes only for exceptions",
    }
    floors = {"Z1": 4, "Z2": 4, "Z3": 1, "Z4": 5}
    decided = [
        "a state is presented as steady only after the convergence test passed; exhaustion of the step budget yields NoSteadyState",
        "a failure value can never be replaced by frames on its way to the caller (and becomes the NaN default in scans, C09/P4)",
    ]
    undecided = ["that the convergence criterion implies stationarity (depends on the model's relaxation time vs. the step size)",
                 "agreement with analytic steady states; balance of reported fluxes"]
    assumptions = ["numpy.linalg.norm semantics", "scipy.integrate.ode.integrate returns its internal state array (same object on every call) - verified against scipy 1.18.1 source"]

    def run(self) -> None:
        self.borrow("C01", ("A2",), "Z4")
        self.z1(SCIPY, "Scipy", confirmed=True)
        self.z2()

    def run_thorough(self) -> None:
        for rel, cls in (("integrators/int_diffrax.py", "Diffrax"), ("integrators/int_assimulo.py", "Assimulo")):
            if rel in self.prog.sources:
                self.z1(rel, cls, confirmed=False)

    def z1(self, rel, cls, confirmed) -> None:
        mod = self.prog.module(rel)
        fn = mod.methods(cls).get("integrate_to_steady_state")
        if fn is None:
            raise AnalysisError(f"{rel}: {cls}.integrate_to_steady_state missing")
        q = f"{cls}.integrate_to_steady_state"
        sc = Scope(fn)
        rep = self.violated if confirmed else (lambda rule, m, f, c, n, why, witness="": self.info(rule, m, f, c, n, why + " [sibling back end, unconfirmed]"))
        succ = [r for r in walk_no_nested(fn) if isinstance(r, ast.Return) and r.value is not None and "TimeCourse(" in norm(r.value)]
        if not succ:
            raise AnalysisError(f"{q}: no success return")
        if not confirmed:
            for r in succ:
                ok = False
                for t, pol in sc.guards(r):
                    if isinstance(t, ast.Compare) and len(t.ops) == 1 and pol and isinstance(t.ops[0], (ast.Lt, ast.LtE)) \
                            and "norm(" in norm(t.left) and norm(t.comparators[0]) == "tolerance":
                        ok = True
                        arg = norm(t.left)
                if ok:
                    self.holds("Z1", rel, q, "success-under-convergence-test", r, f"returned only when `{arg} < tolerance`")
                else:
                    rep("Z1", rel, q, "success-under-convergence-test", r,
                        "a course is returned as steady state without the dominating test `norm(change) < tolerance`",
                        witness="dx/dt = k (unbounded growth): simulate_to_steady_state() returns a state instead of NoSteadyState")
        if confirmed:
            self.z1_paths(rel, q, fn)
        else:
            self.z1_names(rel, q, fn, rep)
        # fall-through is the failure value
        last = strip_docstring(fn.body)[-1]
        if isinstance(last, ast.Return) and norm(last.value) == "Result(NoSteadyState())":
            self.holds("Z1", rel, q, "fall-through-is-failure", last, "budget exhausted -> Result(NoSteadyState())")
        else:
            rep("Z1", rel, q, "fall-through-is-failure", last, f"after the step budget the method ends with `{norm(last)[:60]}` instead of the failure value",
                witness="unbounded accumulation: the last iterate is presented as steady state")

    def z1_names(self, rel, q, fn, rep) -> None:
            # change measured between consecutive iterates
            diffs = [s for s in walk_no_nested(fn) if isinstance(s, ast.Assign) and norm(s.targets[0]) == "diff"]
            if diffs:
                d = norm(diffs[0].value).replace(" ", "")
                forms = ("(y2-y1)/y1ifrel_normelsey2-y1", "(y[-1]-y[-2])/y[-1]ifrel_normelsey[-1]-y[-2]")
                if d in forms:
                    self.holds("Z1", rel, q, "change-definition", diffs[0], f"diff = {norm(diffs[0].value)}")
                else:
                    rep("Z1", rel, q, "change-definition", diffs[0], f"`{norm(diffs[0].value)}` is not the change between the last two iterates (absolute / relative by flag)",
                        witness="convergence is declared against the wrong reference state")
            else:
                self.undecided_ob("Z1", rel, q, "change-definition", fn, "definition of the change not recognised")
            loops = [s for s in strip_docstring(fn.body) if isinstance(s, (ast.For, ast.While))] + \
                    [s2 for s in strip_docstring(fn.body) if isinstance(s, ast.Try) for s2 in s.body if isinstance(s2, ast.For)]
            if loops and "y1" in norm(fn):
                adv = [s for s in loops[0].body if isinstance(s, ast.Assign) and norm(s) == "y1 = y2"]
                stepped = [s for s in loops[0].body if isinstance(s, ast.AugAssign) and norm(s.target) == "t" and isinstance(s.op, ast.Add)]
                if adv and stepped:
                    self.holds("Z1", rel, q, "iterate-advanced", adv[0], "y1 := y2 and t += step every iteration")
                else:
                    rep("Z1", rel, q, "iterate-advanced", loops[0], "the reference iterate / the time is not advanced each step: convergence is tested against a stale state",
                        witness="any model: the first small step relative to the INITIAL state never occurs, or the same time is integrated repeatedly")
            # Z3: aliasing of the stepper's output buffer
            COPY = ("np.array", "numpy.array", "np.copy", "copy.deepcopy", "copy.copy", "np.asarray_chkfinite", "list", "tuple")
            cur_assign = [s for s in walk_no_nested(fn) if isinstance(s, ast.Assign) and isinstance(s.targets[0], ast.Name)
                          and any(isinstance(c, ast.Call) and isinstance(c.func, ast.Attribute) and c.func.attr == "integrate" and not norm(c.func.value).startswith("self") for c in ast.walk(s.value))]
            if cur_assign and "y1" in norm(fn):
                a = cur_assign[0]
                cur = a.targets[0].id
                v = a.value
                copied_at_source = isinstance(v, ast.Call) and (norm(v.func) in COPY or (isinstance(v.func, ast.Attribute) and v.func.attr == "copy"))
                carry = [s for s in walk_no_nested(fn) if isinstance(s, ast.Assign) and isinstance(s.value, (ast.Name, ast.Call)) and isinstance(s.targets[0], ast.Name)
                         and cur in {n.id for n in ast.walk(s.value) if isinstance(n, ast.Name)} and s is not a and s.targets[0].id != cur]
                copied_at_carry = bool(carry) and all(isinstance(s.value, ast.Call) and (norm(s.value.func) in COPY or (isinstance(s.value.func, ast.Attribute) and s.value.func.attr == "copy")) for s in carry)
                if copied_at_source or copied_at_carry:
                    self.holds("Z3", rel, q, "previous-iterate-is-a-copy", a, f"`{norm(a)[:70]}`" + (" copies the stepper's output" if copied_at_source else "; the carried reference is copied"))
                elif carry:
                    rep("Z3", rel, q, "previous-iterate-is-a-copy", carry[0],
                        f"`{norm(carry[0])}` keeps a reference to the array returned by `{norm(a.value)[:40]}`; scipy.integrate.ode.integrate returns its internal state "
                        "buffer (the same object every call), so the 'previous' state is overwritten by the next step and the change is always zero",
                        witness="dx/dt = k (no steady state): simulate_to_steady_state() reports success with x = k*200 at t = 200")

    def z1_paths(self, rel, q, fn) -> None:
        """Change definition, advance of the reference iterate and buffer aliasing, from the path summaries of two loop iterations
        (locals and helper staging are substituted away, so only what is compared with what remains)."""
        class TwoIter(SymInterp):
            loop_unroll = 2

        paths = [st for st, node in TwoIter().run_function(fn, Sym()).returns if any(e[0] == "return" and "TimeCourse(" in e[1] for e in st.events)]

        def convergence(st):
            """-> (current, previous, how) from the last `norm(D) < tolerance` decision on the path, or None."""
            for c, pol in reversed(st.conds):
                try:
                    t = ast.parse(c, mode="eval").body
                except SyntaxError:
                    continue
                if not (isinstance(t, ast.Compare) and len(t.ops) == 1 and isinstance(t.ops[0], (ast.Lt, ast.LtE)) and pol and norm(t.comparators[0]) == "tolerance"):
                    continue
                l = t.left
                while isinstance(l, ast.Call) and norm(l.func) in ("float", "abs") and len(l.args) == 1:
                    l = l.args[0]
                if not (isinstance(l, ast.Call) and norm(l.func).endswith("norm") and l.args):
                    return None
                d = l.args[0]
                rel_known = [p for cc, p in st.conds if cc == "rel_norm"]

                def split(e):
                    # absolute: X - Y ; relative: (X - Y) / Y
                    if isinstance(e, ast.BinOp) and isinstance(e.op, ast.Sub):
                        return norm(e.left), norm(e.right), None
                    if isinstance(e, ast.BinOp) and isinstance(e.op, ast.Div) and isinstance(e.left, ast.BinOp) and isinstance(e.left.op, ast.Sub):
                        return norm(e.left.left), norm(e.left.right), norm(e.right)
                    return None
                if isinstance(d, ast.IfExp) and norm(d.test) == "rel_norm":
                    r_, a_ = split(d.body), split(d.orelse)
                    if r_ and a_ and r_[2] is not None and a_[2] is None and r_[:2] == a_[:2]:
                        return r_[0], r_[1], r_[2]
                    return ("?", "?", norm(d))
                sp = split(d)
                if sp and rel_known:
                    if rel_known[-1] and sp[2] is not None:
                        return sp
                    if not rel_known[-1] and sp[2] is None:
                        return sp[0], sp[1], sp[1]
                return ("?", "?", norm(d))
            return None

        convs = [(st, convergence(st)) for st in paths]
        succ = [r for r in walk_no_nested(fn) if isinstance(r, ast.Return) and r.value is not None and "TimeCourse(" in norm(r.value)]
        untested = [st for st, c in convs if c is None]
        if convs and not untested:
            self.holds("Z1", rel, q, "success-under-convergence-test", succ[0], "every path to the success return decides `norm(change) < tolerance` first")
        else:
            self.violated("Z1", rel, q, "success-under-convergence-test", succ[0],
                          "a course is returned as steady state without the dominating test `norm(change) < tolerance`",
                          witness="dx/dt = k (unbounded growth): simulate_to_steady_state() returns a state instead of NoSteadyState")
            return
        if not convs or any(c is None for _, c in convs):
            self.undecided_ob("Z1", rel, q, "change-definition", fn, "definition of the change not recognised")
            return
        first = [c for st, c in convs if c[1] != "?" and ".integrate(" not in c[1]]
        later = [c for st, c in convs if c[1] != "?" and ".integrate(" in c[1]]
        bad = [c for _, c in convs if c[0] == "?" or c[2] != c[1] or ".integrate(" not in c[0] or c[0] == c[1]]
        node = [n for n in ast.walk(fn) if isinstance(n, ast.Compare) and "tolerance" in norm(n)]
        node = node[0] if node else fn
        if bad:
            c = bad[0]
            self.violated("Z1", rel, q, "change-definition", node,
                          f"the tested change `{c[2] if c[0] == '?' else c[0][:40] + ' - ' + c[1][:40]}` is not (current - previous) [/ previous when rel_norm] of the last two iterates",
                          witness="convergence is declared against the wrong reference state")
        else:
            self.holds("Z1", rel, q, "change-definition", node, "norm((current - previous) / previous if rel_norm else current - previous) < tolerance")
        # advance: in the second iteration the previous iterate is the first iteration's current one, and the time moved on
        firsts_cur = {c[0] for c in first}
        ok_adv = bool(first) and bool(later) and all(c[1] in firsts_cur and c[0] not in firsts_cur for c in later) \
            and all("self.y0" in c[1] for c in first)
        if not bad:
            if ok_adv:
                self.holds("Z1", rel, q, "iterate-advanced", node, "iteration k+1 compares against iteration k's state, integrated to a later time; iteration 1 against self.y0")
            else:
                self.violated("Z1", rel, q, "iterate-advanced", node, "the reference iterate / the time is not advanced each step: convergence is tested against a stale state",
                              witness="any model: the first small step relative to the INITIAL state never occurs, or the same time is integrated repeatedly")
        # the stepper starts from the current state, and every iteration integrates to a later time
        init_calls = [c for c in walk_no_nested(fn) if isinstance(c, ast.Call) and isinstance(c.func, ast.Attribute) and c.func.attr == "set_initial_value"]
        if init_calls and [norm(a_) for a_ in init_calls[0].args] == ["self.y0", "self.t0"] and not init_calls[0].keywords:
            self.holds("Z1", rel, q, "starts-at-current-state", init_calls[0], "stepper initialised with (self.y0, self.t0)")
        else:
            self.violated("Z1", rel, q, "starts-at-current-state", init_calls[0] if init_calls else fn, "the stepper is not initialised with the current state and time (self.y0, self.t0)",
                          witness="the search starts from another state / time than the one reached: the reported steady state belongs to another trajectory")
        import re as _re

        times = []
        for c_ in sorted({c[0] for _, c in convs if c[0] != "?"}, key=len):
            m_ = _re.search(r"\.integrate\((.*?)\)(?:, dtype=float\))?$", c_)
            times.append(m_.group(1) if m_ else c_)
        fwd = bool(times) and times[0] in ("self.t0 + step_size", "step_size + self.t0") and all(times[i + 1] == times[i] + " + step_size" for i in range(len(times) - 1))
        if fwd:
            self.holds("Z1", rel, q, "time-advances", node, f"iteration k integrates to self.t0 + k*step_size ({times[-1]})")
        else:
            self.violated("Z1", rel, q, "time-advances", node, f"the search does not integrate forward in time by step_size per iteration (times: {times})",
                          witness="t decreases or stands still: the stepper runs backwards / re-integrates the same point and the change test is meaningless")
        # Z3: the previous iterate must not be the stepper's own buffer: the stepper's output is copied where it is taken
        COPY = ("np.array", "numpy.array", "np.copy", "copy.deepcopy", "copy.copy", "list", "tuple")
        curs = {c[0] for _, c in convs if c[0] != "?"}
        if curs:
            def copied(txt: str) -> bool:
                e = ast.parse(txt, mode="eval").body
                return isinstance(e, ast.Call) and (norm(e.func) in COPY or (isinstance(e.func, ast.Attribute) and e.func.attr == "copy"))
            prevs = {c[1] for c in later}
            raw = [x for x in sorted(curs | prevs) if ".integrate(" in x and not copied(x)]
            if not raw:
                self.holds("Z3", rel, q, "previous-iterate-is-a-copy", node, "the stepper's output is copied before it is kept as the previous state")
            else:
                self.violated("Z3", rel, q, "previous-iterate-is-a-copy", node,
                              f"`{raw[0][:60]}` keeps a reference to the array returned by the stepper; scipy.integrate.ode.integrate returns its internal state "
                              "buffer (the same object every call), so the 'previous' state is overwritten by the next step and the change is always zero",
                              witness="dx/dt = k (no steady state): simulate_to_steady_state() reports success with x = k*200 at t = 200")

    def z2(self) -> None:
        sim = self.prog.module(SIM)
        f = sim.func("Simulator.simulate_to_steady_state")
        want = "self._handle_simulation_results(self.integrator.integrate_to_steady_state(tolerance=tolerance, rel_norm=rel_norm"
        paths = [st for st, _ in SymInterp().run_function(f, Sym()).returns]
        live = [st for st in paths if not any(c == "len(self._errors) > 0" and p for c, p in st.conds)]
        calls = [c for c in ast.walk(f) if isinstance(c, ast.Call) and norm(c.func) == "self._handle_simulation_results"]
        if live and all(any(e[0] == "call" and e[1].startswith(want) for e in st.events) for st in live):
            self.holds("Z2", SIM, "Simulator.simulate_to_steady_state", "result-to-handler", calls[0] if calls else f, "the integrator's Result is handed to the handler unchanged; tolerance and rel_norm forwarded")
        else:
            self.violated("Z2", SIM, "Simulator.simulate_to_steady_state", "result-to-handler", f, "the integrator's result is not passed (with tolerance / rel_norm) to the result handler")
        h = sim.func("Simulator._handle_simulation_results")
        hp = [st for st, _ in SymInterp().run_function(h, Sym()).returns]
        tc = "isinstance(result.value, TimeCourse)"
        fails = [st for st in hp if any(c == tc and not p for c, p in st.conds)]
        succ = [st for st in hp if any(c == tc and p for c, p in st.conds)]
        if not fails or not succ or len(fails) + len(succ) != len(hp):
            raise AnalysisError("Simulator._handle_simulation_results: success / failure paths not recognised")
        ok = all([e for e in st.events if e[0] in ("call", "set", "store")] == [("call", "self._errors.append(result.value)")] for st in fails)
        node = [c for c in ast.walk(h) if isinstance(c, ast.Call) and norm(c.func) == "self._errors.append"]
        if ok:
            self.holds("Z2", SIM, "Simulator._handle_simulation_results", "failure-recorded", node[0] if node else h, "every non-TimeCourse value is appended to _errors (and nothing else is stored)")
        else:
            self.violated("Z2", SIM, "Simulator._handle_simulation_results", "failure-recorded", h, "a failure value is not recorded in _errors",
                          witness="NoSteadyState is dropped: get_result() reports IntegrationFailure or an older frame")
        gr = sim.func("Simulator.get_result")
        gp = [st for st, _ in SymInterp().run_function(gr, Sym()).returns]
        ok_g = bool(gp)
        seen_sim = False
        for st in gp:
            rv = [e[1] for e in st.events if e[0] == "return"]
            rv = rv[-1] if rv else "None"
            has_err = any(c == "len(self._errors) > 0" and p_ for c, p_ in st.conds)
            none_v = any(c == "self.variables is None" and p_ for c, p_ in st.conds)
            none_p = any(c == "self.simulation_parameters is None" and p_ for c, p_ in st.conds)
            if has_err:
                continue
            if none_v or none_p:
                ok_g = ok_g and rv.startswith("Result(") and "Simulation(" not in rv
            else:
                seen_sim = True
                ok_g = ok_g and rv == "Result(Simulation(model=self.model, raw_variables=self.variables, raw_parameters=self.simulation_parameters))" \
                    and (("self.variables is None", False) in st.conds) and (("self.simulation_parameters is None", False) in st.conds)
        if ok_g and seen_sim:
            self.holds("Z2", SIM, "Simulator.get_result", "frames-iff-present", gr, "a Simulation is returned exactly when frames and parameter records exist; otherwise a failure value")
        else:
            self.violated("Z2", SIM, "Simulator.get_result", "frames-iff-present", gr, "get_result does not return the stored frames exactly when they exist",
                          witness="a finished simulation is reported as IntegrationFailure, or a Simulation is built from None")
        g = sim.func("Simulator.get_result")
        body = strip_docstring(g.body)
        first = body[0]
        if isinstance(first, ast.If) and norm(first.test) in ("len(self._errors) > 0", "self._errors") and norm(first.body[0]) == "return Result(self._errors[0])":
            self.holds("Z2", SIM, "Simulator.get_result", "errors-first", first, "the first recorded error is returned before frames are looked at")
        else:
            self.violated("Z2", SIM, "Simulator.get_result", "errors-first", g, "get_result can return frames although an error was recorded",
                          witness="simulate(10); simulate_to_steady_state() [fails] -> get_result() returns the 10-unit run as if it were the steady state")
        r = self.prog.module(TYPES).methods("Result")
        d = norm(r["default"])
        if "if isinstance((value := self.value), Exception): return fn() return value" in d.replace("\n", " "):
            self.holds("Z2", TYPES, "Result.default", "default-iff-exception", r["default"], "default substitutes exactly for exception values")
        else:
            self.violated("Z2", TYPES, "Result.default", "default-iff-exception", r["default"], "Result.default does not substitute exactly for exception values")
        ex = self.prog.module(SCIPY)
        ns = [c for c in ast.walk(self.prog.module("integrators/abstract.py").tree) if False]
        # the failure values are exceptions
        for rel, name in (("types.py", "NoSteadyState"), ("types.py", "IntegrationFailure")):
            mod = self.prog.module(rel)
            if name in mod.classes and any(norm(b) in ("Exception", "RuntimeError", "ValueError") for b in mod.classes[name].bases):
                self.holds("Z2", rel, name, "failure-is-exception", mod.classes[name], f"{name} is an Exception subclass: Result.default / unwrap_or_err treat it as failure")
            else:
                self.violated("Z2", rel, name, "failure-is-exception", mod.classes.get(name, 0), f"{name} is not an Exception: Result.default would pass it through as a value")

    def must_fire(self):
        I = "Scipy.integrate_to_steady_state"
        return [
            Variant("return-last-state-after-loop", SCIPY, I, "    return Result(NoSteadyState())", "    return Result(TimeCourse(time=np.array([t], dtype=float), values=np.array([y1], dtype=float)))", expect="Z1|", quick=True),
            Variant("convergence-test-inverted", SCIPY, I, "if np.linalg.norm(diff, ord=2) < tolerance:", "if np.linalg.norm(diff, ord=2) > tolerance:", expect="Z1|", quick=True),
            Variant("no-test", SCIPY, I, "if np.linalg.norm(diff, ord=2) < tolerance:", "if True:", expect="Z1|"),
            Variant("iterate-not-advanced", SCIPY, I, "        y1 = y2\n", "", expect="Z1|", quick=True),
            Variant("diff-against-self", SCIPY, I, "diff = (y2 - y1) / y1 if rel_norm else y2 - y1", "diff = (y2 - y2) / y1 if rel_norm else y2 - y2", expect="Z1|"),
            Variant("reintroduce-buffer-alias", SCIPY, I, "y2 = np.array(integ.integrate(t), dtype=float)", "y2 = integ.integrate(t)", expect="Z3|", quick=True),
            Variant("get-result-frames-first", SIM, "Simulator.get_result", "    if len(self._errors) > 0:\n        return Result(self._errors[0])\n", "", expect="Z2|", quick=True),
            Variant("failure-dropped", SIM, "Simulator._handle_simulation_results", "            self._errors.append(e)", "            pass", expect="Z2|"),
            Variant("default-always-value", TYPES, "Result.default", "        return fn()", "        return value", expect="Z2|"),
        ]

    def must_stay_silent(self):
        return [
            Variant("leq-tolerance", SCIPY, "Scipy.integrate_to_steady_state", "< tolerance", "<= tolerance", quick=True),
        ]


CHECK = C15
