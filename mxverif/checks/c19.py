"""C19 - result cache: crash-consistent publish and transparency plumbing (DESIGN 4/C19)."""

from __future__ import annotations

import ast

from ..core import AnalysisError, Check, Scope, dotted, norm, strip_docstring, walk_no_nested
from ..interp import Sym, SymInterp
from ..variants import Variant

MOD = "parallel.py"
LOAD_ERRORS = {"Exception", "BaseException", "EOFError", "UnpicklingError", "pickle.UnpicklingError", "OSError"}


def write_opens(fn: ast.FunctionDef):
    """(receiver/path expression, call node) of every open-for-writing in fn."""
    out = []
    for c in ast.walk(fn):
        if not isinstance(c, ast.Call):
            continue
        mode = None
        path = None
        if isinstance(c.func, ast.Attribute) and c.func.attr == "open":
            path = c.func.value
            mode = c.args[0] if c.args else {k.arg: k.value for k in c.keywords}.get("mode")
        elif isinstance(c.func, ast.Name) and c.func.id == "open" and c.args:
            path = c.args[0]
            mode = c.args[1] if len(c.args) > 1 else {k.arg: k.value for k in c.keywords}.get("mode")
        elif isinstance(c.func, ast.Attribute) and c.func.attr in ("write_bytes", "write_text"):
            path, mode = c.func.value, ast.Constant("w")
        if path is not None and isinstance(mode, ast.Constant) and isinstance(mode.value, str) and any(m in mode.value for m in "wax+"):
            out.append((path, c))
    return out


class C19(Check):
    pid = "C19"
    title = "Result caching is transparent and survives interruption"
    rules = {
        "D1": "a path whose existence means 'result available' is only ever published atomically (write elsewhere, then "
              "replace/rename onto it) or a failing read is treated as a miss; alarm = direct open(final,'w') AND unprotected load",
        "D2": "on a miss the computed value itself is returned and saved under the path the hit path reads; hit and miss return the "
              "same key; the cache directory is created before any worker runs",
        "D5": "the cache key of a work item determines the work item: scans must not cache a row's result under the row's label / position alone "
              "(a reused cache directory then answers a different scan)",
        "D4": "the default key -> file name function is deterministic across processes and runs (no hash(), id(), time, random, pid): a rerun "
              "must find the files of the previous run",
        "D3": "every public scan / Monte-Carlo entry that accepts a cache forwards it to parallelise",
    }
    floors = {"D1": 1, "D2": 5, "D3": 4, "D4": 1, "D5": 8}
    decided = [
        "a kill at any instant of a result write cannot leave a truncated file under a name the rerun trusts",
        "cached and uncached runs return the same (key, value) pairs; the rerun reads what the first run saved",
    ]
    undecided = ["behaviour under an actual kill -9 / power loss (fsync) - fault injection, not static",
                 "injectivity of key -> file name for exotic keys"]
    assumptions = ["os.replace / Path.replace / Path.rename are atomic on POSIX within one directory"]

    def run(self) -> None:
        mod = self.prog.module(MOD)
        cache_cls = mod.cls("Cache")
        defaults = {}
        for s in cache_cls.body:
            if isinstance(s, ast.AnnAssign) and isinstance(s.target, ast.Name) and isinstance(s.value, ast.Name):
                defaults[s.target.id] = s.value.id
        if "save_fn" not in defaults or "load_fn" not in defaults:
            raise AnalysisError("Cache.save_fn / load_fn defaults not recognised")
        save = mod.func(defaults["save_fn"])
        lor = mod.func("_load_or_run")
        self.analysed = {"default_save_fn": save.name, "default_load_fn": defaults["load_fn"]}

        # ---- D1
        final = save.args.args[0].arg
        opens = write_opens(save)
        if not opens:
            # the write may sit in a context manager of this module that the save function enters with the final path
            for w in [w for w in ast.walk(save) if isinstance(w, ast.With)]:
                for it_ in w.items:
                    c_ = it_.context_expr
                    if isinstance(c_, ast.Call) and isinstance(c_.func, ast.Name) and c_.func.id in mod.functions and c_.args and norm(c_.args[0]) == final:
                        helper = mod.functions[c_.func.id]
                        if write_opens(helper):
                            save = helper
                            final = helper.args.args[0].arg
                            opens = write_opens(helper)
        # a rename onto a final name must not be reachable when the write failed (finally / except)
        for fname_, f_ in mod.functions.items():
            if "." in fname_:
                continue
            sc_f = Scope(f_)
            for x in walk_no_nested(f_):
                if isinstance(x, ast.Call) and (norm(x.func) in ("os.replace", "os.rename", "shutil.move") or (isinstance(x.func, ast.Attribute) and x.func.attr in ("replace", "rename") and len(x.args) == 1
                                                                                                                  and not isinstance(x.func.value, ast.Constant) and "str" not in norm(x.func.value))):
                    on_failure = [t for t, fld in sc_f.enclosing_with_field(x, ast.Try) if fld in ("finalbody", "handlers")]
                    if on_failure:
                        self.violated("D1", MOD, fname_, "publish-only-after-complete-write", x,
                                      f"`{norm(x)}` sits in a finally / except block: it also runs when the write was interrupted by an exception, publishing a truncated file under the trusted name",
                                      witness="KeyboardInterrupt during pickle.dump: the rerun finds <key>.p, loads it and fails with EOFError instead of recomputing")
        if not opens:
            self.undecided_ob("D1", MOD, save.name, "publish", save, "no write found in the default save function")
        direct = [(p, c) for p, c in opens if norm(p) == final]
        # atomic: written path is a local derived name, later replaced onto `final`
        atomic = False
        early_publish = None
        for p, c in opens:
            if isinstance(p, ast.Name) and p.id != final:
                tmp = p.id
                body = strip_docstring(save.body)
                for i, s in enumerate(body):
                    for x in ast.walk(s):
                        if isinstance(x, ast.Call):
                            f = norm(x.func)
                            args = [norm(a) for a in x.args]
                            if (f in (f"{tmp}.replace", f"{tmp}.rename") and args[:1] == [final]) or \
                                    (f in ("os.replace", "os.rename", "shutil.move") and args[:2] == [tmp, final]):
                                # must come after the statement containing the write
                                wi = [j for j, t in enumerate(body) if any(y is c for y in ast.walk(t))]
                                if wi and i > wi[0]:
                                    atomic = True
                                elif wi and i == wi[0]:
                                    early_publish = x
        # protected load: the load call in _load_or_run sits in a try that handles read errors and falls through
        protected = False
        sc = Scope(lor)
        loads = [c for c in ast.walk(lor) if isinstance(c, ast.Call) and norm(c.func).endswith("load_fn")]
        for c in loads:
            for tr, fld in sc.enclosing_with_field(c, ast.Try):
                if fld == "body":
                    for h in tr.handlers:
                        names = ["Exception"] if h.type is None else [norm(e) for e in (h.type.elts if isinstance(h.type, ast.Tuple) else [h.type])]
                        if any(n in LOAD_ERRORS for n in names) and not any(isinstance(y, ast.Raise) for y in ast.walk(h)):
                            protected = True
        cons = "publish-vs-load"
        if early_publish is not None and not atomic and not protected:
            self.violated("D1", MOD, save.name, cons, early_publish,
                          f"`{norm(early_publish)}` publishes the temporary file under the final name while it is still open for writing (inside the with-block): "
                          "a crash after the rename but before the close/flush leaves an empty or truncated file under the trusted name",
                          witness="kill the process right after os.replace in _pickle_save: the rerun loads a truncated <key>.p -> EOFError")
        elif direct and not atomic and not protected:
            self.violated(
                "D1", MOD, save.name, cons, direct[0][1],
                f"`{norm(direct[0][1])}` writes the result straight into the final path, and `_load_or_run` treats mere existence "
                "of that path as 'result available' and loads it unprotected: a run killed mid-write leaves a truncated file that "
                "makes every rerun fail",
                witness="truncate <cache>/<key>.p to a few bytes (what a kill during pickle.dump leaves); rerun -> EOFError / UnpicklingError instead of recomputing",
            )
        elif atomic or protected:
            self.holds("D1", MOD, save.name, cons, save,
                       "published by write-to-temporary then replace onto the final path" if atomic else
                       "a failing read is handled as a miss")
        else:
            self.undecided_ob("D1", MOD, save.name, cons, save, "publish idiom not recognised (neither direct write nor temp+replace)")

        # the payload is written: the value handed to the save function is serialised into the handle of the file it opened
        data_p = save.args.args[1].arg if len(save.args.args) > 1 else None
        handles = set()
        for w in ast.walk(save):
            if isinstance(w, ast.With):
                for it_ in w.items:
                    if it_.optional_vars is not None and isinstance(it_.optional_vars, ast.Name):
                        handles.add(it_.optional_vars.id)
            if isinstance(w, ast.Assign) and isinstance(w.value, ast.Call) and any(w.value is c_ for _, c_ in opens) and isinstance(w.targets[0], ast.Name):
                handles.add(w.targets[0].id)
        wrote = None
        for c_ in ast.walk(save):
            if not isinstance(c_, ast.Call):
                continue
            f_ = norm(c_.func)
            args_ = [norm(a_) for a_ in c_.args] + [norm(k_.value) for k_ in c_.keywords]
            if f_.split(".")[-1] == "dump" and len(c_.args) >= 2 and norm(c_.args[0]) == data_p and norm(c_.args[1]) in handles:
                wrote = c_
            elif isinstance(c_.func, ast.Attribute) and c_.func.attr in ("write", "write_bytes") and data_p and any(data_p in a_ for a_ in args_) \
                    and (norm(c_.func.value) in handles or c_.func.attr == "write_bytes"):
                wrote = c_
        if data_p is None or not opens:
            pass
        elif wrote is not None:
            self.holds("D1", MOD, save.name, "payload-written", wrote, f"`{norm(wrote)[:60]}` serialises the value into the opened file")
        else:
            self.violated("D1", MOD, save.name, "payload-written", opens[0][1], f"the value `{data_p}` is never serialised into the file that is opened and published: every key gets an empty file",
                          witness="scan.steady_state(..., cache=Cache()) twice: the second run fails with EOFError while loading")
        # the trusted name comes into existence only through the save function: nothing in the hit/miss routine creates it beforehand
        exist_paths = {norm(c.func.value) for c in ast.walk(lor) if isinstance(c, ast.Call) and isinstance(c.func, ast.Attribute) and c.func.attr in ("exists", "is_file")}
        CREATORS = ("touch", "write_bytes", "write_text", "open", "mkdir", "symlink_to", "hardlink_to", "link_to")
        early = []
        for c in ast.walk(lor):
            if not isinstance(c, ast.Call):
                continue
            if isinstance(c.func, ast.Attribute) and c.func.attr in CREATORS and norm(c.func.value) in exist_paths:
                if c.func.attr == "open" and not any(isinstance(a, ast.Constant) and isinstance(a.value, str) and set(a.value) & set("wax+") for a in list(c.args) + [k.value for k in c.keywords]):
                    continue
                early.append(c)
            elif norm(c.func) in ("open", "io.open", "os.open", "os.mknod") and c.args and norm(c.args[0]) in exist_paths \
                    and (norm(c.func) != "open" or any(isinstance(a, ast.Constant) and isinstance(a.value, str) and set(a.value) & set("wax+") for a in list(c.args[1:]) + [k.value for k in c.keywords])):
                early.append(c)
        if exist_paths:
            if early:
                self.violated("D1", MOD, "_load_or_run", "trusted-name-created-only-by-save", early[0],
                              f"`{norm(early[0])}` creates the path whose existence means 'result available' before the result has been computed and written: "
                              "a run interrupted after it leaves an empty file that every rerun takes for the result",
                              witness="kill the process while fn(v) runs: the rerun finds <key>.p, loads it and fails with EOFError instead of recomputing")
            else:
                self.holds("D1", MOD, "_load_or_run", "trusted-name-created-only-by-save", lor, f"`{sorted(exist_paths)[0]}` is created by the save function only")

        # ---- D2
        q = "_load_or_run"
        files = {norm(a) for c in ast.walk(lor) if isinstance(c, ast.Call) and norm(c.func).endswith((".exists", "load_fn", "save_fn"))
                 for a in ([c.func.value] if norm(c.func).endswith(".exists") else c.args[:1])}
        if len(files) == 1:
            self.holds("D2", MOD, q, "same-path", lor, f"exists / load / save all use `{files.pop()}`")
        else:
            self.violated("D2", MOD, q, "same-path", lor, f"hit test, load and save use different paths: {sorted(files)}",
                          witness="the rerun never finds (or finds another key's) result")
        # hit / miss behaviour from the path summaries (guard clauses, if/else and staging through locals all read the same)
        saves = [c for c in ast.walk(lor) if isinstance(c, ast.Call) and norm(c.func).endswith("save_fn")]
        fnp = lor.args.args[1].arg
        paths = [st for st, _ in SymInterp().run_function(lor, Sym()).returns]
        cached = [st for st in paths if any(c == "cache is None" and not p_ for c, p_ in st.conds)]
        if not cached or not saves:
            raise AnalysisError("_load_or_run: hit/miss shape not recognised")

        def exists_decision(st):
            for c, p_ in st.conds:
                if c.endswith(".exists()"):
                    n_ = ast.parse(c, mode="eval").body
                    return norm(n_.func.value), p_
            return None, None

        miss_ok = hit_ok = True
        seen_hit = seen_miss = False
        keys = set()
        why_miss = ""
        for st in cached:
            f_, ex = exists_decision(st)
            ret = [e[1] for e in st.events if e[0] == "return"]
            rt = ast.parse(ret[-1], mode="eval").body if ret else None
            calls = [e[1] for e in st.events if e[0] == "call"]
            if isinstance(rt, ast.Tuple) and len(rt.elts) == 2:
                keys.add(norm(rt.elts[0]))
                val = norm(rt.elts[1])
            else:
                val = "?"
            loads = "load_fn(" in val
            if loads:
                seen_hit = True
                if ex is not True or val != f"cache.load_fn({f_})":
                    hit_ok = False
            else:
                seen_miss = True
                sv = [c for c in calls if c.startswith("cache.save_fn(")]
                # the same evaluation is saved and returned (the text fn(v) denotes one evaluation only if it was staged once)
                staged = [s_ for s_ in ast.walk(lor) if isinstance(s_, ast.Assign) and isinstance(s_.value, ast.Call) and norm(s_.value.func) == fnp]
                if ex is not False or len(sv) != 1 or sv[0] != f"cache.save_fn({f_}, {val})" or not val.startswith(f"{fnp}(") or not staged:
                    miss_ok = False
                    why_miss = f"saved `{sv[0][:60] if sv else 'nothing'}` but returned `{val}`"
        if miss_ok and seen_miss:
            self.holds("D2", MOD, q, "miss-returns-what-it-saves", saves[0], "the value computed once by fn(v) is both saved and returned")
        else:
            self.violated("D2", MOD, q, "miss-returns-what-it-saves", saves[0], why_miss or "no miss path saves and returns the computed value",
                          witness="the first run and the cached rerun return different values")
        if len(keys) == 1:
            self.holds("D2", MOD, q, "same-key", lor, "hit and miss return the input key")
        else:
            self.violated("D2", MOD, q, "same-key", lor, f"hit and miss return different keys: {sorted(keys)}")
        hit_nodes = [r for r in ast.walk(lor) if isinstance(r, ast.Return) and any(isinstance(c, ast.Call) and norm(c.func).endswith("load_fn") for c in ast.walk(r))]
        if hit_ok and seen_hit:
            self.holds("D2", MOD, q, "hit-iff-exists", hit_nodes[0] if hit_nodes else lor, "cached value returned only when the file exists")
        else:
            self.violated("D2", MOD, q, "hit-iff-exists", hit_nodes[0] if hit_nodes else lor, "the cached value is returned without testing that it exists")
        par = mod.func("parallelise")
        body = strip_docstring(par.body)
        mk = [i for i, s in enumerate(body) if "mkdir" in norm(s) and isinstance(s, ast.If) and norm(s.test) == "cache is not None"]
        first_use = [i for i, s in enumerate(body) if "_load_or_run" in norm(s)]
        if mk and first_use and mk[0] < first_use[0] and "exist_ok=True" in norm(body[mk[0]]):
            self.holds("D2", MOD, "parallelise", "mkdir-before-workers", body[mk[0]], "cache directory created (exist_ok) before the worker is built")
        else:
            self.violated("D2", MOD, "parallelise", "mkdir-before-workers", par, "cache directory is not created before workers save into it",
                          witness="first cached run fails with FileNotFoundError in every worker")
        outside = [(n, c) for n, f in mod.functions.items() if n != "_load_or_run" and "." not in n for c in walk_no_nested(f)
                   if isinstance(c, ast.Call) and norm(c.func).endswith(("load_fn", "save_fn")) and not n.startswith("_pickle")]
        if outside:
            self.violated("D2", MOD, outside[0][0], "cache-access-only-in-worker", outside[0][1],
                          f"`{norm(outside[0][1])[:60]}` reads/writes cached results outside the per-input worker: hits and misses are no longer produced by one code path in input order",
                          witness="a partially filled cache changes the order / content of the returned list")
        else:
            self.holds("D2", MOD, "parallelise", "cache-access-only-in-worker", par, "cached results are loaded and saved only inside _load_or_run, per input")
        # ---- D4
        nf = mod.func(defaults.get("name_fn", "_pickle_name"))
        bad = [c for c in ast.walk(nf) if isinstance(c, ast.Call) and norm(c.func).split(".")[-1] in ("hash", "id", "time", "time_ns", "random", "uuid4", "uuid1", "getpid", "monotonic")]
        uses_key = nf.args.args[0].arg in {n.id for n in ast.walk(nf.body[-1]) if isinstance(n, ast.Name)}
        if bad or not uses_key:
            self.violated("D4", MOD, nf.name, "deterministic-name", bad[0] if bad else nf,
                          f"`{norm(nf.body[-1])}` does not map a key to the same file name in every process/run" if bad else "the file name does not depend on the key",
                          witness="PYTHONHASHSEED differs between two runs: the rerun recomputes everything (or two keys share one file)")
        else:
            self.holds("D4", MOD, nf.name, "deterministic-name", nf, f"`{norm(nf.body[-1])}`: a pure function of the key")
        # ---- D3
        for rel in ("scan.py", "mc.py"):
            m2 = self.prog.module(rel)
            for name, fn in m2.functions.items():
                if "." in name or name.startswith("_"):
                    continue
                params = [a.arg for a in fn.args.args + fn.args.kwonlyargs]
                if "cache" not in params:
                    continue
                calls = [c for c in walk_no_nested(fn) if isinstance(c, ast.Call) and dotted(c.func).split(".")[-1] in ("parallelise",)]
                inner = [c for c in walk_no_nested(fn) if isinstance(c, ast.Call) and dotted(c.func).split(".")[0] == "scan"
                         and "cache" in {k.arg for k in c.keywords}]
                fw = [c for c in calls + inner if {k.arg: norm(k.value) for k in c.keywords}.get("cache") == "cache"]
                if fw:
                    self.holds("D3", rel, name, "cache-forwarded", fw[0], "cache= is passed on")
                elif calls:
                    self.violated("D3", rel, name, "cache-forwarded", calls[0], "the cache argument is accepted but not forwarded to parallelise: nothing is cached / reread",
                                  witness=f"{rel[:-3]}.{name}(..., cache=Cache(d)) leaves d empty")
                else:
                    self.info("D3", rel, name, "cache-forwarded", fn, "no parallelise call found in this function")
                # ---- D5: the cache key of a work item must determine the work item
                for c in [c for c in calls if {k.arg: norm(k.value) for k in c.keywords}.get("cache") == "cache"]:
                    inp = {k.arg: k.value for k in c.keywords}.get("inputs")
                    if inp is None:
                        continue
                    t_ = inp.args[0] if isinstance(inp, ast.Call) and norm(inp.func) == "list" and inp.args else inp
                    kind = "?"
                    if isinstance(t_, ast.Call) and isinstance(t_.func, ast.Attribute) and t_.func.attr == "iterrows":
                        kind = "row-label"
                    elif isinstance(t_, ast.Call) and norm(t_.func) == "enumerate":
                        kind = "position"
                    elif isinstance(t_, ast.Call) and norm(t_.func) == "zip" and len(t_.args) == 2:
                        kind = "value" if norm(t_.args[0]) == norm(t_.args[1]) else "?"
                    cons = "cache-key-determines-work-item"
                    if kind in ("row-label", "position"):
                        self.violated("D5", rel, name, cons, c,
                                      f"results are cached under the {kind} of each scan row (`{norm(inp)[:50]}`), not under what is computed: a second scan with other values "
                                      "but the same row labels, run with the same (by default shared) cache directory, is answered from the first scan's files",
                                      witness="c = Cache(d); scan.steady_state(m, to_scan={'kin': [1, 2]}, cache=c); scan.steady_state(m, to_scan={'kin': [5, 6]}, cache=c) returns the results for 1 and 2")
                    elif kind == "value":
                        self.holds("D5", rel, name, cons, c, "each result is cached under the value it was computed for")
                    else:
                        self.info("D5", rel, name, cons, c, f"key construction `{norm(inp)[:60]}` not classified")

    def must_fire(self):
        return [
            Variant("key-claimed-before-computation", MOD, "_load_or_run", "        res = fn(v)", "        file.touch()\n        res = fn(v)", expect="D1|", quick=True, count=0),
            Variant("reintroduce-direct-write", MOD, "_pickle_save",
                    "    tmp = file.with_name(f'{file.name}.{os.getpid()}.tmp')\n    with tmp.open('wb') as fp:\n        pickle.dump(data, fp)\n    tmp.replace(file)",
                    "    with file.open('wb') as fp:\n        pickle.dump(data, fp)", expect="D1|", quick=True),
            Variant("publish-inside-with", MOD, "_pickle_save", "    with tmp.open('wb') as fp:\n        pickle.dump(data, fp)\n    tmp.replace(file)", "    with tmp.open('wb') as fp:\n        pickle.dump(data, fp)\n        tmp.replace(file)", expect="D1|", quick=True),
            Variant("hits-loaded-up-front", MOD, "parallelise", "    if cache is not None:\n        cache.tmp_dir.mkdir(parents=True, exist_ok=True)\n",
                    "    pre = []\n    if cache is not None:\n        cache.tmp_dir.mkdir(parents=True, exist_ok=True)\n        pre = [(k, cache.load_fn(cache.tmp_dir / cache.name_fn(k))) for k, _ in inputs if (cache.tmp_dir / cache.name_fn(k)).exists()]\n", expect="D2|"),
            Variant("hash-in-file-name", MOD, "_pickle_name", "f'{k}.p'", "f'{hash(k)}.p'", expect="D4|"),
            Variant("return-uncomputed", MOD, "_load_or_run", "    return (k, res)", "    return (k, v)", expect="D2|", quick=True),
            Variant("save-under-other-path", MOD, "_load_or_run", "cache.save_fn(file, res)", "cache.save_fn(cache.tmp_dir / str(k), res)", expect="D2|"),
            Variant("no-mkdir", MOD, "parallelise", "    if cache is not None:\n        cache.tmp_dir.mkdir(parents=True, exist_ok=True)\n", "", expect="D2|"),
            Variant("scan-drops-cache", "scan.py", "steady_state", "cache=cache", "cache=None", expect="D3|", quick=True),
        ]

    def must_stay_silent(self):
        return [
            Variant("os-replace-form", MOD, "_pickle_save", "    tmp.replace(file)", "    os.replace(tmp, file)", quick=True),
            Variant("rename-res", MOD, "_load_or_run", r"\bres\b", "out", count=0, regex=True),
        ]


CHECK = C19
