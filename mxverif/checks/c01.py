"""C01 - derivatives = stoichiometry x rates: the assembly structure (DESIGN 4/C01, rules A1-A5)."""

from __future__ import annotations

import ast

from ..core import expand_locals, single_defs, AnalysisError, Check, Scope, is_self_attr, norm, strip_docstring, walk_no_nested
from ..deps import DepInterp, DepSt
from ..variants import Variant

MOD = "model.py"
TYPES = "types.py"
SIM = "simulator.py"
SUR = "surrogates/abstract.py"

SPEC = {("stoich_by_cpds", "static"), ("dyn_stoich_by_cpds", "dynamic")}
ORDER_DESTROYING = {"set", "frozenset", "sorted", "reversed"}


DYN_FORMS = ("{v}.calculate({vals})", "{v}.fn(*({vals}[i] for i in {v}.args))", "float({v}.fn(*({vals}[i] for i in {v}.args)))",
             "{v}.fn(*[{vals}[i] for i in {v}.args])", "float({v}.calculate({vals}))")


def position_maps(fn: ast.FunctionDef) -> dict[str, str]:
    """local name -> sequence it indexes: `pos = {name: i for i, name in enumerate(V)}` / `dict(zip(V, range(len(V))))`."""
    out = {}
    for s in walk_no_nested(fn):
        if not (isinstance(s, ast.Assign) and isinstance(s.targets[0], ast.Name)):
            continue
        v = s.value
        if isinstance(v, ast.DictComp) and len(v.generators) == 1 and not v.generators[0].ifs:
            g = v.generators[0]
            if isinstance(g.iter, ast.Call) and norm(g.iter.func) == "enumerate" and len(g.iter.args) == 1 and not g.iter.keywords \
                    and isinstance(g.target, ast.Tuple) and len(g.target.elts) == 2 \
                    and norm(v.key) == norm(g.target.elts[1]) and norm(v.value) == norm(g.target.elts[0]):
                out[s.targets[0].id] = norm(g.iter.args[0])
        elif isinstance(v, ast.Call) and norm(v.func) == "dict" and len(v.args) == 1 and isinstance(v.args[0], ast.Call) and norm(v.args[0].func) == "zip" \
                and len(v.args[0].args) == 2 and norm(v.args[0].args[1]) == f"range(len({norm(v.args[0].args[0])}))":
            out[s.targets[0].id] = norm(v.args[0].args[0])
    return out


def accumulation_terms(fn: ast.FunctionDef, vals: str):
    """Extract the normal form of every `slot(k) += coef * values[flux]` term of an RHS assembler.

    slot(k) is `A[k]`, `A[pos[k]]` (pos a position map over the variable names) or a scalar that the enclosing loop body loads
    from `A[k]` before the inner loop and stores back to `A[k]` after it.  Terms: (table, kind, node, container A).
    """
    sc = Scope(fn)
    pos = position_maps(fn)
    terms = []
    problems = []

    def slot_key(sub: ast.AST):
        """(container, key text) of a slot expression, or None."""
        if not (isinstance(sub, ast.Subscript) and isinstance(sub.value, ast.Name)):
            return None
        ix = sub.slice
        if isinstance(ix, ast.Subscript) and isinstance(ix.value, ast.Name) and ix.value.id in pos:
            return sub.value.id, norm(ix.slice)
        return sub.value.id, norm(ix)

    for n in walk_no_nested(fn):
        if not isinstance(n, ast.AugAssign):
            continue
        loops = [l for l in sc.enclosing(n, ast.For)]
        if len(loops) < 2:
            continue
        inner, outer = loops[0], loops[1]
        ot, it_ = outer.target, inner.target
        table = norm(outer.iter)
        if not (table.startswith("cache.") and table.endswith(".items()")):
            if isinstance(n.target, ast.Subscript) and "stoich" in table:
                problems.append((n, f"loops do not walk a cache table: `{table}` / `{norm(inner.iter)}`"))
            continue
        if not (isinstance(ot, ast.Tuple) and isinstance(it_, ast.Tuple) and len(ot.elts) == 2 and len(it_.elts) == 2):
            problems.append((n, "loop targets not (key, value) pairs"))
            continue
        okey, oval = norm(ot.elts[0]), norm(ot.elts[1])
        ikey, ival = norm(it_.elts[0]), norm(it_.elts[1])
        if norm(inner.iter) != f"{oval}.items()":
            problems.append((n, f"loops do not walk a cache table: `{table}` / `{norm(inner.iter)}`"))
            continue
        table = table[len("cache."):-len(".items()")]
        # the slot
        if isinstance(n.target, ast.Subscript):
            sk = slot_key(n.target)
            if sk is None:
                problems.append((n, f"accumulation target `{norm(n.target)}` not understood"))
                continue
            cont, key = sk
        elif isinstance(n.target, ast.Name):
            acc = n.target.id
            body = outer.body
            if inner not in body:
                continue
            i = body.index(inner)
            loads = [s for s in body[:i] if isinstance(s, ast.Assign) and norm(s.targets[0]) == acc and slot_key(s.value) is not None]
            stores = [s for s in body[i + 1:] if isinstance(s, ast.Assign) and slot_key(s.targets[0]) is not None and norm(s.value) == acc]
            if not loads or not stores:
                problems.append((n, f"scalar accumulator `{acc}` is not loaded from / stored back to the derivative slot around the inner loop"))
                continue
            (cont, key), (c2, k2) = slot_key(loads[-1].value), slot_key(stores[0].targets[0])
            if (cont, key) != (c2, k2):
                problems.append((stores[0], f"accumulator `{acc}` is loaded from `{norm(loads[-1].value)}` but stored to `{norm(stores[0].targets[0])}`"))
                continue
        else:
            continue
        if not isinstance(n.op, ast.Add):
            problems.append((n, f"term is accumulated with `{type(n.op).__name__}` instead of +="))
            continue
        if key != okey:
            problems.append((n, f"accumulates into key `{key}` instead of the table's variable key `{okey}`"))
            continue
        v = n.value
        if not (isinstance(v, ast.BinOp) and isinstance(v.op, ast.Mult)):
            problems.append((n, f"term `{norm(v)}` is not coefficient * flux"))
            continue
        sides = [norm(v.left), norm(v.right)]
        flux = f"{vals}[{ikey}]"
        if flux not in sides:
            problems.append((n, f"term `{norm(v)}` does not multiply by the flux `{flux}`"))
            continue
        coef = sides[1 - sides.index(flux)]
        dyn = [f.format(v=ival, vals=vals) for f in DYN_FORMS]
        kind = None
        if coef == ival:
            kind = "static"
        elif coef in dyn:
            kind = "dynamic"
        elif f"{ival}.calculate(" in coef or f"{ival}.fn(" in coef:
            problems.append((n, f"state-dependent coefficient `{coef}` is not evaluated on the values mapping `{vals}` that holds the fluxes"))
            kind = "bad"
        else:
            # coefficient computed in the loop body from the table entry, on the same values mapping
            for s in inner.body:
                if isinstance(s, ast.Assign) and norm(s.targets[0]) == coef:
                    t = norm(s.value)
                    if t in dyn:
                        kind = "dynamic"
                    elif f"{ival}.calculate(" in t or f"{ival}.fn(" in t:
                        problems.append((s, f"state-dependent coefficient `{t}` is not evaluated on the values mapping `{vals}` that holds the fluxes"))
                        kind = "bad"
        if kind is None:
            problems.append((n, f"coefficient `{coef}` is neither the table entry nor its evaluation"))
            continue
        if kind != "bad":
            terms.append((table, kind, n, cont))
    return terms, problems


def zero_vector(fn: ast.FunctionDef, cont: str):
    """(assignment, names-sequence text, kind) when `cont` starts as a zero vector over a name sequence; kind in dict/series/array."""
    z = [s for s in walk_no_nested(fn) if isinstance(s, ast.Assign) and norm(s.targets[0]) == cont]
    if not z:
        return None, None, None
    v = z[0].value
    t = norm(v)

    def zero(e):
        return isinstance(e, ast.Constant) and e.value == 0 and not isinstance(e.value, bool)

    if isinstance(v, ast.Call) and norm(v.func) == "dict.fromkeys" and len(v.args) == 2 and zero(v.args[1]):
        return z[0], norm(v.args[0]), "dict"
    if isinstance(v, ast.DictComp) and len(v.generators) == 1 and not v.generators[0].ifs and norm(v.key) == norm(v.generators[0].target) and zero(v.value):
        return z[0], norm(v.generators[0].iter), "dict"
    if isinstance(v, ast.Call) and norm(v.func) == "pd.Series":
        kw = {k.arg: k.value for k in v.keywords}
        if v.args and "index" in kw:
            seq = norm(kw["index"])
            a0 = v.args[0]
            if zero(a0) or (isinstance(a0, ast.Call) and norm(a0.func) == "np.zeros" and a0.args and norm(a0.args[0]) == f"len({seq})"):
                return z[0], seq, "series"
    if isinstance(v, ast.Call) and norm(v.func) == "np.zeros" and v.args and isinstance(v.args[0], ast.Call) and norm(v.args[0].func) == "len":
        return z[0], norm(v.args[0].args[0]), "array"
    return z[0], None, t

def _loop_chain(outer: ast.For, inner: ast.For) -> list[ast.For]:
    chain = [outer]
    cur = outer
    while cur is not inner:
        nxt = [x for x in cur.body if isinstance(x, ast.For)]
        if not nxt:
            break
        cur = nxt[0]
        chain.append(cur)
    return chain


def order_expr_ok(e: ast.AST) -> tuple[bool, str]:
    """Does the expression preserve declaration order and full length of its source?"""
    for n in ast.walk(e):
        if isinstance(n, ast.Call) and norm(n.func).split(".")[-1] in ORDER_DESTROYING:
            return False, f"`{norm(n)[:50]}` destroys declaration order"
        if isinstance(n, (ast.ListComp, ast.GeneratorExp, ast.SetComp, ast.DictComp)):
            if isinstance(n, ast.SetComp):
                return False, "a set comprehension destroys order"
            for g in n.generators:
                if g.ifs:
                    return False, f"filtering comprehension `{norm(n)[:50]}` loses variables"
        if isinstance(n, ast.Subscript) and isinstance(n.slice, ast.Slice):
            return False, f"slice `{norm(n)[:40]}` loses variables"
    return True, ""


class C01(Check):
    pid = "C01"
    title = "Derivatives equal stoichiometry x rates over fully resolved values"
    rules = {
        "A10": "stoichiometry queries (get_stoichiometries, get_stoichiometries_of_variable) return a private copy of the static table in which every "
               "computed coefficient has been evaluated on the argument mapping of the queried (variables, time)",
        "A9": "(shared with C03) every entry point computes on a cache that reflects the model's current content: edits reset the memoised cache and nothing but the cache builder writes into it (I1, I5 of C03)",
        "A8": "(shared with C13) the static / state-dependent classification that decides which quantities the assembled right-hand side recomputes: N2 of C13 on Model._create_cache",
        "A1": "sibling agreement: Model.__call__ and Model._get_right_hand_side both accumulate exactly "
              "dxdt[cpd] += coef * values[flux] over the static table (coef = entry) and the dynamic table (coef = entry evaluated "
              "on the same values mapping that holds the fluxes), into a zero vector over all variables",
        "A2": "order/length provenance: the sequence returned by __call__, the pairing of its positional input, the integrator's y0 "
              "tuple and the column labels put on integrator output all follow the declaration order of _variables with full length",
        "A3": "evaluation flow in _get_args: the mapping handed to component functions is frozen parameters | supplied variables | data "
              "with time = the time argument; every name of cache.dyn_order is evaluated in place, in order, unfiltered; the result depends "
              "on the cache, the variables, the data and the time",
        "A4": "table completeness: the stoichiometry tables are filled from every reaction and every surrogate stoichiometry (whole "
              "containers, no filter) keyed variable -> flux",
        "A6": "name-keyed pairing in the time-course forms: each row handed to _get_args / _get_right_hand_side is keyed by the frame's "
              "own column labels (row.to_dict() / zip(frame.columns, ..)), never paired positionally with an independently ordered name list",
        "A7": "point queries evaluate at the supplied state and time: the state handed to _get_args is the caller's `variables` (the "
              "resolved initial conditions only when none is given) and the time argument is forwarded",
        "A5": "entry-point agreement: flux queries request exactly reactions + surrogate fluxes; every query entry point reaches _get_args "
              "(or consumes its output); component classes evaluate fn(*(values[a] for a in args)) and store under their own name",
    }
    floors = {"A10": 2, "A9": 20, "A8": 3, "A1": 4, "A2": 5, "A3": 4, "A4": 2, "A5": 10, "A6": 2, "A7": 2}
    decided = [
        "both right-hand-side assemblers compute sum over static and state-dependent coefficients times fluxes, on one consistent value mapping",
        "vector form: declaration order, one entry per variable, 0 for untouched variables; integrator input/output use the same order",
        "every entry point evaluates the dynamic components in dependency order at the supplied state and time",
    ]
    undecided = ["numerical equality of the entry points", "semantics of user rate functions and surrogates", "that the cached order is topological (C02/C13)"]
    assumptions = ["dict preserves insertion order; `a | b` is right-biased; zip(strict=True) enforces equal length"]

    def run(self) -> None:
        mod = self.prog.module(MOD)
        self.borrow("C13", ("N2", "N3"), "A8")
        self.borrow("C03", ("I1", "I5"), "A9")
        self.containers: dict[str, str] = {}
        self.a1(mod)
        self.a2(mod)
        self.a3(mod)
        self.a4(mod)
        self.a5(mod)
        self.a6(mod)
        self.a7(mod)
        self.a10(mod)

    def a10(self, mod) -> None:
        """Stoichiometry queries: the static table is copied and every computed coefficient is evaluated on the argument mapping of the
        queried state and written over its entry."""
        from ..interp import Sym, SymInterp

        class I1(SymInterp):
            loop_unroll = 1

        for name in ("get_stoichiometries", "get_stoichiometries_of_variable"):
            fn = mod.func(f"Model.{name}")
            q = f"Model.{name}"
            paths = [st for st, _ in I1().run_function(fn, Sym()).returns]
            good = bad = None
            for st in paths:
                created = {e[1]: e[2] for e in st.events if e[0] == "new"}
                for e in st.events:
                    if e[0] != "store":
                        continue
                    tgt, val = e[1], e[2]
                    base = tgt.split("[")[0]
                    if base in created:
                        tgt = created[base] + tgt[len(base):]
                    if "stoich_by_cpds" not in tgt:
                        continue
                    copied = tgt.startswith(("copy.deepcopy(", "deepcopy(", "dict(", "{")) or ".copy()" in tgt
                    from_dyn = "dyn_stoich_by_cpds" in val and "dyn_stoich_by_cpds" in e[1]
                    at_state = "self.get_args(variables=variables, time=time)" in val and (".fn(*(" in val or ".calculate(" in val)
                    if copied and from_dyn and at_state:
                        good = e
                    else:
                        bad = e
            anchor = next((x for x in ast.walk(fn) if isinstance(x, ast.For)), fn)
            if good is not None and bad is None:
                self.holds("A10", MOD, q, "computed-coefficients-evaluated", anchor, "each computed coefficient is evaluated at the queried state and written over its entry of a copy of the static table")
            elif bad is not None:
                self.violated("A10", MOD, q, "computed-coefficients-evaluated", anchor, f"`{bad[1][:60]} = {bad[2][:60]}` is not a computed coefficient evaluated at the queried (variables, time) written into a private copy of the table")
            else:
                self.violated("A10", MOD, q, "computed-coefficients-evaluated", anchor, "no path writes the computed coefficients into the returned table: a state-dependent coefficient is reported as absent (0) "
                              "or with its cached value", witness="a reaction with stoichiometry {'x': Derived(fn=twice, args=['x'])}: get_stoichiometries(variables={'x': 3}) lacks the entry")

    # ------------------------------------------------------------------
    def a1(self, mod) -> None:
        for qn, vals in (("Model.__call__", None), ("Model._get_right_hand_side", "args")):
            fn = mod.func(qn)
            if vals is None:
                # the values mapping = what _get_args returned
                src = [s for s in walk_no_nested(fn) if isinstance(s, (ast.Assign, ast.AnnAssign)) and s.value is not None
                       and isinstance(s.value, ast.Call) and norm(s.value.func) == "self._get_args"]
                if not src:
                    raise AnalysisError(f"{qn}: call of _get_args not found")
                vals = norm(src[0].target if isinstance(src[0], ast.AnnAssign) else src[0].targets[0])
                kw = {k.arg: norm(k.value) for k in src[0].value.keywords}
                zipped = [s for s in walk_no_nested(fn) if isinstance(s, (ast.Assign, ast.AnnAssign)) and norm(getattr(s, "target", None) or s.targets[0]) == kw.get("variables")]
                zt = norm(zipped[0].value) if zipped else (kw.get("variables") or "")
                if kw.get("time") == "time" and zt == "dict(zip(cache.var_names, variables, strict=True))":
                    self.holds("A1", MOD, qn, "values-at-supplied-state", src[0], "values = _get_args(zip(var_names, positional input, strict), time=time)")
                else:
                    self.violated("A1", MOD, qn, "values-at-supplied-state", src[0],
                                  f"values are not evaluated at the supplied state/time (variables={zt or kw.get('variables')}, time={kw.get('time')})",
                                  witness="model(t, y) ignores t or pairs y with the wrong variables")
            terms, problems = accumulation_terms(fn, vals)
            got = {(t, k) for t, k, _, _ in terms}
            for node, why in problems:
                self.violated("A1", MOD, qn, f"term {norm(node)[:50]}", node, why,
                              witness="derivative of a variable differs from sum(coefficient * flux)")
            for spec in sorted(SPEC):
                cons = f"term-{spec[0]}"
                hit = [n for t, k, n, _ in terms if (t, k) == spec]
                if hit:
                    self.holds("A1", MOD, qn, cons, hit[0], f"dxdt[cpd] += coef * {vals}[flux] over cache.{spec[0]} ({spec[1]} coefficient)")
                elif not any(spec[0] in norm(p[0]) or spec[0] in p[1] or spec[0] in norm(self._outer_loop(fn, p[0])) for p in problems):
                    self.violated("A1", MOD, qn, cons, fn, f"no accumulation over cache.{spec[0]}: these contributions are missing from the derivative",
                                  witness="a reaction with a state-dependent coefficient does not change its variable" if spec[1] == "dynamic"
                                  else "reactions with numeric coefficients do not change their variables")
            extra = got - SPEC
            for e in sorted(extra):
                self.violated("A1", MOD, qn, f"term-{e[0]}-{e[1]}", [n for t, k, n, _ in terms if (t, k) == e][0], f"unexpected accumulation {e}")
            conts = {c for _, _, _, c in terms}
            if len(conts) > 1:
                self.violated("A1", MOD, qn, "zero-vector", fn, f"terms are accumulated into different containers {sorted(conts)}")
                continue
            cont = conts.pop() if conts else "dxdt"
            self.containers[qn] = cont
            # zero vector over all variables
            z, seq, kind = zero_vector(fn, cont)
            want = "cache.var_names" if qn == "Model.__call__" else "var_names"
            ok = seq == want
            if ok and kind == "array":
                # positional buffer: every slot is addressed through a position map over the same names
                pm = position_maps(fn)
                used = {ix.value.id for n in walk_no_nested(fn) if isinstance(n, ast.Subscript) and norm(n.value) == cont
                        for ix in [n.slice] if isinstance(ix, ast.Subscript) and isinstance(ix.value, ast.Name)}
                ok = bool(used) and all(pm.get(u) == want for u in used)
            if ok and qn == "Model._get_right_hand_side":
                rets = [r for r in walk_no_nested(fn) if isinstance(r, ast.Return) and r.value is not None]
                rt = norm(rets[-1].value) if rets else ""
                good = (kind == "series" and rt == cont) or (kind == "array" and rt in (f"pd.Series({cont}, index=var_names)", f"pd.Series(data={cont}, index=var_names)"))
                if good and len(rets) == 1:
                    self.holds("A1", MOD, qn, "returns-labelled-vector", rets[-1], f"returns `{rt}`: the accumulated vector labelled by var_names")
                else:
                    self.violated("A1", MOD, qn, "returns-labelled-vector", rets[-1] if rets else fn, f"returns `{rt}`, not the accumulated vector labelled by var_names",
                                  witness="named right-hand side attributes derivatives to the wrong variables")
            if ok:
                self.holds("A1", MOD, qn, "zero-vector", z, f"{cont} starts as {norm(z.value)[:70]}: 0 for variables no reaction touches")
            else:
                self.violated("A1", MOD, qn, "zero-vector", z if z is not None else fn,
                              f"{cont} starts as `{norm(z.value)[:70] if z is not None else '?'}`, not as a zero vector over all variables ({want})",
                              witness="a variable without reactions is missing from the derivative (KeyError / shorter vector)")

    @staticmethod
    def _outer_loop(fn, node) -> ast.AST:
        sc = Scope(fn)
        loops = [l for l in sc.enclosing(node, ast.For)]
        return loops[-1].iter if loops else ast.Constant(value="")

    def a2(self, mod) -> None:
        call = mod.func("Model.__call__")
        ret = [r for r in walk_no_nested(call) if isinstance(r, ast.Return)][-1]
        t = norm(ret.value)
        cont = self.containers.get("Model.__call__", "dxdt")
        _, seq, kind = zero_vector(call, cont)
        # plain stores into the container that could add keys (a store that rewrites the slot just read is fine)
        plain = [s_ for s_ in walk_no_nested(call) if isinstance(s_, ast.Assign) and isinstance(s_.targets[0], ast.Subscript) and norm(s_.targets[0].value) == cont]
        rewrites = all(any(isinstance(p_, ast.Assign) and norm(p_.value) == norm(s_.targets[0]) and norm(p_.targets[0]) == norm(s_.value)
                           for p_ in walk_no_nested(call)) for s_ in plain)
        if t in (f"tuple(({cont}[i] for i in cache.var_names))", f"tuple([{cont}[i] for i in cache.var_names])"):
            self.holds("A2", MOD, "Model.__call__", "return-order", ret, "one entry per cache.var_names element, in that order")
        elif t in (f"tuple({cont}.values())", f"tuple(list({cont}.values()))") and kind == "dict" and seq == "cache.var_names" and rewrites \
                and not any(isinstance(c_, ast.Call) and norm(c_.func) in (f"{cont}.pop", f"{cont}.update", f"{cont}.setdefault", f"{cont}.clear", f"{cont}.popitem") for c_ in ast.walk(call)) \
                and not any(isinstance(d_, ast.Delete) for d_ in ast.walk(call)):
            self.holds("A2", MOD, "Model.__call__", "return-order", ret, f"{cont} is created from cache.var_names, never gains or loses keys, and its values are returned in insertion order")
        else:
            ok, why = order_expr_ok(ret.value)
            if ok and "cache.var_names" in t and "dxdt" in t:
                self.holds("A2", MOD, "Model.__call__", "return-order", ret, f"`{t}` follows cache.var_names")
            else:
                self.violated("A2", MOD, "Model.__call__", "return-order", ret, f"returned sequence `{t}` does not list the derivatives in declaration order, one per variable ({why})",
                              witness="a model with variables declared (b, a): the integrator pairs da/dt with b")
        cc = mod.func("Model._create_cache")
        vn = [s for s in walk_no_nested(cc) if isinstance(s, ast.Assign) and norm(s.targets[0]) == "var_names"]
        gvn = mod.func("Model.get_variable_names")
        r2 = norm(gvn.body[-1])
        if vn and norm(vn[0].value) == "self.get_variable_names()" and r2 == "return list(self._variables)":
            self.holds("A2", MOD, "Model._create_cache", "var_names-declaration-order", vn[0], "cache.var_names = list(self._variables)")
        else:
            ok, why = order_expr_ok(gvn.body[-1].value) if isinstance(gvn.body[-1], ast.Return) else (False, "")
            if vn and norm(vn[0].value) in ("self.get_variable_names()", "list(self._variables)") and ok and "self._variables" in r2:
                self.holds("A2", MOD, "Model._create_cache", "var_names-declaration-order", vn[0], r2)
            else:
                self.violated("A2", MOD, "Model._create_cache", "var_names-declaration-order", vn[0] if vn else cc,
                              f"variable names are not the declaration order of _variables ({r2}; {why})",
                              witness="vector form no longer matches the documented declaration order")
        rhs = mod.func("Model.get_right_hand_side")
        v2 = [s for s in walk_no_nested(rhs) if isinstance(s, ast.Assign) and norm(s.targets[0]) == "var_names"]
        if v2 and norm(v2[0].value) == "self.get_variable_names()":
            self.holds("A2", MOD, "Model.get_right_hand_side", "named-form-order", v2[0], "named right-hand side indexed by get_variable_names()")
        else:
            self.violated("A2", MOD, "Model.get_right_hand_side", "named-form-order", rhs, "named right-hand side is not indexed by all variable names in declaration order")
        sim = self.prog.module(SIM)
        ii = sim.func("Simulator._initialise_integrator")
        y0 = [c for c in ast.walk(ii) if isinstance(c, ast.Call) and norm(c.func) == "tuple"]
        yt = norm(y0[0]) if y0 else ""
        if yt in ("tuple((y0[k] for k in self.model.get_variable_names()))", "tuple((self.y0[k] for k in self.model.get_variable_names()))"):
            self.holds("A2", SIM, "Simulator._initialise_integrator", "y0-tuple-order", y0[0], "y0 tuple follows get_variable_names()")
        else:
            self.violated("A2", SIM, "Simulator._initialise_integrator", "y0-tuple-order", y0[0] if y0 else ii, f"integrator start vector `{yt}` is not ordered by get_variable_names()",
                          witness="initial values are assigned to the wrong variables")
        h = sim.func("Simulator._handle_simulation_results")
        df = [c for c in ast.walk(h) if isinstance(c, ast.Call) and norm(c.func) == "pd.DataFrame"]
        cols = {k.arg: norm(k.value) for k in df[0].keywords}.get("columns") if df else None
        if cols == "self.model.get_variable_names()":
            self.holds("A2", SIM, "Simulator._handle_simulation_results", "column-labels", df[0], "integrator output labelled with get_variable_names()")
        else:
            self.violated("A2", SIM, "Simulator._handle_simulation_results", "column-labels", df[0] if df else h, f"integrator output columns are labelled `{cols}`",
                          witness="trajectories are attributed to the wrong variables")

    def a3(self, mod) -> None:
        fn = mod.func("Model._get_args")
        q = "Model._get_args"
        body = strip_docstring(fn.body)
        a0 = [s for s in body if isinstance(s, ast.Assign) and norm(s.targets[0]) == "args"]
        parts = []
        if a0:
            e = a0[0].value

            def flat(x):
                if isinstance(x, ast.BinOp) and isinstance(x.op, ast.BitOr):
                    flat(x.left)
                    flat(x.right)
                else:
                    parts.append(norm(x))

            flat(e)
        if parts == ["cache.all_parameter_values", "variables", "self._data"]:
            self.holds("A3", MOD, q, "initial-mapping", a0[0], "frozen parameters | supplied variables | data")
        else:
            self.violated("A3", MOD, q, "initial-mapping", a0[0] if a0 else fn, f"component functions see `{' | '.join(parts)}` instead of frozen parameters | variables | data",
                          witness="the supplied state is overridden by parameter values (or data / parameters are missing)")
        tm = [s for s in body if isinstance(s, ast.Assign) and norm(s.targets[0]) == "args['time']"]
        if tm and norm(tm[0].value) == "time":
            self.holds("A3", MOD, q, "time-argument", tm[0], "args['time'] = time")
        else:
            self.violated("A3", MOD, q, "time-argument", tm[0] if tm else fn, "the time handed to component functions is not the time argument",
                          witness="a time-dependent rate is always evaluated at t=0")
        lp = [l for l in body if isinstance(l, ast.For)]
        ev = [l for l in lp if any(isinstance(c, ast.Call) and isinstance(c.func, ast.Attribute) and c.func.attr == "calculate_inpl" for c in ast.walk(l))]
        if len(ev) == 1 and norm(ev[0].iter) == "cache.dyn_order" and [norm(b) for b in ev[0].body] == [f"containers[{norm(ev[0].target)}].calculate_inpl({norm(ev[0].target)}, args)"]:
            self.holds("A3", MOD, q, "evaluate-dyn-order", ev[0], "every name of cache.dyn_order is evaluated in place, in order")
        else:
            self.violated("A3", MOD, q, "evaluate-dyn-order", ev[0] if ev else fn, "the dynamic components are not all evaluated in cache.dyn_order",
                          witness="a derived quantity that depends on a reaction sees a missing / stale value")
        cont = [s for s in body if isinstance(s, ast.Assign) and norm(s.targets[0]) == "containers"]
        if cont and norm(cont[0].value) == "self._derived | self._reactions | self._surrogates":
            self.holds("A3", MOD, q, "containers", cont[0], "derived | reactions | surrogates")
        else:
            self.violated("A3", MOD, q, "containers", cont[0] if cont else fn, "dynamic names are not looked up in derived | reactions | surrogates")
        di = DepInterp()
        st = DepSt()
        for p in ("variables", "time", "cache", "self"):
            st = st.set(p, frozenset({p}))
        di.run_function(fn, st)
        need = {"variables", "time", "cache", "self"}
        weakest = None
        for node, srcs, _ in di.returns:
            weakest = srcs if weakest is None else weakest & srcs
        if weakest is not None and need <= weakest:
            self.holds("A3", MOD, q, "result-depends-on-inputs", fn, "the returned mapping depends on cache, variables, data (self) and time on every path")
        else:
            self.violated("A3", MOD, q, "result-depends-on-inputs", fn, f"the returned mapping does not depend on {sorted(need - (weakest or set()))}")

    def a4(self, mod) -> None:
        """Every (flux, variable, coefficient) entry of every reaction / surrogate reaches one of the two tables, on every path."""
        from ..interp import PathInterp

        cc = mod.func("Model._create_cache")
        q = "Model._create_cache"
        body = strip_docstring(cc.body)

        # locals that denote an inner table of one of the stoichiometry tables (`d = stoich_by_compounds.setdefault(cpd, {})`)
        inner_tables = tuple(sorted({x.targets[0].id for x in ast.walk(cc) if isinstance(x, ast.Assign) and isinstance(x.targets[0], ast.Name)
                                     and "stoich" in norm(x.value) and (".setdefault(" in norm(x.value) or isinstance(x.value, ast.Subscript))})) or ("d_static",)

        class StoreInterp(PathInterp):
            loop_unroll = 1

            def simple(self_i, stmt, st):
                stored = st
                for x in ast.walk(stmt):
                    if isinstance(x, ast.Assign) and isinstance(x.targets[0], ast.Subscript):
                        base = norm(x.targets[0].value)
                        if "stoich" in base or base in inner_tables:
                            stored = True
                if isinstance(stmt, ast.Raise):
                    yield ("raise", stored, None)
                    return
                yield ("normal", stored)

        defs = single_defs(cc)

        def sources(it_: ast.AST) -> set[str]:
            """Which whole containers an iteration source ranges over (unfiltered)."""
            e = expand_locals(it_, defs)
            t = norm(e)
            if t == "self._reactions.items()":
                return {"reactions"}
            if t == "self._surrogates.values()":
                return {"surrogates"}
            out: set[str] = set()
            if isinstance(e, ast.Call) and norm(e.func) in ("it.chain", "itertools.chain", "chain"):
                for a_ in e.args:
                    g = a_.value if isinstance(a_, ast.Starred) else a_
                    if isinstance(g, (ast.GeneratorExp, ast.ListComp)) and len(g.generators) == 1 and not g.generators[0].ifs:
                        src = norm(g.generators[0].iter)
                        if src == "self._reactions.items()" and ".stoichiometry" in norm(g.elt):
                            out.add("reactions")
                        elif src == "self._surrogates.values()" and ".stoichiometries.items()" in norm(g.elt):
                            out.add("surrogates")
            return out

        rx = [l for l in body if isinstance(l, ast.For) and "reactions" in sources(l.iter)]
        sr = [l for l in body if isinstance(l, ast.For) and "surrogates" in sources(l.iter)]
        for name, loops in (("reactions", rx), ("surrogates", sr)):
            if not loops:
                self.violated("A4", MOD, q, f"table-complete-{name}", cc, f"no loop over the whole container of {name} fills the stoichiometry tables",
                              witness=f"a {name[:-1]}'s contribution is missing from the derivatives")
                continue
            outer = loops[0]
            # innermost loop over the (variable, coefficient) entries
            inner = outer
            parent = outer
            while True:
                nxt = [x for x in inner.body if isinstance(x, ast.For)]
                if not nxt:
                    break
                parent = inner
                inner = nxt[0]
            flux_key = norm(parent.target.elts[0]) if isinstance(parent.target, ast.Tuple) else "?"
            levels_ok = not any(isinstance(x, (ast.If, ast.Continue, ast.Break)) for l in _loop_chain(outer, inner)[:-1] for x in l.body if not isinstance(x, ast.For))
            si = StoreInterp()
            out = si.block(inner.body, [False])
            ends = out.normal + out.continues + out.breaks
            skipped = [e for e in ends if not e] or out.breaks
            keyed = all(norm(x.targets[0].slice) in (flux_key,) for x in ast.walk(inner) if isinstance(x, ast.Assign) and isinstance(x.targets[0], ast.Subscript)
                        and ("stoich" in norm(x.targets[0].value) or norm(x.targets[0].value) in inner_tables))
            if not skipped and levels_ok and keyed and ends:
                self.holds("A4", MOD, q, f"table-complete-{name}", outer, f"every entry of every {name[:-1]} is stored under [variable][flux] on all {len(ends)} path(s) of the loop body")
            else:
                self.violated("A4", MOD, q, f"table-complete-{name}", inner,
                              f"some path through the loop over {name} stoichiometries stores nothing (entries can be skipped) or uses another key",
                              witness=f"a {name[:-1]}'s contribution is missing from the derivatives")

    def a5(self, mod) -> None:
        want = {"include_time": "False", "include_variables": "False", "include_parameters": "False", "include_derived_parameters": "False",
                "include_derived_variables": "False", "include_reactions": "True", "include_surrogate_variables": "False",
                "include_surrogate_fluxes": "True", "include_readouts": "False"}
        for qn, callee in (("Model.get_fluxes", "self.get_args"), ("Model.get_fluxes_time_course", "self.get_args_time_course")):
            fn = mod.func(qn)
            c = [x for x in ast.walk(fn) if isinstance(x, ast.Call) and norm(x.func) == callee]
            kw = {k.arg: norm(k.value) for k in c[0].keywords if k.arg.startswith("include_")} if c else {}
            w = {k: v for k, v in want.items() if k in kw or k != "include_time"}
            if c and all(kw.get(k) == v for k, v in w.items() if k in kw) and {"include_reactions", "include_surrogate_fluxes"} <= set(kw) \
                    and [k for k, v in kw.items() if v == "True"] == ["include_reactions", "include_surrogate_fluxes"]:
                self.holds("A5", MOD, qn, "flux-classes", c[0], "requests exactly reactions + surrogate fluxes")
            else:
                self.violated("A5", MOD, qn, "flux-classes", c[0] if c else fn, f"flux query requests {sorted(k for k, v in kw.items() if v == 'True')}",
                              witness="get_fluxes and get_fluxes_time_course list different columns / miss surrogate fluxes")
        # reachability of _get_args
        methods = mod.methods("Model")
        calls = {n: {x.attr for x in ast.walk(f) if is_self_attr(x) and x.attr in methods} for n, f in methods.items()}

        def reaches(a: str, b: str, seen=None) -> bool:
            seen = seen or set()
            if a in seen:
                return False
            seen.add(a)
            return b in calls.get(a, ()) or any(reaches(c, b, seen) for c in calls.get(a, ()))

        for ep in ("__call__", "get_right_hand_side", "get_fluxes", "get_args", "get_args_time_course", "get_fluxes_time_course", "get_stoichiometries"):
            if ep not in methods:
                raise AnalysisError(f"entry point Model.{ep} missing")
            if reaches(ep, "_get_args"):
                self.holds("A5", MOD, f"Model.{ep}", "reaches-_get_args", methods[ep], "evaluates through _get_args")
            else:
                self.violated("A5", MOD, f"Model.{ep}", "reaches-_get_args", methods[ep], "entry point does not evaluate through _get_args: it can disagree with the other entry points")
        for qn in ("get_args", "_get_args_time_course"):
            f2 = methods[qn]
            ro = [l for l in ast.walk(f2) if isinstance(l, ast.For) and norm(l.iter) == "self._readouts.items()"]
            ok = ro and isinstance(ro[0].target, ast.Tuple) and len(ro[0].body) == 1 and \
                norm(ro[0].body[0]) in (f"{norm(ro[0].target.elts[1])}.calculate_inpl({norm(ro[0].target.elts[0])}, raw)", f"{norm(ro[0].target.elts[1])}.calculate_inpl({norm(ro[0].target.elts[0])}, args)")
            if ok:
                self.holds("A5", MOD, f"Model.{qn}", "readouts-under-own-name", ro[0], "each readout is evaluated on the full value mapping and stored under its own name")
            else:
                self.violated("A5", MOD, f"Model.{qn}", "readouts-under-own-name", ro[0] if ro else f2, "readouts are not each evaluated on the value mapping and stored under their own name",
                              witness="get_args(include_readouts=True) overwrites another quantity / misses a readout")
        tc = methods["get_right_hand_side_time_course"]
        tc_params = [a.arg for a in tc.args.args[1:] + tc.args.kwonlyargs]
        row_vars = set()
        for it in ast.walk(tc):
            if isinstance(it, (ast.For, ast.comprehension)) and isinstance(it.target, ast.Tuple) and len(it.target.elts) == 2 and isinstance(it.target.elts[1], ast.Name) \
                    and isinstance(it.iter, ast.Call) and isinstance(it.iter.func, ast.Attribute) and it.iter.func.attr == "iterrows" and norm(it.iter.func.value) in tc_params:
                row_vars.add(it.target.elts[1].id)
        if any(isinstance(c, ast.Call) and norm(c.func) == "self._get_right_hand_side" and {k.arg: norm(k.value) for k in c.keywords}.get("args") in {f"{v}.to_dict()" for v in row_vars} | {f"dict({v})" for v in row_vars}
               for c in ast.walk(tc)):
            self.holds("A5", MOD, "Model.get_right_hand_side_time_course", "consumes-args-table", tc, "each row of the argument table is passed to _get_right_hand_side")
        else:
            self.violated("A5", MOD, "Model.get_right_hand_side_time_course", "consumes-args-table", tc, "time-course derivatives are not computed by _get_right_hand_side on each row of the argument table")
        # component classes
        ty = self.prog.module(TYPES)
        for cls in ("Derived", "Reaction", "Readout", "InitialAssignment"):
            m = ty.methods(cls)
            ok = "calculate_inpl" in m and norm(m["calculate_inpl"].body[-1]) in (
                "args[name] = cast(float, self.fn(*(args[arg] for arg in self.args)))", "args[name] = self.fn(*(args[arg] for arg in self.args))") \
                and "calculate" in m and norm(m["calculate"].body[-1]) in ("return cast(float, self.fn(*(args[arg] for arg in self.args)))", "return self.fn(*(args[arg] for arg in self.args))")
            if ok:
                self.holds("A5", TYPES, cls, "component-evaluation", m["calculate_inpl"], "fn(*(values[a] for a in args)), stored under the component's own name")
            else:
                self.violated("A5", TYPES, cls, "component-evaluation", ty.cls(cls), f"{cls} does not evaluate fn(*(values[a] for a in args)) / store under its name",
                              witness="a component sees its arguments in the wrong order or overwrites another name")
        sur = self.prog.module(SUR).methods("AbstractSurrogate")
        if "calculate_inpl" in sur and norm(sur["calculate_inpl"].body[-1]) == "args |= self.predict(args=args)":
            self.holds("A5", SUR, "AbstractSurrogate.calculate_inpl", "component-evaluation", sur["calculate_inpl"], "outputs merged into the value mapping")
        else:
            self.violated("A5", SUR, "AbstractSurrogate.calculate_inpl", "component-evaluation", self.prog.module(SUR).cls("AbstractSurrogate"), "surrogate outputs are not merged into the value mapping")

    def a7(self, mod) -> None:
        for qn in ("Model.get_args", "Model.get_right_hand_side"):
            fn = mod.func(qn)
            calls = [c for c in walk_no_nested(fn) if isinstance(c, ast.Call) and norm(c.func) == "self._get_args"]
            if not calls:
                raise AnalysisError(f"{qn}: call of _get_args not found")
            kw = {k.arg: norm(k.value) for k in calls[0].keywords}
            ok_state = kw.get("variables") in ("self.get_initial_conditions() if variables is None else variables",
                                                "variables if variables is not None else self.get_initial_conditions()")
            ok_time = kw.get("time") == "time"
            if ok_state and ok_time:
                self.holds("A7", MOD, qn, "supplied-state-and-time", calls[0], "variables (default: initial conditions) and time are forwarded to _get_args")
            else:
                self.violated("A7", MOD, qn, "supplied-state-and-time", calls[0],
                              f"_get_args is called with variables={kw.get('variables')}, time={kw.get('time')}: the query does not evaluate at the state / time the caller supplied",
                              witness=f"m.{qn.split('.')[1]}({{'x': 5.0}}, time=3.0) answers for the initial state or t = 0")

    def a6(self, mod) -> None:
        for qn, callee, kwname in (("Model._get_args_time_course", "self._get_args", "variables"), ("Model.get_right_hand_side_time_course", "self._get_right_hand_side", "args")):
            fn = mod.func(qn)
            frame = [a.arg for a in fn.args.args + fn.args.kwonlyargs if a.arg != "self"][0]
            calls = [c for c in walk_no_nested(fn) if isinstance(c, ast.Call) and norm(c.func) == callee]
            if not calls:
                raise AnalysisError(f"{qn}: call of {callee} not found")
            arg = {k.arg: k.value for k in calls[0].keywords}.get(kwname)
            sc = Scope(fn)
            # the iteration the call sits in: a for loop or a comprehension generator (target, iterable)
            loops = [(l.target, l.iter) for l in sc.enclosing(calls[0], ast.For)]
            loops += [(g.target, g.iter) for c_ in sc.enclosing(calls[0], (ast.DictComp, ast.ListComp, ast.GeneratorExp, ast.SetComp)) for g in c_.generators]
            ok = False
            why = f"`{kwname}={norm(arg)}`"
            if isinstance(arg, ast.Call) and isinstance(arg.func, ast.Attribute) and arg.func.attr == "to_dict" and isinstance(arg.func.value, ast.Name) and loops:
                row = arg.func.value.id
                lt, li = loops[0]
                if norm(li) == f"{frame}.iterrows()" and isinstance(lt, ast.Tuple) and norm(lt.elts[1]) == row:
                    ok = True
                    why = f"row Series of {frame}.iterrows() converted with to_dict(): keyed by the frame's column labels"
            elif isinstance(arg, ast.Call) and norm(arg.func) == "dict" and arg.args and isinstance(arg.args[0], ast.Call) and norm(arg.args[0].func) == "zip":
                keys = norm(arg.args[0].args[0])
                if keys in (f"{frame}.columns", f"list({frame}.columns)"):
                    ok = True
                    why = f"zip({keys}, row): keyed by the frame's column labels"
                else:
                    why = f"rows are paired positionally with `{keys}`, a name list that is ordered independently of the frame's columns"
            else:
                self.undecided_ob("A6", MOD, qn, "row-keys", calls[0], f"row mapping {why} not recognised")
                continue
            if ok:
                self.holds("A6", MOD, qn, "row-keys", calls[0], why)
            else:
                self.violated("A6", MOD, qn, "row-keys", calls[0], why + ": a correctly labelled frame whose columns are in another order is evaluated at the wrong state",
                              witness="get_args_time_course(frame[['y', 'x']]) for a model declaring x then y returns the values for x and y swapped")

    def must_fire(self):
        C = "Model.__call__"
        R = "Model._get_right_hand_side"
        return [
            Variant("call-drops-dynamic", MOD, C, "    for k, sd in cache.dyn_stoich_by_cpds.items():\n        for flux, dv in sd.items():\n            n = dv.calculate(dependent)\n            dxdt[k] += n * dependent[flux]\n", "",
                    expect="A1|model.py|Model.__call__|term-dyn_stoich_by_cpds", quick=True),
            Variant("rhs-minus", MOD, R, "            dxdt[k] += n * args[flux]\n    for k, sd", "            dxdt[k] -= n * args[flux]\n    for k, sd", expect="A1|model.py|Model._get_right_hand_side|", quick=True),
            Variant("coef-on-frozen-values", MOD, C, "n = dv.calculate(dependent)", "n = dv.calculate(cache.all_parameter_values)", expect="A1|", quick=True),
            Variant("wrong-flux-key", MOD, C, "dxdt[k] += n * dependent[flux]\n    for k, sd", "dxdt[k] += n * dependent[k]\n    for k, sd", expect="A1|"),
            Variant("return-sorted", MOD, C, "return tuple((dxdt[i] for i in cache.var_names))", "return tuple((dxdt[i] for i in sorted(cache.var_names)))", expect="A2|", quick=True),
            Variant("zero-vector-from-table", MOD, C, "dxdt = dict.fromkeys(cache.var_names, 0.0)", "dxdt = dict.fromkeys(cache.stoich_by_cpds, 0.0)", expect="A1|"),
            Variant("time-zero", MOD, "Model._get_args", "args['time'] = time", "args['time'] = 0.0", expect="A3|", quick=True),
            Variant("call-ignores-time", MOD, C, "self._get_args(variables=vars_d, time=time, cache=cache)", "self._get_args(variables=vars_d, cache=cache)", expect="A1|"),
            Variant("skip-last-dynamic", MOD, "Model._get_args", "for name in cache.dyn_order:", "for name in cache.dyn_order[:-1]:", expect="A3|"),
            Variant("parameters-override-state", MOD, "Model._get_args", "args = cache.all_parameter_values | variables | self._data", "args = variables | cache.all_parameter_values | self._data", expect="A3|"),
            Variant("skip-surrogate-stoichiometries", MOD, "Model._create_cache", "    for surrogate in self._surrogates.values():", "    for surrogate in []:", expect="A4|", quick=True),
            Variant("skip-zero-coefficients", MOD, "Model._create_cache", "        for cpd_name, factor in rxn.stoichiometry.items():\n            d_static",
                    "        for cpd_name, factor in rxn.stoichiometry.items():\n            if factor == 1:\n                continue\n            d_static", expect="A4|"),
            Variant("fluxes-without-surrogates", MOD, "Model.get_fluxes", "include_surrogate_fluxes=True", "include_surrogate_fluxes=False", expect="A5|", quick=True),
            Variant("y0-sorted", SIM, "Simulator._initialise_integrator", "for k in self.model.get_variable_names()", "for k in sorted(self.model.get_variable_names())", expect="A2|"),
            Variant("columns-from-y0", SIM, "Simulator._handle_simulation_results", "columns=self.model.get_variable_names()", "columns=list(self.y0)", expect="A2|"),
            Variant("derived-args-reversed", TYPES, "Derived.calculate_inpl", "(args[arg] for arg in self.args)", "(args[arg] for arg in reversed(self.args))", expect="A5|"),
            Variant("time-course-rows-by-position", MOD, "Model._get_args_time_course",
                    "    for time, values in variables.iterrows():\n        args = self._get_args(variables=values.to_dict(), time=cast(float, time), cache=cache)",
                    "    for time, values in zip(variables.index, variables.to_numpy(), strict=True):\n        args = self._get_args(variables=dict(zip(cache.var_names, values, strict=False)), time=cast(float, time), cache=cache)",
                    expect="A6|", quick=True),
            Variant("get_args-ignores-state", MOD, "Model.get_args", "variables=self.get_initial_conditions() if variables is None else variables", "variables=self.get_initial_conditions()", expect="A7|", quick=True),
            Variant("rhs-ignores-time", MOD, "Model.get_right_hand_side", "variables=self.get_initial_conditions() if variables is None else variables, time=time", "variables=self.get_initial_conditions() if variables is None else variables, time=0.0", expect="A7|"),
            Variant("readout-overwrites-argument", MOD, "Model.get_args", "ro.calculate_inpl(name, raw)", "ro.calculate_inpl(ro.args[0], raw)", expect="A5|"),
            Variant("variable-names-sorted", MOD, "Model.get_variable_names", "return list(self._variables)", "return sorted(self._variables)", expect="A2|"),
        ]

    def must_stay_silent(self):
        return [
            Variant("commute-product", MOD, "Model.__call__", "dxdt[k] += n * dependent[flux]\n    for k, sd", "dxdt[k] += dependent[flux] * n\n    for k, sd", quick=True),
            Variant("rename-values", MOD, "Model.__call__", r"\bdependent\b", "values", count=0, regex=True),
            Variant("dictcomp-zero", MOD, "Model.__call__", "dict.fromkeys(cache.var_names, 0.0)", "{k: 0.0 for k in cache.var_names}"),
            Variant("rhs-calculate-form", MOD, "Model._get_right_hand_side", "n = dv.fn(*(args[i] for i in dv.args))", "n = dv.calculate(args)"),
        ]


CHECK = C01
