"""C05 - isotopomer expansion: structural slice (DESIGN 4/C05); also home of the map-direction
classifier shared with C16 (Appendix A.4)."""

from __future__ import annotations

import ast

from ..core import AnalysisError, Check, Scope, norm, strip_docstring, walk_no_nested
from ..variants import Variant

MOD = "label_map.py"


def classify_reader(fn: ast.FunctionDef, map_param: str, seq_param: str) -> tuple[str, list[ast.AST]]:
    """Index-role classification of a label-map reader.

    A value is map-derived if it is an element of the map parameter (loop variable over it, over
    zip(.., map, ..), enumerate(map) second component, map[e]).  A subscript whose index is
    map-derived is GATHER when its base is the substrate sequence in Load context and SCATTER when
    its base is another (output) object in Store context.  Returns (class, evidence nodes); class in
    {"gather", "scatter", "mixed", "none"}.
    """
    derived: set[str] = set()
    for n in ast.walk(fn):
        gens = []
        if isinstance(n, ast.For):
            gens = [(n.target, n.iter)]
        elif isinstance(n, ast.comprehension):
            gens = [(n.target, n.iter)]
        for tgt, it in gens:
            if isinstance(it, ast.Name) and it.id == map_param and isinstance(tgt, ast.Name):
                derived.add(tgt.id)
            if isinstance(it, ast.Call) and norm(it.func) == "zip" and isinstance(tgt, ast.Tuple):
                for a, t in zip(it.args, tgt.elts):
                    if isinstance(a, ast.Name) and a.id == map_param and isinstance(t, ast.Name):
                        derived.add(t.id)
            if isinstance(it, ast.Call) and norm(it.func) == "enumerate" and it.args and isinstance(it.args[0], ast.Name) \
                    and it.args[0].id == map_param and isinstance(tgt, ast.Tuple) and isinstance(tgt.elts[1], ast.Name):
                derived.add(tgt.elts[1].id)

    def is_map_derived(e: ast.AST) -> bool:
        if isinstance(e, ast.Name) and e.id in derived:
            return True
        if isinstance(e, ast.Subscript) and isinstance(e.value, ast.Name) and e.value.id == map_param:
            return True
        if isinstance(e, ast.Name) and e.id == map_param:  # fancy indexing np.asarray(S)[M]
            return True
        return False

    gather, scatter = [], []
    for n in ast.walk(fn):
        if isinstance(n, ast.Subscript) and is_map_derived(n.slice):
            base = n.value
            while isinstance(base, ast.Call) and base.args:
                base = base.args[0]
            bname = base.id if isinstance(base, ast.Name) else None
            if isinstance(n.ctx, ast.Load) and bname == seq_param:
                gather.append(n)
            elif isinstance(n.ctx, ast.Store) and bname != seq_param:
                scatter.append(n)
            elif isinstance(n.ctx, ast.Load) and bname != map_param:
                scatter.append(n) if False else None
    if gather and not scatter:
        return "gather", gather
    if scatter and not gather:
        return "scatter", scatter
    if gather and scatter:
        return "mixed", gather + scatter
    return "none", []


class C05(Check):
    pid = "C05"
    title = "Isotopomer expansion preserves base structure, totals and dynamics"
    rules = {
        "L1": "a raise guarded by len(labelmap) < sum of substrate label counts dominates every add_reaction of a mapped reaction",
        "L2": "the pattern loop ranges over the full product {0,1}^(substrate labels), appends the external labels, and calls "
              "add_reaction exactly once per pattern (no filter / early exit) with the pattern in the reaction name",
        "L3": "the map is read in the documented gather direction: product position i <- substrate position labelmap[i]",
        "L4": "repacked stoichiometry changes each substrate occurrence by exactly -1 and each product occurrence by +1",
        "L5": "positions beyond the substrates enter labelled: external labels are '1' x (product labels - substrate labels)",
    }
    floors = {"L1": 1, "L2": 3, "L3": 1, "L4": 2, "L5": 1}
    decided = [
        "one isotopomer reaction per substrate labelling pattern, none skipped",
        "a map shorter than the substrates' atoms is rejected before any reaction is created",
        "map direction (gather) and unit stoichiometry per occurrence",
    ]
    undecided = [
        "atom conservation, preservation of totals, collapse of the summed dynamics to the base model (algebraic identities over all maps and states)",
        "correctness of the split points for multi-compound products beyond the slice arithmetic",
        "initial label placement in build_model",
    ]
    assumptions = ["itertools.product(('0','1'), repeat=n) enumerates all 2^n patterns"]

    def run(self) -> None:
        mod = self.prog.module(MOD)
        fn = mod.func("_create_isotopomer_reactions")
        q = fn.name
        sc = Scope(fn)
        body = strip_docstring(fn.body)
        loops = [s for s in body if isinstance(s, ast.For)]
        if len(loops) != 1:
            raise AnalysisError(f"{q}: pattern loop not recognised")
        loop = loops[0]
        # L1
        guard = None
        for s in body[: body.index(loop)]:
            if isinstance(s, ast.If) and any(isinstance(x, ast.Raise) for x in s.body):
                t = norm(s.test).replace(" ", "")
                if t in ("len(labelmap)-total_substrate_labels<0", "len(labelmap)<total_substrate_labels", "total_substrate_labels>len(labelmap)"):
                    guard = s
        tot = [s for s in body if isinstance(s, ast.Assign) and norm(s.targets[0]) == "total_substrate_labels"]
        tot_ok = tot and norm(tot[0].value) == "sum(labels_per_substrate)"
        if guard is not None and tot_ok and not any(isinstance(x, (ast.Return,)) for s in body[: body.index(loop)] for x in ast.walk(s)):
            self.holds("L1", MOD, q, "short-map-rejected", guard, f"`{norm(guard.test)}` raises before the pattern loop")
        else:
            self.violated("L1", MOD, q, "short-map-rejected", guard or fn,
                          "no rejection of a map shorter than the substrates' label positions dominates reaction creation",
                          witness="A(2 labels) -> B(2 labels) with labelmap [0]: reactions are created from a truncated product pattern instead of ValueError")
        # L2
        it_ = norm(loop.iter).replace(" ", "")
        full = "it.product(('0','1'),repeat=total_substrate_labels)" in it_ and "if" not in it_.split("repeat")[1]
        if full:
            self.holds("L2", MOD, q, "full-pattern-space", loop, "iterates it.product(('0','1'), repeat=total_substrate_labels), unfiltered")
        else:
            self.violated("L2", MOD, q, "full-pattern-space", loop, f"pattern loop `{norm(loop.iter)}` does not range over all substrate labelling patterns",
                          witness="an isotopomer of the substrate has no consuming reaction: label disappears from the dynamics")
        adds = [i for i, s in enumerate(loop.body) if isinstance(s, ast.Expr) and norm(s.value).startswith("model.add_reaction(")]
        skips = [x for x in walk_no_nested(loop) if isinstance(x, (ast.If, ast.Continue, ast.Break, ast.Return, ast.Try))]
        if len(adds) == 1 and not skips:
            self.holds("L2", MOD, q, "one-reaction-per-pattern", loop.body[adds[0]], "add_reaction is the unconditional last step of every iteration")
        else:
            self.violated("L2", MOD, q, "one-reaction-per-pattern", skips[0] if skips else loop,
                          "a labelling pattern can be skipped or produce several reactions",
                          witness="multiply labelled substrates are never consumed (or consumed twice)")
        call = loop.body[adds[0]].value if adds else None
        kw = {k.arg: norm(k.value) for k in call.keywords} if call else {}
        name_src = [s for s in loop.body if isinstance(s, ast.Assign) and norm(s.targets[0]) == kw.get("name")]
        if name_src and loop.target.id in {n.id for n in ast.walk(name_src[0].value) if isinstance(n, ast.Name)} \
                and kw.get("stoichiometry") == "new_stoichiometry":
            self.holds("L2", MOD, q, "pattern-in-name", name_src[0], "reaction name contains the substrate pattern (unique per pattern)")
        else:
            self.violated("L2", MOD, q, "pattern-in-name", call or loop, "isotopomer reactions are not named by their pattern: later ones collide with / overwrite earlier ones")
        ext = [i for i, s in enumerate(loop.body) if isinstance(s, ast.AugAssign) and norm(s.target) == loop.target.id and norm(s.value) == "external_labels"]
        mapc = [i for i, s in enumerate(loop.body) if "_map_substrates_to_products(" in norm(s)]
        if ext and mapc and ext[0] < mapc[0]:
            self.holds("L5", MOD, q, "external-appended-before-mapping", loop.body[ext[0]], "external labels are appended to the pattern before it is mapped")
        else:
            self.violated("L5", MOD, q, "external-appended-before-mapping", loop, "external label positions are not appended before mapping: maps naming them fail or read substrate atoms")
        g = mod.func("_get_external_labels")
        t = norm(g)
        if "n_external_labels = total_product_labels - total_substrate_labels" in t and "['1'] * n_external_labels" in t:
            self.holds("L5", MOD, g.name, "external-labelled", g, "'1' x (product labels - substrate labels)")
        else:
            self.violated("L5", MOD, g.name, "external-labelled", g, "external positions do not enter labelled / wrong count")
        # L3
        rd = mod.func("_map_substrates_to_products")
        cls, ev = classify_reader(rd, "labelmap", "rate_suffix")
        if cls == "gather":
            self.holds("L3", MOD, rd.name, "map-direction", ev[0], f"`{norm(ev[0])}`: map elements index the substrate pattern (gather)")
        elif cls == "scatter":
            self.violated("L3", MOD, rd.name, "map-direction", ev[0], f"`{norm(ev[0])}`: map elements are used as output positions (scatter = inverse permutation of the documented reading)",
                          witness="labelmap [2,0,1]: label on substrate atom 1 arrives at product atom 3 instead of atom 2")
        else:
            self.undecided_ob("L3", MOD, rd.name, "map-direction", rd, f"reader shape not classifiable ({cls})")
        # L4
        rp = mod.func("_repack_stoichiometries")
        aug = [(norm(s.target), type(s.op).__name__, norm(s.value), norm(sc2)) for lp in rp.body if isinstance(lp, ast.For)
               for s in lp.body if isinstance(s, ast.AugAssign) for sc2 in [lp.iter]]
        want = {("new_stoichiometries[arg]", "Sub", "1", "new_substrates"), ("new_stoichiometries[arg]", "Add", "1", "new_products")}
        for w in sorted(want):
            cons = f"unit-{w[1]}-{w[3]}"
            if w in set(aug):
                self.holds("L4", MOD, rp.name, cons, rp, f"each occurrence in {w[3]} changes the coefficient by {'-' if w[1] == 'Sub' else '+'}1")
            else:
                self.violated("L4", MOD, rp.name, cons, rp, f"occurrences in {w[3]} do not change the coefficient by exactly {'-' if w[1] == 'Sub' else '+'}1: {aug}",
                              witness="2 A -> B: the isotopomer reaction consumes one A instead of two")

    def must_fire(self):
        C = "_create_isotopomer_reactions"
        return [
            Variant("drop-short-map-raise", MOD, C,
                    "    if len(labelmap) - total_substrate_labels < 0:\n        msg = f\"Labelmap 'missing' {abs(len(labelmap) - total_substrate_labels)} label(s)\"\n        raise ValueError(msg)\n", "",
                    expect="L1|", quick=True),
            Variant("skip-multiply-labelled", MOD, C, "        rate_suffix += external_labels\n",
                    "        if rate_suffix.count('1') > 1:\n            continue\n        rate_suffix += external_labels\n", expect="L2|", quick=True),
            Variant("scatter-reader", MOD, "_map_substrates_to_products", "    return ''.join([rate_suffix[i] for i in labelmap])",
                    "    out = [''] * len(labelmap)\n    for src, dst in enumerate(labelmap):\n        out[dst] = rate_suffix[src]\n    return ''.join(out)", expect="L3|", quick=True),
            Variant("products-plus-two", MOD, "_repack_stoichiometries", "new_stoichiometries[arg] += 1", "new_stoichiometries[arg] += 2", expect="L4|", quick=True),
            Variant("substrates-set", MOD, "_repack_stoichiometries", "new_stoichiometries[arg] -= 1", "new_stoichiometries[arg] = -1", expect="L4|"),
            Variant("external-unlabelled", MOD, "_get_external_labels", "['1'] * n_external_labels", "['0'] * n_external_labels", expect="L5|"),
            Variant("patterns-of-products", MOD, C, "repeat=total_substrate_labels", "repeat=total_product_labels", expect="L2|"),
            Variant("name-without-pattern", MOD, C, "new_rate_name = rate_name + '__' + rate_suffix", "new_rate_name = rate_name + '__iso'", expect="L2|"),
            Variant("map-before-external", MOD, C,
                    "        rate_suffix += external_labels\n        product_suffix = _map_substrates_to_products(rate_suffix=rate_suffix, labelmap=labelmap)",
                    "        product_suffix = _map_substrates_to_products(rate_suffix=rate_suffix, labelmap=labelmap)\n        rate_suffix += external_labels", expect="L5|"),
        ]

    def must_stay_silent(self):
        return [
            Variant("generator-reader", MOD, "_map_substrates_to_products", "''.join([rate_suffix[i] for i in labelmap])", "''.join((rate_suffix[pos] for pos in labelmap))", quick=True),
            Variant("guard-direct-form", MOD, "_create_isotopomer_reactions", "if len(labelmap) - total_substrate_labels < 0:", "if len(labelmap) < total_substrate_labels:"),
        ]


CHECK = C05
