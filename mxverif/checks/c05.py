"""C05 - isotopomer expansion: structural slice (DESIGN 4/C05); also home of the map-direction
classifier shared with C16 (Appendix A.4)."""

from __future__ import annotations

import ast

from ..core import AnalysisError, Check, Scope, norm, str_parts, strip_docstring, walk_no_nested
from ..interp import Sym, SymInterp
from ..variants import Variant

MOD = "label_map.py"


def classify_reader(fn: ast.FunctionDef, map_param: str, seq_param: str, out_param: str | None = None) -> tuple[str, list[ast.AST]]:
    """Index-role classification of a label-map reader.

    A value is map-derived if it is an element of the map parameter (loop variable over it, over
    zip(.., map, ..), enumerate(map) second component, map[e]).  A subscript whose index is
    map-derived is GATHER when its base is the substrate sequence in Load context and SCATTER when
    its base is another (output) object in Store context.  Returns (class, evidence nodes); class in
    {"gather", "scatter", "mixed", "none"}.
    """
    derived: set[str] = set()
    for n in ast.walk(fn):
        gens = []
        if isinstance(n, ast.For):
            gens = [(n.target, n.iter)]
        elif isinstance(n, ast.comprehension):
            gens = [(n.target, n.iter)]
        for tgt, it in gens:
            if isinstance(it, ast.Name) and it.id == map_param and isinstance(tgt, ast.Name):
                derived.add(tgt.id)
            # `for i in range(len(map))` / `for i, _ in enumerate(..)`: i is a position, map[i] is map-derived (handled below)
            if isinstance(it, ast.Call) and norm(it.func) == "zip" and isinstance(tgt, ast.Tuple):
                for a, t in zip(it.args, tgt.elts):
                    if isinstance(a, ast.Name) and a.id == map_param and isinstance(t, ast.Name):
                        derived.add(t.id)
            if isinstance(it, ast.Call) and norm(it.func) == "enumerate" and it.args and isinstance(it.args[0], ast.Name) \
                    and it.args[0].id == map_param and isinstance(tgt, ast.Tuple) and isinstance(tgt.elts[1], ast.Name):
                derived.add(tgt.elts[1].id)

    def is_map_derived(e: ast.AST) -> bool:
        if isinstance(e, ast.Name) and e.id in derived:
            return True
        if isinstance(e, ast.Subscript) and isinstance(e.value, ast.Name) and e.value.id == map_param:
            return True
        if isinstance(e, ast.Name) and e.id == map_param:  # fancy indexing np.asarray(S)[M]
            return True
        return False

    gather, scatter = [], []
    for n in ast.walk(fn):
        if isinstance(n, ast.Subscript) and is_map_derived(n.slice):
            base = n.value
            while isinstance(base, ast.Call) and base.args:
                base = base.args[0]
            bname = base.id if isinstance(base, ast.Name) else None
            if isinstance(n.ctx, ast.Load) and bname == seq_param:
                gather.append(n)
            elif isinstance(n.ctx, ast.Load) and out_param is not None and bname == out_param:
                scatter.append(n)  # product position chosen by the map element: substrate i -> product map[i]
            elif isinstance(n.ctx, ast.Store) and bname != seq_param:
                scatter.append(n)
            elif isinstance(n.ctx, ast.Load) and bname != map_param:
                scatter.append(n) if False else None
    if gather and not scatter:
        return "gather", gather
    if scatter and not gather:
        return "scatter", scatter
    if gather and scatter:
        return "mixed", gather + scatter
    return "none", []


class C05(Check):
    pid = "C05"
    title = "Isotopomer expansion preserves base structure, totals and dynamics"
    rules = {
        "L1": "a raise guarded by len(labelmap) < sum of substrate label counts dominates every add_reaction of a mapped reaction",
        "L2": "the pattern loop ranges over the full product {0,1}^(substrate labels), appends the external labels, and calls "
              "add_reaction exactly once per pattern (no filter / early exit) with the pattern in the reaction name",
        "L3": "the map is read in the documented gather direction: product position i <- substrate position labelmap[i]",
        "L4": "repacked stoichiometry changes each substrate occurrence by exactly -1 and each product occurrence by +1",
        "L6": "initial label placement addresses isotopomers by string position (position i <-> i-th character from the left, the "
              "convention of the pattern generator and of the map reader); addressing by bit significance (1 << i) mirrors the positions",
        "L10": "dataflow of one pattern: stoichiometry = repack(substrates labelled by the pattern cut by the substrates' label counts, products labelled "
               "by the mapped pattern cut by the products' label counts), rate arguments renamed to exactly those isotopomers",
        "L9": "the concatenated labelling pattern is cut into consecutive windows, compound k getting exactly its own number of positions "
              "(window arithmetic for three compounds, symbolic label counts)",
        "L8": "totals are preserved at the start: every isotopomer of a labelled compound starts at 0 and the whole initial amount goes to "
              "exactly one of them (the unlabelled one when no label is requested); unlabelled compounds keep their value",
        "L7": "substrate / product occurrence lists follow the declared order of the stoichiometry (no sorted/set/reversed): map "
              "positions refer to atoms in that order",
        "L11": "carry-over: build_model copies what it does not expand - parameter values, derived parameters, derived variables and reactions "
               "without a label map keep name, function and stoichiometry, with labelled compounds read through `<name>__total` and everything else "
               "by its own name; a reaction with a label map is expanded from its own name, function, stoichiometry, arguments and map",
        "L5": "positions beyond the substrates enter labelled: external labels are '1' x (product labels - substrate labels)",
    }
    floors = {"L1": 1, "L2": 3, "L3": 1, "L4": 2, "L5": 1, "L6": 1, "L7": 2, "L8": 2, "L9": 1, "L10": 2, "L11": 5}
    decided = [
        "one isotopomer reaction per substrate labelling pattern, none skipped",
        "a map shorter than the substrates' atoms is rejected before any reaction is created",
        "map direction (gather) and unit stoichiometry per occurrence",
    ]
    undecided = [
        "atom conservation, preservation of totals, collapse of the summed dynamics to the base model (algebraic identities over all maps and states)",
        "correctness of the split points for multi-compound products beyond the slice arithmetic",
        "initial label placement in build_model",
    ]
    assumptions = ["itertools.product(('0','1'), repeat=n) enumerates all 2^n patterns"]

    def run(self) -> None:
        mod = self.prog.module(MOD)
        self.reactions(mod)
        self.l11(mod)

    # ------------------------------------------------------------------
    def l11(self, mod) -> None:
        """Carry-over in build_model, from its path summaries (one iteration per loop): what is not expanded is copied, with labelled
        compounds read through their totals."""
        fn = mod.func("LabelMapper.build_model")
        q = "LabelMapper.build_model"

        class I1(SymInterp):
            loop_unroll = 1

        paths = [st for st, _ in I1().run_function(fn, Sym()).returns]
        if not paths:
            raise AnalysisError(f"{q}: no returning path")
        ISO = {"self.get_isotopomers()", "isotopomers"}

        def parse_call(txt):
            try:
                c = ast.parse(txt, mode="eval").body
            except SyntaxError:
                return None
            return c if isinstance(c, ast.Call) else None

        def totals_of(e, src_args: str) -> bool:
            """e is `[f'{c}__total' if c in ISO else c for c in <src_args>]` (or the mirrored test)."""
            if not (isinstance(e, (ast.ListComp, ast.GeneratorExp)) and len(e.generators) == 1 and not e.generators[0].ifs and isinstance(e.generators[0].target, ast.Name)):
                if isinstance(e, ast.Call) and norm(e.func) in ("list", "tuple") and len(e.args) == 1:
                    return totals_of(e.args[0], src_args)
                return False
            g = e.generators[0]
            v = g.target.id
            if norm(g.iter) != src_args or not isinstance(e.elt, ast.IfExp):
                return False
            t = e.elt.test
            if not (isinstance(t, ast.Compare) and len(t.ops) == 1 and norm(t.left) == v and norm(t.comparators[0]) in ISO):
                return False
            tot, plain = (e.elt.body, e.elt.orelse) if isinstance(t.ops[0], ast.In) else (e.elt.orelse, e.elt.body) if isinstance(t.ops[0], ast.NotIn) else (None, None)
            return tot is not None and norm(plain) == v and norm(tot).replace('"', "'") in (f"f'{{{v}}}__total'", f"{v} + '__total'")

        def calls(st):
            return [c for c in (parse_call(e[1]) for e in st.events if e[0] == "call") if c is not None]

        def kwmap(c, names):
            d = {n_: norm(a) for n_, a in zip(names, c.args)}
            d.update({k.arg: norm(k.value) for k in c.keywords if k.arg})
            return d, {**{n_: a for n_, a in zip(names, c.args)}, **{k.arg: k.value for k in c.keywords if k.arg}}

        RX = "self.model.get_raw_reactions()"
        DP = "self.model.get_derived_parameters()"
        DV = "self.model.get_derived_variables()"
        verdicts = {"parameters": [], "derived-parameters": [], "derived-variables": [], "unmapped-reactions": [], "mapped-reactions": []}
        seen = {k: 0 for k in verdicts}
        for st in paths:
            cs = calls(st)
            adds = [c for c in cs if isinstance(c.func, ast.Attribute) and c.func.attr in ("add_parameters", "add_derived", "add_reaction")]
            if not any(c.func.attr == "add_parameters" and c.args and norm(c.args[0]) == "self.model.get_parameter_values()" for c in adds):
                verdicts["parameters"].append("a path builds the model without the base model's parameter values")
            seen["parameters"] += 1
            texts = " ".join(e[1] for e in st.events)
            iter_dp = f"KEY(0, {DP})" in texts or f"VALUE(0, {DP})" in texts
            iter_dv = f"KEY(0, {DV})" in texts or f"VALUE(0, {DV})" in texts
            cond_rx = [(c, v) for c, v in st.conds if c.replace(" ", "") == f"self.label_maps.get(KEY(0,{RX}))isNone".replace(" ", "")]
            for c in adds:
                if c.func.attr == "add_derived":
                    d, raw = kwmap(c, ["name", "fn", "args"])
                    if d.get("name") == f"KEY(0, {DP})":
                        seen["derived-parameters"] += 1
                        if not (d.get("fn") == f"VALUE(0, {DP}).fn" and d.get("args") == f"VALUE(0, {DP}).args"):
                            verdicts["derived-parameters"].append(f"a derived parameter is copied as fn={d.get('fn')}, args={d.get('args')}")
                    if d.get("name") == f"KEY(0, {DV})":
                        seen["derived-variables"] += 1
                        if not (d.get("fn") == f"VALUE(0, {DV}).fn" and "args" in raw and totals_of(raw["args"], f"VALUE(0, {DV}).args")):
                            verdicts["derived-variables"].append(f"a derived variable is copied with args `{d.get('args', '')[:70]}`: labelled compounds must be read through their `__total`, everything else by its own name")
            if cond_rx:
                none = cond_rx[0][1]
                ar = [c for c in adds if c.func.attr == "add_reaction"]
                ex = [c for c in cs if norm(c.func) == "_create_isotopomer_reactions"]
                if none:
                    seen["unmapped-reactions"] += 1
                    ok = False
                    if len(ar) == 1 and not ex:
                        d, raw = kwmap(ar[0], ["name", "fn", "args", "stoichiometry"])
                        ok = d.get("name") == f"KEY(0, {RX})" and d.get("fn") == f"VALUE(0, {RX}).fn" and d.get("stoichiometry") == f"VALUE(0, {RX}).stoichiometry" \
                            and "args" in raw and totals_of(raw["args"], f"VALUE(0, {RX}).args")
                    if not ok:
                        verdicts["unmapped-reactions"].append("a reaction without a label map is not copied as (same name, same function, same stoichiometry, arguments with labelled compounds read through `__total`)")
                else:
                    seen["mapped-reactions"] += 1
                    ok = False
                    if len(ex) == 1 and not ar:
                        sig = [a_.arg for a_ in mod.func("_create_isotopomer_reactions").args.args + mod.func("_create_isotopomer_reactions").args.kwonlyargs]
                        d, _ = kwmap(ex[0], sig)
                        ok = d.get("rate_name") == f"KEY(0, {RX})" and d.get("function") == f"VALUE(0, {RX}).fn" and d.get("stoichiometry") == f"VALUE(0, {RX}).stoichiometry" \
                            and d.get("args") == f"VALUE(0, {RX}).args" and d.get("labelmap") == f"self.label_maps.get(KEY(0, {RX}))" and d.get("label_variables") == "self.label_variables"
                    if not ok:
                        verdicts["mapped-reactions"].append("a reaction with a label map is not expanded from its own (name, function, stoichiometry, arguments, map)")
            else:
                # the reaction loop must decide on the map for every reaction it iterates
                if f"KEY(0, {RX})" in texts or f"VALUE(0, {RX})" in texts:
                    verdicts["unmapped-reactions"].append("a reaction is processed without consulting self.label_maps")
            if iter_dp is False and any(f"ITEM(0, {DP}" in texts for _ in (0,)):
                pass
        anchor = fn
        for cons, probs in verdicts.items():
            if probs:
                self.violated("L11", MOD, q, f"carry-over {cons}", anchor, sorted(set(probs))[0],
                              witness="a model with one reaction that has no label map (or a derived quantity over a labelled compound): the labelled model misses it / reads a name that does not exist")
            elif seen[cons] == 0:
                self.violated("L11", MOD, q, f"carry-over {cons}", anchor, f"no path of build_model copies the base model's {cons}",
                              witness="a model with one reaction that has no label map: the labelled model does not contain it, totals drift from the base model")
            else:
                self.holds("L11", MOD, q, f"carry-over {cons}", anchor, f"copied on every path that iterates them ({seen[cons]} paths)")

    # ------------------------------------------------------------------
    def reactions(self, mod) -> None:
        """_create_isotopomer_reactions, decided on its path summaries: every local is substituted away, so the add_reaction call of
        one loop iteration carries the whole dataflow from (stoichiometry, label counts, map) to the created reaction as one
        expression; known sub-expressions are abbreviated bottom-up (BS, LS, S, EXT, PAT, SUF, MAPPED, NS, NP) and the rules read the rest."""
        import sympy

        fn = mod.func("_create_isotopomer_reactions")
        q = fn.name
        out = SymInterp().run_function(fn, Sym())
        sigs = {n: [a_.arg for a_ in f.args.posonlyargs + f.args.args] for n, f in mod.functions.items() if "." not in n}

        class Abbrev(ast.NodeTransformer):
            def kw(self_i, c: ast.Call) -> dict[str, str] | None:
                name = norm(c.func)
                d = {}
                for i, a_ in enumerate(c.args):
                    if name not in sigs or i >= len(sigs[name]):
                        return None
                    d[sigs[name][i]] = norm(a_)
                for k in c.keywords:
                    if k.arg is None:
                        return None
                    d[k.arg] = norm(k.value)
                return d

            def visit_Subscript(self_i, n):
                self_i.generic_visit(n)
                if isinstance(n.value, ast.Call) and norm(n.value.func) == "_unpack_stoichiometries" and self_i.kw(n.value) == {"stoichiometries": "stoichiometry"} \
                        and norm(n.slice) in ("0", "1"):
                    return ast.Name(id="BS" if norm(n.slice) == "0" else "BP", ctx=ast.Load())
                return n

            def visit_BinOp(self_i, n):
                self_i.generic_visit(n)
                if isinstance(n.op, ast.Add) and norm(n.left) == "''.join(PAT)" and norm(n.right) == "EXT":
                    return ast.Name(id="SUF", ctx=ast.Load())
                return n

            def visit_Call(self_i, n):
                self_i.generic_visit(n)
                name = norm(n.func)
                kw = self_i.kw(n)
                table = {
                    ("_get_labels_per_variable", (("compounds", "BS"), ("label_variables", "label_variables"))): "LS",
                    ("_get_labels_per_variable", (("compounds", "BP"), ("label_variables", "label_variables"))): "LP",
                    ("_get_external_labels", (("total_product_labels", "P"), ("total_substrate_labels", "S"))): "EXT",
                    ("_map_substrates_to_products", (("labelmap", "labelmap"), ("rate_suffix", "SUF"))): "MAPPED",
                    ("_split_label_string", (("label", "SUF"), ("labels_per_compound", "LS"))): "SPLIT_S",
                    ("_split_label_string", (("label", "MAPPED"), ("labels_per_compound", "LP"))): "SPLIT_P",
                    ("_assign_compound_labels", (("base_compounds", "BS"), ("label_suffixes", "SPLIT_S"))): "NS",
                    ("_assign_compound_labels", (("base_compounds", "BP"), ("label_suffixes", "SPLIT_P"))): "NP",
                }
                if kw is not None and (name, tuple(sorted(kw.items()))) in table:
                    return ast.Name(id=table[(name, tuple(sorted(kw.items())))], ctx=ast.Load())
                if name == "sum" and len(n.args) == 1 and not n.keywords and norm(n.args[0]) in ("LS", "LP"):
                    return ast.Name(id="S" if norm(n.args[0]) == "LS" else "P", ctx=ast.Load())
                if name == "len" and len(n.args) == 1 and norm(n.args[0]) == "labelmap":
                    return ast.Name(id="M", ctx=ast.Load())
                if name == "ITEM" and len(n.args) == 2 and isinstance(n.args[1], ast.Call) and norm(n.args[1].func) in ("it.product", "itertools.product", "product"):
                    pr = n.args[1]
                    kws = {k.arg: norm(k.value) for k in pr.keywords}
                    if len(pr.args) == 1 and norm(pr.args[0]) in ("('0', '1')", "'01'", "['0', '1']", "('0', '1')") and kws == {"repeat": "S"}:
                        return ast.Name(id="PAT", ctx=ast.Load())
                return n

        def abbrev(txt: str) -> ast.AST:
            return Abbrev().visit(ast.parse(txt, mode="eval").body)

        loops = [s_ for s_ in strip_docstring(fn.body) if isinstance(s_, ast.For)]
        if len(loops) != 1:
            raise AnalysisError(f"{q}: pattern loop not recognised")
        loop = loops[0]
        add_paths = []
        for st, _ in out.returns:
            adds = [e[1] for e in st.events if e[0] == "call" and e[1].startswith("model.add_reaction(")]
            if adds:
                add_paths.append((st, [abbrev(a_) for a_ in adds]))
        if not add_paths:
            raise AnalysisError(f"{q}: no path creates a reaction")

        # L1: a rejection `len(labelmap) < total substrate labels` is decided (and survived) on every path that creates reactions
        def rejects_short(cond_txt: str, pol: bool) -> bool:
            """(cond, pol) holds exactly when M < S (integers)."""
            try:
                t = abbrev(cond_txt)
            except SyntaxError:
                return False
            if not (isinstance(t, ast.Compare) and len(t.ops) == 1):
                return False
            M, S = sympy.symbols("M S", integer=True)

            def lin(e):
                if isinstance(e, ast.Name) and e.id in ("M", "S"):
                    return {"M": M, "S": S}[e.id]
                if isinstance(e, ast.Constant) and isinstance(e.value, int):
                    return sympy.Integer(e.value)
                if isinstance(e, ast.BinOp) and isinstance(e.op, (ast.Add, ast.Sub)):
                    l_, r_ = lin(e.left), lin(e.right)
                    return l_ + r_ if isinstance(e.op, ast.Add) else l_ - r_
                if isinstance(e, ast.UnaryOp) and isinstance(e.op, ast.USub):
                    return -lin(e.operand)
                raise ValueError
            try:
                d = lin(t.left) - lin(t.comparators[0])
            except ValueError:
                return False
            op = type(t.ops[0])
            if not pol:
                op = {ast.Lt: ast.GtE, ast.LtE: ast.Gt, ast.Gt: ast.LtE, ast.GtE: ast.Lt}.get(op)
            # condition <=> E >= 1 over the integers
            E = {ast.Gt: d, ast.GtE: d + 1, ast.Lt: -d, ast.LtE: -d + 1}.get(op)
            return E is not None and sympy.simplify(E - (S - M)) == 0

        guard_ok = all(any(rejects_short(c, not p) for c, p in st.conds) for st, _ in add_paths)
        raised = any(rejects_short(c, p) for st, _, _ in out.raises for c, p in st.conds[-1:])
        gnode = [s_ for s_ in strip_docstring(fn.body) if isinstance(s_, ast.If) and any(isinstance(x, ast.Raise) for x in ast.walk(s_))]
        early_return = any(isinstance(x, ast.Return) for s_ in strip_docstring(fn.body)[: strip_docstring(fn.body).index(loop)] for x in ast.walk(s_))
        if guard_ok and raised and not early_return:
            self.holds("L1", MOD, q, "short-map-rejected", gnode[0] if gnode else fn, "a map shorter than the substrates' label positions raises before the pattern loop")
        else:
            self.violated("L1", MOD, q, "short-map-rejected", gnode[0] if gnode else fn,
                          "no rejection of a map shorter than the substrates' label positions dominates reaction creation",
                          witness="A(2 labels) -> B(2 labels) with labelmap [0]: reactions are created from a truncated product pattern instead of ValueError")
        # L2: the loop ranges over all substrate patterns, unfiltered
        calls = [c for _, cs in add_paths for c in cs]
        names_pat = all(any(isinstance(x, ast.Name) and x.id in ("PAT", "SUF") for x in ast.walk(c)) for c in calls)
        it_src = loop.iter.generators[0].iter if isinstance(loop.iter, (ast.GeneratorExp, ast.ListComp)) and len(loop.iter.generators) == 1 else loop.iter
        filtered = isinstance(loop.iter, (ast.GeneratorExp, ast.ListComp)) and (len(loop.iter.generators) != 1 or loop.iter.generators[0].ifs)
        src_ok = norm(abbrev(SymInterp().text(it_src, add_paths[0][0]))) in ("it.product(('0', '1'), repeat=S)", "it.product('01', repeat=S)", "it.product(['0', '1'], repeat=S)",
                                                                               "itertools.product(('0', '1'), repeat=S)", "itertools.product('01', repeat=S)")
        if src_ok and not filtered:
            self.holds("L2", MOD, q, "full-pattern-space", loop, "iterates it.product(('0','1'), repeat=total_substrate_labels), unfiltered")
        else:
            self.violated("L2", MOD, q, "full-pattern-space", loop, f"pattern loop `{norm(loop.iter)}` does not range over all substrate labelling patterns",
                          witness="an isotopomer of the substrate has no consuming reaction: label disappears from the dynamics")
        adds = [i for i, s_ in enumerate(loop.body) if isinstance(s_, ast.Expr) and norm(s_.value).startswith("model.add_reaction(")]
        skips = [x for x in walk_no_nested(loop) if isinstance(x, (ast.If, ast.Continue, ast.Break, ast.Return, ast.Try))]
        if len(adds) == 1 and not skips and all(len(cs) == 1 for _, cs in add_paths):
            self.holds("L2", MOD, q, "one-reaction-per-pattern", loop.body[adds[0]], "add_reaction is the unconditional last step of every iteration")
        else:
            self.violated("L2", MOD, q, "one-reaction-per-pattern", skips[0] if skips else loop,
                          "a labelling pattern can be skipped or produce several reactions",
                          witness="multiply labelled substrates are never consumed (or consumed twice)")
        call = calls[0]
        kw = {k.arg: k.value for k in call.keywords}
        name_ok = "name" in kw and any(isinstance(x, ast.Name) and x.id in ("PAT", "SUF") for x in ast.walk(kw["name"])) and "rate_name" in norm(kw["name"])
        anchor = loop.body[adds[0]] if adds else loop
        if name_ok:
            self.holds("L2", MOD, q, "pattern-in-name", anchor, "reaction name contains the substrate pattern (unique per pattern)")
        else:
            self.violated("L2", MOD, q, "pattern-in-name", anchor, "isotopomer reactions are not named by their pattern: later ones collide with / overwrite earlier ones")
        # L5 / L10: the dataflow from the pattern to the stoichiometry and the argument list
        st_txt = norm(kw.get("stoichiometry")) if "stoichiometry" in kw else "?"
        mapped_from_suf = any(isinstance(x, ast.Name) and x.id in ("MAPPED", "NP", "SPLIT_P") for x in ast.walk(call))
        if mapped_from_suf:
            self.holds("L5", MOD, q, "external-appended-before-mapping", anchor, "the map reads the pattern with the external labels already appended")
        else:
            self.violated("L5", MOD, q, "external-appended-before-mapping", anchor, "external label positions are not appended before mapping: maps naming them fail or read substrate atoms")
        if st_txt == "_repack_stoichiometries(new_substrates=NS, new_products=NP)":
            self.holds("L10", MOD, q, "pattern-to-stoichiometry", anchor, "substrates are labelled by the pattern, products by the mapped pattern, each cut by its own label counts, in declared order")
        else:
            self.violated("L10", MOD, q, "pattern-to-stoichiometry", anchor,
                          f"the created stoichiometry is `{st_txt[:160]}`, not repack(substrates labelled by the pattern / products by the mapped pattern)",
                          witness="A__10 -> B with the identity map: the product isotopomer does not carry the substrate's label")
        args_txt = norm(kw.get("args")) if "args" in kw else "?"

        def seq_parts(e):
            """A + B / it.chain(A, B) / [*A, *B] / list(..) -> [A, B] as texts."""
            if isinstance(e, ast.BinOp) and isinstance(e.op, ast.Add):
                a_, b_ = seq_parts(e.left), seq_parts(e.right)
                return None if a_ is None or b_ is None else a_ + b_
            if isinstance(e, ast.Call) and norm(e.func).split(".")[-1] == "chain" and not e.keywords:
                out_ = []
                for a_ in e.args:
                    p_ = seq_parts(a_)
                    if p_ is None:
                        return None
                    out_ += p_
                return out_
            if isinstance(e, ast.Call) and norm(e.func) in ("list", "tuple") and len(e.args) == 1:
                return seq_parts(e.args[0])
            if isinstance(e, (ast.List, ast.Tuple)) and e.elts and all(isinstance(x, ast.Starred) for x in e.elts):
                out_ = []
                for x in e.elts:
                    p_ = seq_parts(x.value)
                    if p_ is None:
                        return None
                    out_ += p_
                return out_
            return [norm(e)] if isinstance(e, ast.Name) else None

        def pair_segments(e):
            """A renaming table as the ordered list of (old names, new names) segments it is zipped from (later segments win)."""
            if isinstance(e, ast.BinOp) and isinstance(e.op, ast.BitOr):
                a_, b_ = pair_segments(e.left), pair_segments(e.right)
                return None if a_ is None or b_ is None else a_ + b_
            if isinstance(e, ast.Dict) and e.keys and all(k_ is None for k_ in e.keys):
                out_ = []
                for v_ in e.values:
                    p_ = pair_segments(v_)
                    if p_ is None:
                        return None
                    out_ += p_
                return out_
            if isinstance(e, ast.Call) and norm(e.func) == "dict" and len(e.args) == 1 and isinstance(e.args[0], ast.Call) and norm(e.args[0].func) == "zip" and len(e.args[0].args) == 2:
                ks, vs = seq_parts(e.args[0].args[0]), seq_parts(e.args[0].args[1])
                if ks is None or vs is None or len(ks) != len(vs):
                    return None
                return list(zip(ks, vs))
            return None

        ok_args = False
        if "args" in kw and isinstance(kw["args"], (ast.ListComp, ast.GeneratorExp)) and len(kw["args"].generators) == 1 and not kw["args"].generators[0].ifs \
                and norm(kw["args"].generators[0].iter) == "args":
            v_ = norm(kw["args"].generators[0].target)
            elt = kw["args"].elt
            if isinstance(elt, ast.Call) and isinstance(elt.func, ast.Attribute) and elt.func.attr == "get" and [norm(a_) for a_ in elt.args] == [v_, v_]:
                ok_args = pair_segments(elt.func.value) == [("BS", "NS"), ("BP", "NP")]
        if ok_args and norm(kw.get("fn")) == "function":
            self.holds("L10", MOD, q, "rate-arguments-renamed", anchor, "the rate law's arguments are renamed to the isotopomers taking part (substrates and products), others kept")
        else:
            self.violated("L10", MOD, q, "rate-arguments-renamed", anchor, f"rate arguments `{args_txt[:140]}` are not the base arguments with substrates/products replaced by their isotopomers",
                          witness="the isotopomer reaction's rate reads the total pool / the wrong isotopomer")
        self.helpers(mod)

    def helpers(self, mod) -> None:
        g = mod.func("_get_external_labels")
        ok_ext = True
        paths = SymInterp().run_function(g, Sym()).returns
        N = "total_product_labels - total_substrate_labels"
        for st, _ in paths:
            rv = [e[1] for e in st.events if e[0] == "return"]
            rv = rv[-1] if rv else "None"
            rv = rv.replace(f"''.join(['1'] * ({N}))", f"'1' * ({N})")
            nonpos = any((c, p) in ((f"{N} > 0", False), (f"{N} <= 0", True), (f"{N} >= 1", False), (f"{N} < 1", True)) for c, p in st.conds)
            if not (rv == f"'1' * ({N})" or (nonpos and rv == "''")):
                ok_ext = False
        # the pattern string is cut into consecutive per-compound pieces
        sp = mod.func("_split_label_string")
        from ..windows import partition_violation, slice_windows

        try:
            params = [a_.arg for a_ in sp.args.args]
            windows, anchor, L = slice_windows(sp, None, params[1])
            if len(windows) != 3 or any(norm(w[3].value) != params[0] for w in windows):
                self.undecided_ob("L9", MOD, sp.name, "consecutive-windows", sp, "slices of the label string not recognised")
            else:
                bad = partition_violation(windows, L)
                if bad:
                    k, lo, hi, wl, wh, node = bad
                    self.violated("L9", MOD, sp.name, "consecutive-windows", node,
                                  f"compound {k + 1} receives label positions [{lo}:{hi}] instead of [{wl}:{wh}] (label counts l1,l2,l3)",
                                  witness="A(2 carbons) + B(1 carbon): B's isotopomer is read from A's positions")
                else:
                    self.holds("L9", MOD, sp.name, "consecutive-windows", anchor, "compound k receives positions [l1+..+l(k-1) : l1+..+lk]")
        except AnalysisError as e:
            self.undecided_ob("L9", MOD, sp.name, "consecutive-windows", sp, str(e))
        if paths and ok_ext:
            self.holds("L5", MOD, g.name, "external-labelled", g, "'1' x (product labels - substrate labels)")
        else:
            self.violated("L5", MOD, g.name, "external-labelled", g, "external positions do not enter labelled / wrong count")
        # L3
        rd = mod.func("_map_substrates_to_products")
        cls, ev = classify_reader(rd, "labelmap", "rate_suffix")
        if cls == "gather":
            self.holds("L3", MOD, rd.name, "map-direction", ev[0], f"`{norm(ev[0])}`: map elements index the substrate pattern (gather)")
        elif cls == "scatter":
            self.violated("L3", MOD, rd.name, "map-direction", ev[0], f"`{norm(ev[0])}`: map elements are used as output positions (scatter = inverse permutation of the documented reading)",
                          witness="labelmap [2,0,1]: label on substrate atom 1 arrives at product atom 3 instead of atom 2")
        else:
            self.undecided_ob("L3", MOD, rd.name, "map-direction", rd, f"reader shape not classifiable ({cls})")
        # L4
        rp = mod.func("_repack_stoichiometries")
        made = {norm(s_.targets[0]): norm(s_.value) for s_ in strip_docstring(rp.body) if isinstance(s_, ast.Assign) and isinstance(s_.targets[0], ast.Name)}
        got4 = {}
        for lp4 in [l for l in strip_docstring(rp.body) if isinstance(l, ast.For) and isinstance(l.target, ast.Name)]:
            si4 = SymInterp()
            o4 = si4.block(lp4.body, [si4.assign(lp4.target, si4.item(lp4.iter, 0, Sym()), Sym())])
            X = f"ITEM(0, {norm(lp4.iter)})"
            ends4 = list(o4.normal) + list(o4.continues)
            sts4 = [st.stores() for st in ends4]
            if len(ends4) == 1 and len(sts4[0]) == 1:
                tgt, val = sts4[0][0]
                d_ = tgt[: -len(f"[{X}]")] if tgt.endswith(f"[{X}]") else None
                if d_ is not None:
                    for op_, nm_ in (("-", "Sub"), ("+", "Add")):
                        if val == f"{d_}.get({X}, 0) {op_} 1" or (val == f"{d_}[{X}] {op_} 1" and made.get(d_) in ("defaultdict(int)", "collections.defaultdict(int)", "Counter()")):
                            got4[norm(lp4.iter)] = nm_
        want = {("new_stoichiometries[arg]", "Sub", "1", "new_substrates"), ("new_stoichiometries[arg]", "Add", "1", "new_products")}
        for w in sorted(want):
            cons = f"unit-{w[1]}-{w[3]}"
            if got4.get(w[3]) == w[1]:
                self.holds("L4", MOD, rp.name, cons, rp, f"each occurrence in {w[3]} changes the coefficient by {'-' if w[1] == 'Sub' else '+'}1")
            else:
                self.violated("L4", MOD, rp.name, cons, rp, f"occurrences in {w[3]} do not change the coefficient by exactly {'-' if w[1] == 'Sub' else '+'}1: {got4}",
                              witness="2 A -> B: the isotopomer reaction consumes one A instead of two")

        self.l8(mod)
        self.l6(mod)
        self.l7(mod)

    def l8(self, mod) -> None:
        """Initial amounts, from the path summaries of one iteration of the loop over the base model's initial conditions."""
        bm = mod.func("LabelMapper.build_model")
        q = "LabelMapper.build_model"
        from ..core import expand_locals, single_defs

        defs8 = {k_: v_ for k_, v_ in single_defs(bm, anywhere=True).items() if isinstance(v_, ast.Call) and norm(v_) == "self.model.get_initial_conditions()"}
        lp = [l for l in ast.walk(bm) if isinstance(l, ast.For) and norm(expand_locals(l.iter, defs8)) == "self.model.get_initial_conditions().items()"
              and isinstance(l.target, ast.Tuple) and len(l.target.elts) == 2]
        if not lp:
            self.undecided_ob("L8", MOD, q, "initial-amounts", bm, "loop over the base model's initial conditions not found")
            return
        k, v = norm(lp[0].target.elts[0]), norm(lp[0].target.elts[1])
        interp = SymInterp()
        out = interp.block(lp[0].body, [Sym()])
        paths = list(out.normal) + list(out.continues)
        ISOS = f"isotopomers.get({k})"
        plain_ok = lab_ok = True
        seen_plain = seen_default = False
        self.l6_keys: list[tuple[str, ast.AST]] = []
        self.l6_k = k
        for st in paths:
            stores = [e for e in st.events if e[0] == "store"]
            calls = [e[1] for e in st.events if e[0] == "call"]
            none_isos = any(c == f"{ISOS} is None" and p_ for c, p_ in st.conds) or any(c in (f"{k} in isotopomers", f"{ISOS} is not None") and not p_ for c, p_ in st.conds)
            if none_isos:
                seen_plain = True
                if [(e[1], e[2]) for e in stores] != [(f"variables[{k}]", v)] or calls:
                    plain_ok = False
                continue
            zeros = (f"zip({ISOS},it.repeat(0),strict=False)", f"dict.fromkeys({ISOS},0)", f"dict.fromkeys({ISOS},0.0)", f"zip({ISOS},it.repeat(0.0),strict=False)",
                     f"dict(zip({ISOS},it.repeat(0),strict=False))")
            news = {e[1]: e[2].replace(" ", "") for e in st.events if e[0] == "new"}
            order = [e for e in st.events if e[0] in ("call", "store")]
            staged = [n_ for n_, t_ in news.items() if t_ in zeros and f"variables.update({n_})" in calls]
            if staged:
                # staged: a fresh all-zero dict of the isotopomers receives the amount, then is merged into `variables`
                d_ = staged[0]
                vs = [e for e in stores if e[2] == v and e[1].startswith(f"{d_}[")]
                if len(vs) != 1 or len(stores) != 1 or order.index(vs[0]) > order.index(("call", f"variables.update({d_})")):
                    lab_ok = False
                    continue
                vs = [("store", "variables" + vs[0][1][len(d_):], v)]
            else:
                zero = any(c.replace(" ", "") in tuple(f"variables.update({z})" for z in zeros) for c in calls)
                vs = [e for e in stores if e[2] == v]
                if not zero or len(vs) != 1 or len(stores) != 1:
                    lab_ok = False
                    continue
                # the zeroing must come first
                if order.index(vs[0]) < min(i for i, e in enumerate(order) if e[0] == "call" and "variables.update(" in e[1]):
                    lab_ok = False
            no_request = any(c == f"initial_labels.get({k}) is None" and p_ for c, p_ in st.conds)
            if no_request:
                seen_default = True
                if vs[0][1] != f"variables[{ISOS}[0]]":
                    lab_ok = False
            else:
                self.l6_keys.append((vs[0][1], st))
        if lab_ok and seen_default:
            self.holds("L8", MOD, q, "one-isotopomer-carries-the-total", lp[0], "all isotopomers start at 0; without a request the unlabelled one (isos[0]) receives the whole amount")
        else:
            self.violated("L8", MOD, q, "one-isotopomer-carries-the-total", lp[0],
                          "the initial amount of a labelled compound is not placed on exactly one isotopomer (all others 0, unlabelled one by default)",
                          witness="the summed isotopomers of a compound do not start at the base model's initial value, or start fully labelled")
        if plain_ok and seen_plain:
            self.holds("L8", MOD, q, "unlabelled-compounds-keep-value", lp[0], "compounds without label positions keep their initial value")
        else:
            self.violated("L8", MOD, q, "unlabelled-compounds-keep-value", lp[0], "compounds without label positions do not keep their initial value")

    def l6(self, mod) -> None:
        bm = mod.func("LabelMapper.build_model")
        q = "LabelMapper.build_model"
        # requested label positions: the key of the store, as string parts, on every path that has a request
        keys = getattr(self, "l6_keys", [])
        if keys:
            good = 0
            for key_txt, st in keys:
                try:
                    key = ast.parse(key_txt, mode="eval").body
                except SyntaxError:
                    break
                parts = str_parts(key.slice) if isinstance(key, ast.Subscript) else None
                k = self.l6_k
                if not parts or len(parts) != 3 or parts[0] != k or parts[1] != "'__'":
                    break
                try:
                    j = ast.parse(parts[2], mode="eval").body
                except SyntaxError:
                    break
                g = j.args[0] if isinstance(j, ast.Call) and norm(j.func) == "''.join" and len(j.args) == 1 else None
                if not (isinstance(g, (ast.GeneratorExp, ast.ListComp)) and len(g.generators) == 1 and not g.generators[0].ifs
                        and norm(g.generators[0].iter) == f"range(self.label_variables[{k}])" and isinstance(g.elt, ast.IfExp)):
                    break
                idx = norm(g.generators[0].target)
                t = g.elt.test
                pos_ok = isinstance(t, ast.Compare) and len(t.ops) == 1 and isinstance(t.ops[0], ast.In) and norm(t.left) == idx \
                    and norm(t.comparators[0]) in (f"initial_labels.get({k})", f"[initial_labels.get({k})]")
                if pos_ok and norm(g.elt.body) == "'1'" and norm(g.elt.orelse) == "'0'":
                    good += 1
                else:
                    break
            if good == len(keys):
                node = [s_ for s_ in ast.walk(bm) if isinstance(s_, ast.IfExp) and norm(s_.body) == "'1'" and norm(s_.orelse) == "'0'"]
                self.holds("L6", MOD, q, "initial-label-position", node[0] if node else bm, "suffix built character by character: position i is the i-th character from the left")
                return
        stores = [s for s in ast.walk(bm) if isinstance(s, ast.Assign) and isinstance(s.targets[0], ast.Subscript) and norm(s.targets[0].value) == "variables"
                  and norm(s.value) == "v" and norm(s.targets[0].slice) not in ("k", "isos[0]", "isos[-1]")]
        if not stores:
            self.undecided_ob("L6", MOD, q, "initial-label-position", bm, "placement of the requested initial label not found")
            return
        st = stores[0]
        key = st.targets[0].slice
        expr = key
        # resolve one level of local definition (suffix = ...)
        for n in ast.walk(key):
            if isinstance(n, ast.Name):
                for a in ast.walk(bm):
                    if isinstance(a, ast.Assign) and norm(a.targets[0]) == n.id and a.lineno < st.lineno and n.id not in ("k", "v", "isos"):
                        expr = ast.Tuple(elts=[key, a.value], ctx=ast.Load())
        txt = norm(expr)
        shifts = [n for n in ast.walk(expr) if isinstance(n, ast.BinOp) and (isinstance(n.op, ast.LShift) or (isinstance(n.op, ast.Pow) and norm(n.left) == "2"))]
        positional = [g for g in ast.walk(expr) if isinstance(g, ast.GeneratorExp) and "range(self.label_variables[k])" in norm(g.generators[0].iter)
                      and isinstance(g.elt, ast.IfExp) and norm(g.elt.body) == "'1'" and norm(g.elt.orelse) == "'0'" and " in label_pos" in norm(g.elt.test)]
        if positional and not shifts:
            self.holds("L6", MOD, q, "initial-label-position", st, "suffix built character by character: position i is the i-th character from the left")
        elif shifts:
            mirrored_ok = any("- 1 -" in norm(n.right) or "-1-" in norm(n.right).replace(" ", "") for n in shifts)
            if mirrored_ok:
                self.holds("L6", MOD, q, "initial-label-position", st, f"`{txt[:70]}` uses bit significance n-1-i (leftmost position most significant)")
            else:
                self.violated("L6", MOD, q, "initial-label-position", st,
                              f"`{txt[:90]}` addresses the isotopomer by bit significance 2**i, but the patterns are enumerated with position 0 as the "
                              "LEFTMOST (most significant) character: the label is placed at the mirrored position n-1-i",
                              witness="label_variables {'A': 2}, initial_labels {'A': 0}: the amount goes to A__01 instead of A__10")
        else:
            self.undecided_ob("L6", MOD, q, "initial-label-position", st, f"placement expression `{txt[:80]}` not recognised")

    def l7(self, mod) -> None:
        fn = mod.func("_unpack_stoichiometries")
        loops = [l for l in strip_docstring(fn.body) if isinstance(l, ast.For)]
        if not loops:
            raise AnalysisError("_unpack_stoichiometries: loop not found")
        it_ = loops[0].iter
        p0 = fn.args.args[0].arg
        bad = [c for c in ast.walk(it_) if isinstance(c, ast.Call) and norm(c.func).split(".")[-1] in ("sorted", "set", "reversed", "frozenset")]
        if norm(it_) == f"{p0}.items()":
            self.holds("L7", MOD, fn.name, "declared-order", loops[0], f"iterates {p0}.items(): declaration order of the reaction's stoichiometry")
        elif bad:
            self.violated("L7", MOD, fn.name, "declared-order", loops[0],
                          f"`{norm(it_)}` reorders the stoichiometry: substrate/product positions no longer follow the declared order the atom map refers to",
                          witness="{'S': -1, 'A': -1, 'P': 1} with S:2, A:1, P:3 and the identity map: S__10 + A__0 gives P__010 instead of P__100")
        else:
            self.undecided_ob("L7", MOD, fn.name, "declared-order", loops[0], f"iteration source `{norm(it_)}` not recognised")
        caller = mod.func("_create_isotopomer_reactions")
        c = [x for x in ast.walk(caller) if isinstance(x, ast.Call) and norm(x.func) == "_unpack_stoichiometries"]
        if c and norm(c[0]) == "_unpack_stoichiometries(stoichiometries=stoichiometry)":
            self.holds("L7", MOD, caller.name, "stoichiometry-passed-as-declared", c[0], "the reaction's stoichiometry mapping is unpacked as given")
        else:
            self.violated("L7", MOD, caller.name, "stoichiometry-passed-as-declared", c[0] if c else caller, "the stoichiometry is transformed before unpacking")

    def must_fire(self):
        C = "_create_isotopomer_reactions"
        return [
            Variant("drop-short-map-raise", MOD, C,
                    "    if len(labelmap) - total_substrate_labels < 0:\n        msg = f\"Labelmap 'missing' {abs(len(labelmap) - total_substrate_labels)} label(s)\"\n        raise ValueError(msg)\n", "",
                    expect="L1|", quick=True),
            Variant("skip-multiply-labelled", MOD, C, "        rate_suffix += external_labels\n",
                    "        if rate_suffix.count('1') > 1:\n            continue\n        rate_suffix += external_labels\n", expect="L2|", quick=True),
            Variant("scatter-reader", MOD, "_map_substrates_to_products", "    return ''.join([rate_suffix[i] for i in labelmap])",
                    "    out = [''] * len(labelmap)\n    for src, dst in enumerate(labelmap):\n        out[dst] = rate_suffix[src]\n    return ''.join(out)", expect="L3|", quick=True),
            Variant("products-plus-two", MOD, "_repack_stoichiometries", "new_stoichiometries[arg] += 1", "new_stoichiometries[arg] += 2", expect="L4|", quick=True),
            Variant("substrates-set", MOD, "_repack_stoichiometries", "new_stoichiometries[arg] -= 1", "new_stoichiometries[arg] = -1", expect="L4|"),
            Variant("external-unlabelled", MOD, "_get_external_labels", "['1'] * n_external_labels", "['0'] * n_external_labels", expect="L5|"),
            Variant("patterns-of-products", MOD, C, "repeat=total_substrate_labels", "repeat=total_product_labels", expect="L2|"),
            Variant("name-without-pattern", MOD, C, "new_rate_name = rate_name + '__' + rate_suffix", "new_rate_name = rate_name + '__iso'", expect="L2|"),
            Variant("initial-label-by-bit", MOD, "LabelMapper.build_model",
                    "                suffix = '__' + ''.join(('1' if idx in label_pos else '0' for idx in range(self.label_variables[k])))\n                variables[f'{k}{suffix}'] = v",
                    "                variables[isos[sum((1 << idx for idx in set(label_pos)))]] = v", expect="L6|", quick=True),
            Variant("sorted-stoichiometry", MOD, "_unpack_stoichiometries", "for k, v in stoichiometries.items():", "for k, v in sorted(stoichiometries.items()):", expect="L7|", quick=True),
            Variant("windows-overlap", MOD, "_split_label_string", "cnt += labels_per_compound[i]", "cnt += 1", expect="L9|", quick=True),
            Variant("windows-length-of-first", MOD, "_split_label_string", "label[cnt:cnt + labels_per_compound[i]]", "label[cnt:cnt + labels_per_compound[0]]", expect="L9|"),
            Variant("default-to-fully-labelled", MOD, "LabelMapper.build_model", "variables[isos[0]] = v", "variables[isos[-1]] = v", expect="L8|"),
            Variant("map-before-external", MOD, C,
                    "        rate_suffix += external_labels\n        product_suffix = _map_substrates_to_products(rate_suffix=rate_suffix, labelmap=labelmap)",
                    "        product_suffix = _map_substrates_to_products(rate_suffix=rate_suffix, labelmap=labelmap)\n        rate_suffix += external_labels", expect="L5|"),
        ]

    def must_stay_silent(self):
        return [
            Variant("generator-reader", MOD, "_map_substrates_to_products", "''.join([rate_suffix[i] for i in labelmap])", "''.join((rate_suffix[pos] for pos in labelmap))", quick=True),
            Variant("guard-direct-form", MOD, "_create_isotopomer_reactions", "if len(labelmap) - total_substrate_labels < 0:", "if len(labelmap) < total_substrate_labels:"),
        ]


CHECK = C05
