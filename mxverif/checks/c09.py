"""C09 - scans: per-row isolation, order/index alignment, failure channel (DESIGN 4/C09)."""

from __future__ import annotations

import ast
import re as _re

from ..core import expand_locals, single_defs, AnalysisError, Check, Scope, dotted, norm, strip_docstring, walk_no_nested
from ..variants import Variant

SCAN = "scan.py"
MC = "mc.py"
PAR = "parallel.py"
MUTATORS = ("update_", "add_", "remove_", "scale_", "make_")


class C09(Check):
    pid = "C09"
    title = "Scans equal independent runs, row-aligned, under any scheduling"
    rules = {
        "P1": "per-row isolation: the row wrapper mutates its model argument and lets it escape in the (lazily evaluated) result, "
              "and the sequential path hands the same object to every row - so the wrapper must work on a private deep copy made "
              "before the first mutation (or force the lazy tables before returning)",
        "P1b": "every scan / Monte-Carlo entry routes each row through that wrapper: parallelise(partial(wrapper, fn=.., model=model), "
               "inputs=list(<table>.iterrows()))",
        "P2": "order and index alignment: results are consumed in input order on both execution paths (no sorted/set/as_completed) and "
              "result containers take their index/keys from the scan table in row order",
        "P3": "the parallel consumer appends exactly one result per input or fails; the only dropping path (TimeoutError) is unreachable "
              "because no scan API passes a timeout",
        "P5": "row start state: the worker bound for the rows receives y0=None - a row's initial values are applied to its model copy by the row wrapper, "
              "and a fixed y0 handed to the Simulator would replace them",
        "P6": "row application: the row wrapper writes the row's initial values (keys that are variables of the model) and parameter values (keys that are "
              "parameters) into the row's copy, exactly once each, and calls the worker on that copy",
        "P4": "failure channel: every worker returns through Result.default(<NaN Simulation of the right time points>)",
    }
    floors = {"P1": 1, "P1b": 9, "P2": 6, "P3": 2, "P4": 4, "P5": 8, "P6": 1}
    decided = [
        "no row's (lazily evaluated) fluxes/variables can see another row's parameter values in sequential mode",
        "results are positionally aligned with the scan table in both execution modes",
        "a failing row yields a NaN placeholder at its own position",
    ]
    undecided = ["equality with an independent simulation (numbers)", "shape of the NaN placeholder beyond its time points",
                 "pebble.ProcessPool.map returning results in submission order (trusted)"]
    assumptions = ["pebble.ProcessPool.map yields results in input order", "copy.deepcopy(model) yields an independent model"]

    def run(self) -> None:
        scan = self.prog.module(SCAN)
        mc = self.prog.module(MC)
        par = self.prog.module(PAR)
        # locate the wrapper by role
        wrappers: list[str] = []
        entries = []
        for rel, mod in ((SCAN, scan), (MC, mc)):
            for name, fn in mod.functions.items():
                if "." in name or name.startswith("_"):
                    continue
                for c in walk_no_nested(fn):
                    if isinstance(c, ast.Call) and dotted(c.func).split(".")[-1] == "parallelise":
                        first = c.args[0] if c.args else {k.arg: k.value for k in c.keywords}.get("fn")
                        entries.append((rel, name, fn, c, first))
                        if isinstance(first, ast.Call) and dotted(first.func) == "partial" and first.args and isinstance(first.args[0], ast.Name):
                            wrappers.append(first.args[0].id)
        if not wrappers:
            raise AnalysisError("row wrapper not found")
        from collections import Counter

        # the wrapper is the callable nearly all entries agree on; a deviating entry is a P1b finding
        wname, cnt = Counter(wrappers).most_common(1)[0]
        if cnt < 0.7 * len(entries) or wname not in scan.functions:
            raise AnalysisError(f"row wrapper not identifiable: {Counter(wrappers)}")
        w = scan.func(wname)
        self.analysed = {"row_wrapper": wname, "entries": [f"{r}:{n}" for r, n, *_ in entries]}
        self.p1(w)
        for rel, name, fn, c, first in entries:
            kw = {k.arg: norm(k.value) for k in c.keywords}
            fkw = {k.arg: norm(k.value) for k in first.keywords} if isinstance(first, ast.Call) else {}
            ok = isinstance(first, ast.Call) and norm(first.args[0]) == wname and fkw.get("model") == "model" and "fn" in fkw \
                and kw.get("inputs", "").startswith("list(") and kw.get("inputs", "").endswith(".iterrows())")
            if ok:
                self.holds("P1b", rel, name, "routes-through-wrapper", c, f"partial({wname}, fn=.., model=model) over {kw['inputs']}")
            else:
                self.violated("P1b", rel, name, "routes-through-wrapper", c,
                              "rows are not applied through the isolating row wrapper over the table's rows in order",
                              witness="rows are simulated with the caller's unmodified model / in another order")
            # P5: the start state of a row is the row's own (applied to the copy by the wrapper): the worker gets no fixed y0
            inner = {k.arg: k.value for k in first.keywords}.get("fn") if isinstance(first, ast.Call) else None
            if inner is not None:
                from ..core import expand_locals, single_defs

                inner = expand_locals(inner, single_defs(fn, anywhere=True), depth=3)
                y0s = []
                if isinstance(inner, ast.Call) and dotted(inner.func) == "partial":
                    y0s = [k.value for k in inner.keywords if k.arg == "y0"]
                elif isinstance(inner, ast.Lambda):
                    y0s = [k.value for x in ast.walk(inner.body) if isinstance(x, ast.Call) for k in x.keywords if k.arg == "y0"]
                if "y0" in [a.arg for a in fn.args.args + fn.args.kwonlyargs]:
                    applied = [x for x in walk_no_nested(fn) if isinstance(x, ast.Call) and norm(x) == "model.update_variables(y0)" and x.lineno < c.lineno]
                    guarded = [g for g in walk_no_nested(fn) if isinstance(g, ast.If) and norm(g.test) in ("y0 is not None", "y0") and any(any(z is a for z in ast.walk(g)) for a in applied)]
                    forwarded = bool(y0s) and norm(y0s[0]) == "y0"
                    if applied and (guarded or True):
                        self.holds("P5", rel, name, "start-state-applied", applied[0], "a start state given by the caller is written into the model before the rows are dispatched")
                    elif not forwarded:
                        self.violated("P5", rel, name, "start-state-applied", c, "the caller's y0 reaches neither the model nor the row worker: it is silently ignored",
                                      witness=f"{rel[:-3]}.{name}(model, ..., y0={{'x': 5.0}}) gives the results of the model's own initial values")
                if y0s:
                    v = y0s[0]
                    if isinstance(v, ast.Constant) and v.value is None:
                        self.holds("P5", rel, name, "row-start-state", v, "the worker is bound with y0=None: it starts from the row's model copy")
                    else:
                        self.violated("P5", rel, name, "row-start-state", v, f"the worker is bound with y0=`{norm(v)[:50]}`, one start state for all rows: the Simulator uses it instead of the "
                                      "initial values the row wrapper has just written into the row's model copy, and parameters computed from initial values never see it",
                                      witness="scan.steady_state(model, to_scan=DataFrame({'x': [1, 2, 3]}), y0={'y': 0.5}) simulates all three rows from the same x")
            if "timeout" in kw:
                self.violated("P3", rel, name, "timeout-drops-rows", c, "a timeout is passed to parallelise: a row that times out is silently dropped and later rows shift up")
        self.p6(w)
        self.p2(par, scan, mc, entries)
        self.p3(par)
        self.p4(scan)

    def p1(self, w) -> None:
        q = w.name
        params = [a.arg for a in w.args.args]
        mp = "model" if "model" in params else None
        if mp is None:
            raise AnalysisError(f"{q}: model parameter not found")
        body = strip_docstring(w.body)
        first_mut = None
        copy_at = None
        escapes = False
        for i, s in enumerate(body):
            for c in ast.walk(s):
                if isinstance(c, ast.Call) and isinstance(c.func, ast.Attribute) and norm(c.func.value) == mp and c.func.attr.startswith(MUTATORS):
                    first_mut = i if first_mut is None else first_mut
                if isinstance(c, ast.Call) and any(norm(a) == mp for a in c.args) and not (isinstance(c.func, ast.Attribute) and norm(c.func.value) == mp) \
                        and dotted(c.func).split(".")[-1] not in ("deepcopy", "copy"):
                    escapes = True
            if isinstance(s, ast.Assign) and norm(s.targets[0]) == mp and isinstance(s.value, ast.Call) \
                    and dotted(s.value.func) in ("copy.deepcopy", "deepcopy") and norm(s.value.args[0]) == mp and copy_at is None:
                copy_at = i
        if first_mut is None:
            self.holds("P1", SCAN, q, "row-isolation", w, "the wrapper does not mutate its model argument")
        elif copy_at is not None and copy_at < first_mut:
            self.holds("P1", SCAN, q, "row-isolation", body[copy_at], f"`{norm(body[copy_at])}` precedes the first mutation: each row works on a private copy")
        elif not escapes:
            self.holds("P1", SCAN, q, "row-isolation", w, "the mutated model does not escape into the result")
        else:
            self.violated(
                "P1", SCAN, q, "row-isolation", body[first_mut],
                f"`{norm(body[first_mut])[:70]}` mutates the shared model in place and the model escapes into the returned, lazily "
                "evaluated result; in sequential mode all rows share one object, so row i's fluxes/derived values are computed "
                "from row n's model when they are first read",
                witness="parameter k = InitialAssignment(fn(x)); scan.steady_state(m, to_scan x in {1,2,3}, parallel=False).fluxes "
                        "shows the k of the last row in every row, parallel=True shows 1,2,3",
            )

    def p2(self, par, scan, mc, entries) -> None:
        fn = par.func("parallelise")
        seq = [n for n in ast.walk(fn) if isinstance(n, ast.Call) and norm(n.func) == "map" and len(n.args) == 2]
        bad = [n for n in ast.walk(fn) if isinstance(n, ast.Call) and dotted(n.func).split(".")[-1] in ("sorted", "set", "as_completed", "imap_unordered", "reversed", "shuffle")]
        if seq and norm(seq[0].args[1]) == "inputs" and not bad:
            self.holds("P2", PAR, "parallelise", "sequential-order", seq[0], "list(map(worker, inputs)): input order")
        else:
            self.violated("P2", PAR, "parallelise", "sequential-order", bad[0] if bad else fn, "sequential results are not produced in input order")
        pm = [n for n in ast.walk(fn) if isinstance(n, ast.Call) and dotted(n.func).endswith(".map") and len(n.args) >= 2 and norm(n.func) != "map"]
        cons = self.consumer(par, fn)
        # what the pool maps over must be the inputs themselves; a strided (round-robin) split of them reorders the results
        strided = None
        if pm and norm(pm[0].args[1]) != "inputs":
            defs9 = single_defs(fn, anywhere=True)
            src9 = expand_locals(pm[0].args[1], defs9)
            helpers9 = [par.functions[c_.func.id] for c_ in ast.walk(src9) if isinstance(c_, ast.Call) and isinstance(c_.func, ast.Name) and c_.func.id in par.functions]
            for root9 in [src9] + helpers9:
                for n9 in ast.walk(root9):
                    if isinstance(n9, ast.Subscript) and isinstance(n9.slice, ast.Slice) and n9.slice.step is not None:
                        strided = n9
        if strided is not None:
            self.violated("P2", PAR, "parallelise", "parallel-order", pm[0],
                          f"the pool maps over `{norm(pm[0].args[1])}`, built with the strided slice `{norm(strided)}` (round-robin batches): concatenating the batch results "
                          "does not restore input order as soon as there are more inputs than batches",
                          witness="7 scan rows on 2 workers: results come back as rows 0,2,4,6,1,3,5 and are attached to the wrong rows")
        elif cons is None:
            self.undecided_ob("P2", PAR, "parallelise", "parallel-order", fn, "parallel consumer loop not recognised")
        else:
            owner, loop, tr, nxt, apps, lst = cons
            bad2 = [n for n in ast.walk(owner) if isinstance(n, ast.Call) and dotted(n.func).split(".")[-1] in ("sorted", "set", "as_completed", "imap_unordered", "reversed", "shuffle", "insert")]
            same = bool(apps) and nxt is not None and self._is_next_value(apps[0].args[0], nxt)
            if pm and norm(pm[0].args[1]) == "inputs" and same and not bad and not bad2:
                self.holds("P2", PAR, "parallelise", "parallel-order", pm[0], "pool.map(worker, inputs) consumed with next(it) and appended in arrival (= input) order")
            else:
                self.violated("P2", PAR, "parallelise", "parallel-order", fn, "parallel results are not appended in input order")
        rets = [r for r in walk_no_nested(fn) if isinstance(r, ast.Return) and r.value is not None]
        rebound = [n for n in walk_no_nested(fn) if isinstance(n, (ast.Assign, ast.AugAssign)) and "inputs" in [norm(t) for t in (n.targets if isinstance(n, ast.Assign) else [n.target])]]
        def plain_result(r) -> bool:
            t_ = norm(r.value)
            if t_ == "results":
                return True
            # the sequential form returned directly: list([tqdm(]map(worker, inputs)[, ..)])
            v_ = r.value
            if isinstance(v_, ast.Call) and norm(v_.func) == "list" and len(v_.args) == 1:
                inner_ = v_.args[0]
                if isinstance(inner_, ast.Call) and norm(inner_.func) == "tqdm" and inner_.args:
                    inner_ = inner_.args[0]
                return isinstance(inner_, ast.Call) and norm(inner_.func) == "map" and len(inner_.args) == 2 and norm(inner_.args[1]) == "inputs"
            return False

        if rets and all(plain_result(r) for r in rets) and not rebound:
            self.holds("P2", PAR, "parallelise", "returns-consumption-list", rets[-1], "every return hands back `results` itself; `inputs` is never filtered or rebound")
        else:
            bad = rebound[0] if rebound else [r for r in rets if not plain_result(r)][0]
            self.violated("P2", PAR, "parallelise", "returns-consumption-list", bad,
                          f"`{norm(bad)[:70]}`: the returned list is no longer exactly the per-input results in input order (inputs filtered / lists concatenated)",
                          witness="a scan re-run on a partially filled cache (keys 2 and 4 of 1..4 cached): values are attached to the wrong scan rows")
        # containers
        for rel, name, f, c, first in entries:
            rets = [r for r in walk_no_nested(f) if isinstance(r, ast.Return) and r.value is not None]
            if not rets:
                continue
            t = norm(rets[-1].value)
            res_name = None
            for s in walk_no_nested(f):
                if isinstance(s, ast.Assign) and s.value is c:
                    res_name = norm(s.targets[0])
            if res_name is None:
                continue
            uses = [u for u in (f"[i[1] for i in {res_name}]", f"dict({res_name})", f"for k, v in {res_name}") if u in t]
            if any(x in t for x in (f"sorted({res_name}", f"set({res_name}", f"reversed({res_name}", f"{res_name}[::-1]")):
                self.violated("P2", rel, name, "container-in-row-order", rets[-1], "the result container reorders the rows")
            elif uses:
                self.holds("P2", rel, name, "container-in-row-order", rets[-1], f"container built as {uses[0]} (row order); index/keys from the scan table")
            else:
                self.info("P2", rel, name, "container-in-row-order", rets[-1], "result assembly not in a recognised form")

    @staticmethod
    def _is_next_value(arg: ast.AST, nxt: ast.AST) -> bool:
        """arg (what is appended) is exactly the value bound from next(it) (a name, or the same tuple of names)."""
        def flat(t):
            return [norm(e) for e in t.elts] if isinstance(t, ast.Tuple) else [norm(t)]
        return flat(arg) == flat(nxt)

    def consumer(self, par, fn):
        """Locate the loop that consumes the pool.map iterator: in fn itself or in a same-module helper fn hands the iterator to."""
        owners = [fn]
        for c in ast.walk(fn):
            if isinstance(c, ast.Call) and isinstance(c.func, ast.Name) and c.func.id in par.functions and c.func.id != fn.name \
                    and any("result" in norm(a) or norm(a) in ("future", "it") for a in c.args):
                owners.append(par.functions[c.func.id])
        for owner in owners:
            for loop in [n for n in ast.walk(owner) if isinstance(n, ast.While)]:
                tr = [n for n in loop.body if isinstance(n, ast.Try)]
                if not tr:
                    continue
                nxt = None
                for a in ast.walk(ast.Module(body=tr[0].body, type_ignores=[])):
                    if isinstance(a, ast.Assign) and isinstance(a.value, ast.Call) and norm(a.value.func) == "next":
                        nxt = a.targets[0]
                if nxt is None:
                    continue
                region = ast.Module(body=tr[0].body + tr[0].orelse, type_ignores=[])
                apps = [n for n in ast.walk(region) if isinstance(n, ast.Call) and isinstance(n.func, ast.Attribute) and n.func.attr == "append" and len(n.args) == 1]
                lst = norm(apps[0].func.value) if apps else None
                if owner is not fn:
                    rets = [r for r in walk_no_nested(owner) if isinstance(r, ast.Return) and r.value is not None]
                    if not (rets and all(norm(r.value) == lst for r in rets)):
                        continue
                elif lst not in (None, "results"):
                    continue
                return owner, loop, tr[0], nxt, apps, lst
        return None

    def p3(self, par) -> None:
        for name in ("parallelise", "parallelise_keyless"):
            fn = par.func(name)
            cons = self.consumer(par, fn)
            if cons is None:
                self.undecided_ob("P3", PAR, name, "one-result-per-input", fn, "parallel consumer loop not recognised")
                continue
            owner, loop, tr, nxt, apps, lst = cons
            stop = [h for h in tr.handlers if norm(h.type) == "StopIteration" and any(isinstance(x, ast.Break) for x in h.body)]
            drops = [h for h in tr.handlers if norm(h.type) != "StopIteration" and not any(isinstance(x, (ast.Raise, ast.Break)) for x in ast.walk(h))
                     and not any(isinstance(x, ast.Call) and isinstance(x.func, ast.Attribute) and x.func.attr == "append" for x in ast.walk(h))]
            guarded = [a for a in apps if any(isinstance(g, (ast.If, ast.For, ast.While)) and any(x is a for x in ast.walk(g)) for st in tr.body + tr.orelse for g in ast.walk(st))]
            if len(apps) == 1 and stop and not guarded and self._is_next_value(apps[0].args[0], nxt):
                self.holds("P3", PAR, name, "one-result-per-input", apps[0], "each next(it) appends exactly one result; the loop ends on StopIteration only")
            else:
                self.violated("P3", PAR, name, "one-result-per-input", loop, "the consumer loop does not append exactly one result per input")
            for h in drops:
                self.info("P3", PAR, name, f"drop-on-{norm(h.type)}", h,
                          f"`except {norm(h.type)}` continues without appending: a row would be dropped and later rows shift - reachable only with a timeout, which no scan entry passes (checked under P1b)")

    def p4(self, scan) -> None:
        ws = [f for n, f in scan.functions.items() if n.endswith("_worker") and "." not in n]
        if len(ws) < 4:
            raise AnalysisError("scan workers not recognised")
        for f in ws:
            from ..core import expand_locals, single_defs

            rets = [r for r in walk_no_nested(f) if isinstance(r, ast.Return)]
            params = [a.arg for a in f.args.args + f.args.kwonlyargs]
            defs = {k: v for k, v in single_defs(f, anywhere=True).items() if isinstance(v, (ast.Lambda, ast.Call)) and k not in params}
            ok = bool(rets)
            tp = ""
            for r in rets:
                v = r.value
                # <result>.default(<thunk>) with thunk = lambda: Simulation.default(..) or partial(Simulation.default, ..)
                if not (isinstance(v, ast.Call) and isinstance(v.func, ast.Attribute) and v.func.attr == "default" and len(v.args) == 1 and not v.keywords):
                    ok = False
                    break
                th = v.args[0]
                if isinstance(th, ast.Name) and isinstance(defs.get(th.id), (ast.Lambda, ast.Call)):
                    th = defs[th.id]
                callee = kws = None
                if isinstance(th, ast.Lambda) and isinstance(th.body, ast.Call) and not th.body.args:
                    callee, kws = norm(th.body.func), {k.arg: norm(expand_locals(k.value, {})) for k in th.body.keywords}
                elif isinstance(th, ast.Call) and norm(th.func).split(".")[-1] == "partial" and len(th.args) == 1:
                    callee, kws = norm(th.args[0]), {k.arg: norm(k.value) for k in th.keywords}
                if callee != "Simulation.default" or kws is None or kws.get("model") != "model" or "time_points" not in kws:
                    ok = False
                    break
                tp = kws["time_points"]
            tp_ok = tp in params or tp.startswith("np.array([0.0]") or any(isinstance(s, ast.Assign) and norm(s.targets[0]) == tp for s in f.body)
            if ok and "protocol" in params:
                self.p4_grid(f, tp, params)
            if ok and tp_ok:
                self.holds("P4", SCAN, f.name, "nan-default", rets[0], f"every exit is res.default(NaN Simulation over {tp})")
            else:
                self.violated("P4", SCAN, f.name, "nan-default", rets[0] if rets else f,
                              "the worker can return / raise without the NaN placeholder: a failing row aborts the scan or shifts positions",
                              witness="one row whose integration fails makes scan.* raise instead of yielding NaN at that row")

    def p6(self, w) -> None:
        """The row wrapper writes the row's values into the copy: its initial values and its parameters, each selected by membership in
        the model's own container, before the worker is called on that copy."""
        from ..interp import Sym, SymInterp

        q = w.name
        params = [a.arg for a in w.args.args + w.args.kwonlyargs]
        row = params[0]
        VARS = ("model._variables", "model.get_variable_names()", "model.get_raw_variables()", "model.get_initial_conditions()", "set(model._variables)", "set(model.get_variable_names())")
        PARS = ("model._parameters", "model.get_parameter_names()", "model.get_raw_parameters()", "model.get_parameter_values()", "set(model._parameters)", "set(model.get_parameter_names())")
        paths = [st for st, _ in SymInterp().run_function(w, Sym()).returns]
        if not paths:
            raise AnalysisError(f"{q}: no returning path")

        def selection(txt, containers):
            """`model.update_x({k: v for k, v in ROW.items() if k in <container>})` -> True / False / None (not recognised)."""
            try:
                c = ast.parse(txt, mode="eval").body
            except SyntaxError:
                return None
            if not (isinstance(c, ast.Call) and c.args):
                return None
            a = c.args[0]
            if isinstance(a, ast.DictComp) and len(a.generators) == 1:
                g = a.generators[0]
                if row not in norm(g.iter) or not isinstance(g.target, ast.Tuple) or len(g.target.elts) != 2:
                    return None
                k_, v_ = (norm(x) for x in g.target.elts)
                if norm(a.key) != k_ or norm(a.value) != v_ or len(g.ifs) != 1:
                    return False
                t_ = g.ifs[0]
                return isinstance(t_, ast.Compare) and len(t_.ops) == 1 and isinstance(t_.ops[0], ast.In) and norm(t_.left) == k_ and norm(t_.comparators[0]) in containers
            return None

        probs = []
        unknown = False

        def unalias(t):
            # a copy bound to another name (`row_model = copy.deepcopy(model)`) is substituted by its creation expression: read it as the model
            return t.replace("copy.deepcopy(model)", "model").replace("deepcopy(model)", "model") if isinstance(t, str) else t

        from ..interp import Sym as _Sym

        paths = [_Sym(st.env, tuple((unalias(c), v) for c, v in st.conds), tuple(tuple(unalias(x) for x in e) for e in st.events)) for st in paths]

        def staged_selection(st, txt, containers):
            """`model.update_x(D)` with D a dict filled in a loop over the row: every store is `D[key] = value` of the row under the test
            `key in <container>`, and a key that passes the test is stored."""
            m_ = _re.match(r"^model\.update_\w+\((\w+)\)$", txt)
            if not m_:
                return None
            d_ = m_.group(1)
            if not any(e[0] == "new" and e[1] == d_ and e[2] in ("{}", "dict()") for e in st.events):
                return None
            stores = [e for e in st.events if e[0] == "store" and e[1].startswith(f"{d_}[")]
            member = {c: v for c, v in st.conds if any(c.endswith(f" in {cont}") for cont in containers)}
            for e in stores:
                key = e[1][len(d_) + 1:-1]
                if not (key.startswith("KEY(") and row in key and e[2] == key.replace("KEY(", "VALUE(", 1)):
                    return False
                if not any(c.startswith(key + " in ") and v for c, v in member.items()):
                    return False
            for c, v in member.items():
                if v and not any(c.startswith(e[1][len(d_) + 1:-1] + " in ") for e in stores):
                    return False
            return True

        for st in paths:
            calls = [e[1] for e in st.events if e[0] == "call"]
            ret = [e[1] for e in st.events if e[0] == "return"]
            uv = [c for c in calls if c.startswith("model.update_variables(")]
            up = [c for c in calls if c.startswith("model.update_parameters(")]
            if not ret or "fn(model" not in ret[-1]:
                probs.append("the worker is not called on the row's model copy")
            for lst, cont, what in ((uv, VARS, "initial values"), (up, PARS, "parameter values")):
                if len(lst) != 1:
                    probs.append(f"the row's {what} are written {len(lst)} times")
                    continue
                sel = selection(lst[0], cont)
                if sel is None:
                    sel = staged_selection(st, lst[0], cont)
                if sel is None:
                    unknown = True
                elif sel is False:
                    probs.append(f"`{lst[0][:80]}` does not select the row's {what} by membership in the model's own container")
        anchor = next((c for c in ast.walk(w) if isinstance(c, ast.Call) and norm(c.func) == "model.update_variables"), w)
        if probs:
            self.violated("P6", SCAN, q, "row-values-applied", anchor, sorted(set(probs))[0],
                          witness="scan.steady_state(m, to_scan=DataFrame({'x': [1, 2]})) for a variable x: both rows start from the model's own x")
        elif unknown:
            self.undecided_ob("P6", SCAN, q, "row-values-applied", anchor, "the way the row's values are selected and written was not recognised")
        else:
            self.holds("P6", SCAN, q, "row-values-applied", anchor, "initial values and parameters of the row are written into the copy exactly once each, then fn(model)")

    def p4_grid(self, f, tp: str, params) -> None:
        """Protocol workers: the placeholder's time grid has the extent of a successful run."""
        from ..core import expand_locals, single_defs
        from ..lengths import Lengths

        defs = single_defs(f, anywhere=True)
        expr = defs.get(tp) if tp in defs else (ast.parse(tp, mode="eval").body if tp not in params else None)
        cons = "placeholder-grid"
        if "time_points_per_step" in params:
            # simulate_protocol: every step contributes `time_points_per_step` rows (the duplicated boundary row is dropped for
            # continuing calls, C04 T3) and the first one its start row: n * s + 1 rows
            import sympy

            n, s_ = sympy.symbols("n s", positive=True, integer=True)
            if expr is None:
                self.violated("P4", SCAN, f.name, cons, f, f"the placeholder uses the caller's `{tp}` as its time grid, a successful protocol run has len(protocol) * time_points_per_step + 1 rows")
                return
            try:
                got = Lengths({"protocol": n, "protocol.index": n}, {"time_points_per_step": s_, "len(protocol)": n}, {k: v for k, v in defs.items() if k not in params}).length(expr)
            except AnalysisError as e:
                self.undecided_ob("P4", SCAN, f.name, cons, expr, f"number of placeholder time points not derivable: {e}")
                return
            if sympy.simplify(got - (n * s_ + 1)) == 0:
                self.holds("P4", SCAN, f.name, cons, expr, "the placeholder has len(protocol) * time_points_per_step + 1 time points, like a successful run")
            else:
                self.violated("P4", SCAN, f.name, cons, expr, f"the placeholder has {got} time points (n = len(protocol), s = time_points_per_step), a successful run has n*s + 1: "
                              "the NaN row does not line up with the other rows of the scan",
                              witness="findings/C09-protocol-placeholder-shape.py: 9 time points for the successful row, 8 (other values) for the failed one")
        else:
            # simulate_protocol_time_course returns the start, the requested points inside the protocol and the step boundaries:
            # a placeholder grid that does not depend on the protocol cannot contain the boundaries
            full = expand_locals(expr, {k: v for k, v in defs.items() if k not in params}, depth=5) if expr is not None else None
            names = {x.id for x in ast.walk(full) if isinstance(x, ast.Name)} if full is not None else {tp}
            if "protocol" in names and "time_points" in names:
                self.holds("P4", SCAN, f.name, cons, expr or f, "the placeholder grid is computed from the requested points and the protocol's step ends")
            else:
                self.violated("P4", SCAN, f.name, cons, expr or f, f"the placeholder grid `{tp}` does not depend on {sorted({'protocol', 'time_points'} - names)}: a successful run also returns the start "
                              "and every step boundary, so the NaN row has other time points than the rows next to it",
                              witness="protocol [(1, ..), (2, ..)], time_points [0.5, 1.5, 2.5]: successful row at [0, 0.5, 1, 1.5, 2.5, 3], failed row at [0.5, 1.5, 2.5]")

    def must_fire(self):
        W = "_update_parameters_and_initial_conditions"
        return [
            Variant("fixed-y0-handed-to-row-worker", SCAN, "steady_state", "integrator=integrator, y0=None)", "integrator=integrator, y0=y0)", expect="P5|", quick=True),
            Variant("reintroduce-shared-model", SCAN, W, "    model = copy.deepcopy(model)\n", "", expect="P1|scan.py|_update_parameters_and_initial_conditions|row-isolation", quick=True),
            Variant("copy-after-mutation", SCAN, W, "    model = copy.deepcopy(model)\n    pd = pars.to_dict()\n", "    pd = pars.to_dict()\n", expect="P1|"),
            Variant("scan-bypasses-wrapper", SCAN, "time_course", "partial(_update_parameters_and_initial_conditions, fn=partial(worker, time_points=time_points, integrator=integrator, y0=None), model=model)",
                    "partial(worker, time_points=time_points, integrator=integrator, y0=None)", expect="P1b|", quick=True),
            Variant("sorted-results", SCAN, "steady_state", "raw_results=[i[1] for i in res]", "raw_results=[i[1] for i in sorted(res, key=str)]", expect="P2|", quick=True),
            Variant("worker-unwraps", SCAN, "_time_course_worker", "return res.default(lambda: Simulation.default(model=model, time_points=time_points))", "return res.unwrap_or_err()", expect="P4|", quick=True),
            Variant("cache-hits-served-first", PAR, "parallelise", "    return results", "    return [r for r in results if r[0] is not None] + [r for r in results if r[0] is None]", expect="P2|", quick=True),
            Variant("inputs-filtered", PAR, "parallelise", "    worker = partial(_load_or_run, fn=fn, cache=cache)", "    inputs = [i for i in inputs if i[0] is not None]\n    worker = partial(_load_or_run, fn=fn, cache=cache)", expect="P2|"),
            Variant("parallel-sorted", PAR, "parallelise", "results.append((key, value))", "results.append((key, value))\n                    results = sorted(results, key=str)", expect="P2|"),
            Variant("scan-passes-timeout", SCAN, "protocol", "cache=cache, parallel=parallel)", "cache=cache, parallel=parallel, timeout=10.0)", expect="P3|"),
        ]

    def must_stay_silent(self):
        return [
            Variant("row-worker-staged", SCAN, "steady_state", "res = parallelise(partial(_update_parameters_and_initial_conditions, fn=partial(worker, rel_norm=rel_norm, integrator=integrator, y0=None), model=model),",
                    "row_fn = partial(worker, rel_norm=rel_norm, integrator=integrator, y0=None)\n    res = parallelise(partial(_update_parameters_and_initial_conditions, fn=row_fn, model=model),", quick=True),
            Variant("deepcopy-import-form", SCAN, "_update_parameters_and_initial_conditions", "model = copy.deepcopy(model)", "model = deepcopy(model)", quick=True),
        ]


CHECK = C09
