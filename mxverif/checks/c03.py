"""C03 - edit histories: cache invalidation, atomic rejection, one name space (DESIGN 4/C03, A.1).

Abstract machine over every public method of `Model` that writes model content, with calls to
other `Model` methods inlined (decorators are interpreted from their own bodies).
"""

from __future__ import annotations

import ast
from dataclasses import dataclass, replace

from ..core import (
    AnalysisError,
    Check,
    dotted,
    is_self_attr,
    norm,
    walk_no_nested,
)
from ..interp import PathInterp
from ..variants import Variant

MOD = "model.py"
CLS = "Model"
IDS = "_ids"
CONTENT: set[str] = set()  # filled by Machine from the fields the cache builder reads

DICT_MUTATORS = {"pop", "update", "setdefault", "clear", "popitem"}
LIST_MUTATORS = {"append", "extend", "insert", "remove", "sort", "reverse", "clear", "pop"}
SET_MUTATORS = {"add", "discard", "update", "remove", "clear", "pop"}
MUTATING = DICT_MUTATORS | LIST_MUTATORS | SET_MUTATORS


@dataclass(frozen=True)
class St:
    facts: frozenset = frozenset()  # (key, container, present: bool)
    cache: str = "MAYBE"
    content: str = "CLEAN"
    wrote_now: bool = False
    wrote_prev: bool = False
    loop_base: tuple = ()
    aliases: frozenset = frozenset()  # (local name, container it aliases into)
    outputs_dirty: bool = False
    last_write: str = ""
    nwrites: int = 0

    # -- facts
    def has(self, key, cont, present) -> bool:
        return (key, cont, present) in self.facts

    def entails_present(self, key, cont) -> bool:
        if self.has(key, cont, True):
            return True
        return False

    def entails_absent(self, key, cont) -> bool:
        return self.has(key, cont, False)

    def with_fact(self, key, cont, present) -> "St":
        f = {x for x in self.facts if not (x[0] == key and x[1] == cont)}
        f.add((key, cont, present))
        meta = cont.startswith(("removed:", "inserted:", "is:"))
        if not meta and not self.has(key, "is:dirty", True):
            # The class invariant (keys(content) <= keys(_ids), 'time' never registered) holds at method
            # entry; it may be used for `key` as long as this method has not yet written under `key`.
            if present and cont != IDS:
                f = {x for x in f if not (x[0] == key and x[1] == IDS)}
                f.add((key, IDS, True))
                f.add((key, "is:time", False))
            if present and cont == IDS:
                f.add((key, "is:time", False))
            if not present and cont == IDS:
                for c in sorted(CONTENT):
                    f = {x for x in f if not (x[0] == key and x[1] == c)}
                    f.add((key, c, False))
        return replace(self, facts=frozenset(f))

    def dirty(self, key) -> "St":
        return replace(self, facts=self.facts | {(key, "is:dirty", True)})

    def drop_names(self, names: set[str]) -> "St":
        def mentions(k: str) -> bool:
            try:
                return bool({n.id for n in ast.walk(ast.parse(k, mode="eval")) if isinstance(n, ast.Name)} & names)
            except SyntaxError:
                return False

        return replace(
            self,
            facts=frozenset(x for x in self.facts if not mentions(x[0])),
            aliases=frozenset(a for a in self.aliases if a[0] not in names),
        )

    def alias_of(self, name: str) -> str | None:
        for n, c in self.aliases:
            if n == name:
                return c
        return None

    def with_alias(self, name: str, cont: str | None) -> "St":
        al = {a for a in self.aliases if a[0] != name}
        if cont is not None:
            al.add((name, cont))
        return replace(self, aliases=frozenset(al))

    def write(self, what: str) -> "St":
        return replace(
            self,
            wrote_now=True,
            content="STALE" if self.cache == "MAYBE" else self.content,
            last_write=what,
            nwrites=min(self.nwrites + 1, 50),
        )


class MutatorInterp(PathInterp):
    """Interprets one frame; `machine` holds what is shared between frames."""

    loop_unroll = 2

    def __init__(self, machine: "Machine", fn: ast.FunctionDef, env: dict[str, str], depth: int,
                 public_entry_wrote: bool | None, wrapped: ast.FunctionDef | None = None,
                 wrapped_param: str | None = None) -> None:
        self.m = machine
        self.fn = fn
        self.env = env
        self.depth = depth
        self.public_entry_wrote = public_entry_wrote
        self.wrapped = wrapped
        self.wrapped_param = wrapped_param

    # ---- key / container helpers
    def key(self, e: ast.expr) -> str:
        if isinstance(e, ast.Name) and e.id in self.env:
            return self.env[e.id]
        return norm(e)

    def self_container(self, e: ast.AST) -> str | None:
        """`self.<C>` (possibly wrapped in cast(..)) -> C for tracked containers."""
        if isinstance(e, ast.Call) and dotted(e.func) in ("cast", "typing.cast") and len(e.args) == 2:
            e = e.args[1]
        if is_self_attr(e) and e.attr in self.m.tracked:
            return e.attr
        return None

    def content_base(self, e: ast.AST, st: St) -> str | None:
        """Container that expression `e` reaches into (alias / self.C[..] / attribute chains)."""
        while True:
            if isinstance(e, ast.Call) and dotted(e.func) in ("cast", "typing.cast") and len(e.args) == 2:
                e = e.args[1]
                continue
            if isinstance(e, (ast.Attribute, ast.Subscript)):
                c = self.self_container(e)
                if c is not None:
                    return c
                e = e.value
                continue
            if isinstance(e, ast.Call) and isinstance(e.func, ast.Attribute) and e.func.attr in (
                "get", "values", "items", "keys", "pop", "setdefault"):
                e = e.func.value
                continue
            break
        if isinstance(e, ast.Name):
            return st.alias_of(e.id)
        return None

    # ---- rejection bookkeeping
    def reject(self, st: St, node: ast.AST, what: str, exc: str | None):
        self.m.rejection(self, st, node, what)
        return ("raise", st, exc)

    # ---- expression walk: yields list of states after evaluating `e`; records raises in `raises`
    def eval(self, e: ast.AST | None, states: list[St], raises: list, conditional: bool = False) -> list[St]:
        if e is None or not states:
            return states
        # conditional sub-expressions
        if isinstance(e, ast.IfExp):
            states = self.eval(e.test, states, raises, conditional)
            a = self.eval(e.body, states, raises, True)
            b = self.eval(e.orelse, states, raises, True)
            return list(dict.fromkeys(a + b))
        if isinstance(e, ast.BoolOp):
            states = self.eval(e.values[0], states, raises, conditional)
            for v in e.values[1:]:
                states = list(dict.fromkeys(states + self.eval(v, states, raises, True)))
            return states
        if isinstance(e, (ast.ListComp, ast.SetComp, ast.DictComp, ast.GeneratorExp)):
            for g in e.generators:
                states = self.eval(g.iter, states, raises, conditional)
            # element expressions: conditional (0..n evaluations); loop names are local
            inner = [g.target for g in e.generators]
            tn = {n.id for t in inner for n in ast.walk(t) if isinstance(n, ast.Name)}
            elts = [e.key, e.value] if isinstance(e, ast.DictComp) else [e.elt]
            for g in e.generators:
                elts.extend(g.ifs)
            sub = [s.drop_names(tn) for s in states]
            for x in elts:
                sub = self.eval(x, sub, raises, True)
            return list(dict.fromkeys(states + [s.drop_names(tn) for s in sub]))
        if isinstance(e, ast.Lambda):
            return states
        if isinstance(e, ast.NamedExpr):
            states = self.eval(e.value, states, raises, conditional)
            if isinstance(e.target, ast.Name):
                out = []
                for s in states:
                    out.append(s.drop_names({e.target.id}).with_alias(e.target.id, self.content_base(e.value, s)))
                return out
            return states
        if isinstance(e, ast.Subscript) and isinstance(e.ctx, ast.Load):
            states = self.eval(e.value, states, raises, conditional)
            states = self.eval(e.slice, states, raises, conditional)
            c = self.self_container(e.value)
            if c is not None:
                k = self.key(e.slice)
                out = []
                for s in states:
                    if s.entails_present(k, c):
                        out.append(s)
                        continue
                    raises.append(self.reject(s, e, f"load:{c}", "KeyError"))
                    if s.entails_absent(k, c):
                        continue  # certainly raises
                    out.append(s if conditional else s.with_fact(k, c, True))
                return out
            return states
        if isinstance(e, ast.Call):
            return self.eval_call(e, states, raises, conditional)
        for child in ast.iter_child_nodes(e):
            if isinstance(child, ast.expr):
                states = self.eval(child, states, raises, conditional)
            elif isinstance(child, ast.keyword):
                states = self.eval(child.value, states, raises, conditional)
        return states

    def eval_call(self, e: ast.Call, states: list[St], raises: list, conditional: bool) -> list[St]:
        f = e.func
        # the wrapped method inside a decorator's wrapper
        if isinstance(f, ast.Name) and self.wrapped_param is not None and f.id == self.wrapped_param:
            out = []
            for s in states:
                o = self.m.run_plain(self.wrapped, s, self.env, self.depth, self.public_entry_wrote)
                out.extend(x for x, _ in o.returns)
                raises.extend(("raise", x, exc) for x, _, exc in o.raises)
            return list(dict.fromkeys(out))
        # arguments first
        if isinstance(f, ast.Attribute):
            states = self.eval(f.value, states, raises, conditional)
        for a in e.args:
            states = self.eval(a.value if isinstance(a, ast.Starred) else a, states, raises, conditional)
        for kw in e.keywords:
            states = self.eval(kw.value, states, raises, conditional)
        if not isinstance(f, ast.Attribute):
            return states
        # self.<method>(...)
        if isinstance(f.value, ast.Name) and f.value.id == "self" and f.attr in self.m.methods:
            callee = self.m.methods[f.attr]
            if f.attr not in self.m.inline:
                # summarised query: may (re)build the cache, never writes content
                if f.attr in self.m.builds_cache:
                    return [replace(s, cache="MAYBE", content="CLEAN") for s in states]
                return states
            env = self.bind(callee, e)
            out = []
            for s in states:
                saved = s.aliases
                al = set()
                for p, arg in self.bound_exprs(callee, e).items():
                    b = self.content_base(arg, s) if arg is not None else None
                    if b is not None:
                        al.add((p, b))
                s2 = replace(s, aliases=frozenset(al))
                is_public = not f.attr.startswith("_")
                o = self.m.run_method(
                    callee, s2, env, self.depth + 1,
                    (s.nwrites, s.wrote_now, s.wrote_prev) if is_public else self.public_entry_wrote,
                )
                for x, _ in o.returns:
                    out.append(replace(x, aliases=saved))
                for x, _, exc in o.raises:
                    raises.append(("raise", replace(x, aliases=saved), exc))
            return list(dict.fromkeys(out))
        # self.<C>.<method>(...)
        c = self.self_container(f.value)
        if c is not None:
            if f.attr == "pop":
                k = self.key(e.args[0]) if e.args else "?"
                has_default = len(e.args) > 1
                out = []
                for s in states:
                    if not has_default and not s.entails_present(k, c):
                        raises.append(self.reject(s, e, f"pop:{c}", "KeyError"))
                        if s.entails_absent(k, c):
                            continue
                    s = s.with_fact(k, c, True) if not has_default else s  # it was present (invariant -> ids)
                    s = s.write(f"self.{c}.pop({k})").dirty(k)
                    s = self.removed(s, k, c)
                    out.append(s)
                return out
            if f.attr == "setdefault" and e.args:
                k = self.key(e.args[0])
                out = []
                for s in states:
                    if s.entails_present(k, c):
                        out.append(s)
                        continue
                    if c != IDS and not s.entails_present(k, IDS):
                        self.m.i3(self, s, e, f"store:{c}",
                                  f"self.{c}.setdefault({k}, ..) may create an entry although `{k}` is not known to be "
                                  f"registered in the shared name space")
                    s = s.write(f"self.{c}.setdefault({k}, ..)").dirty(k).with_fact(k, c, True)
                    out.append(s.with_fact(k, "inserted:content" if c != IDS else f"inserted:{IDS}", True))
                return out
            if f.attr in MUTATING:
                return [s.write(f"self.{c}.{f.attr}(..)") for s in states]
            return states
        # <alias-into-content>.<mutating method>(...)
        if f.attr in MUTATING:
            out = []
            for s in states:
                b = self.content_base(f.value, s)
                out.append(s.write(f"{norm(f.value)}.{f.attr}(..) [reaches self.{b}]") if b is not None else s)
            return out
        return states

    def public_entry_wrote_for_private(self, s: St):
        return self.public_entry_wrote

    def removed(self, s: St, k: str, c: str) -> St:
        f = {x for x in s.facts if not (x[0] == k and x[1] == c)}
        f.add((k, c, False))
        f.add((k, f"removed:{c}", True))
        if c == IDS:
            # removing the id: membership facts for that key in content containers are untouched
            pass
        return replace(s, facts=frozenset(f))

    def bound_exprs(self, callee: ast.FunctionDef, call: ast.Call) -> dict[str, ast.expr | None]:
        params = [a.arg for a in callee.args.posonlyargs + callee.args.args]
        if params and params[0] == "self":
            params = params[1:]
        out: dict[str, ast.expr | None] = {}
        for p, a in zip(params, call.args):
            out[p] = a
        for kw in call.keywords:
            if kw.arg is not None:
                out[kw.arg] = kw.value
        return out

    def bind(self, callee: ast.FunctionDef, call: ast.Call) -> dict[str, str]:
        return {p: self.key(a) for p, a in self.bound_exprs(callee, call).items() if a is not None}

    # ---- statements
    def simple(self, stmt: ast.stmt, st: St):
        raises: list = []
        states = [st]
        if isinstance(stmt, (ast.Assign, ast.AnnAssign, ast.AugAssign)):
            value = stmt.value
            targets = stmt.targets if isinstance(stmt, ast.Assign) else [stmt.target]
            states = self.eval(value, states, raises)
            for t in targets:
                states = self.assign(t, value, states, raises, aug=isinstance(stmt, ast.AugAssign))
        elif isinstance(stmt, ast.Delete):
            for t in stmt.targets:
                if isinstance(t, ast.Subscript):
                    c = self.self_container(t.value)
                    if c is not None:
                        k = self.key(t.slice)
                        out = []
                        for s in states:
                            if not s.entails_present(k, c):
                                raises.append(self.reject(s, t, f"del:{c}", "KeyError"))
                                if s.entails_absent(k, c):
                                    continue
                            s = s.with_fact(k, c, True)
                            s = self.removed(s.write(f"del self.{c}[{k}]").dirty(k), k, c)
                            out.append(s)
                        states = out
                    else:
                        out = []
                        for s in states:
                            b = self.content_base(t.value, s)
                            out.append(s.write(f"del {norm(t)} [reaches self.{b}]") if b else s)
                        states = out
        elif isinstance(stmt, ast.Return):
            states = self.eval(stmt.value, states, raises)
        elif isinstance(stmt, ast.Raise):
            for s in states:
                self.m.rejection(self, s, stmt, "raise:" + (self.raise_name(stmt) or "?"))
            states = list(states)
            for r in raises:
                yield r
            for s in states:
                yield ("raise", s, self.raise_name(stmt))
            return
        elif isinstance(stmt, ast.Expr):
            states = self.eval(stmt.value, states, raises)
        elif isinstance(stmt, ast.Assert):
            states = self.eval(stmt.test, states, raises)
        elif isinstance(stmt, (ast.Pass, ast.Import, ast.ImportFrom, ast.Global, ast.Nonlocal,
                               ast.FunctionDef, ast.ClassDef)):
            pass
        else:
            raise AnalysisError(f"{MOD}:{stmt.lineno}: statement kind {type(stmt).__name__} not modelled")
        for r in raises:
            yield r
        for s in states:
            yield ("normal", s)

    def assign(self, t: ast.expr, value: ast.expr | None, states: list[St], raises: list, aug: bool) -> list[St]:
        out = []
        if isinstance(t, ast.Name):
            for s in states:
                s = s.drop_names({t.id})
                b = self.content_base(value, s) if value is not None else None
                out.append(s.with_alias(t.id, b))
            return out
        if isinstance(t, (ast.Tuple, ast.List)):
            names = {n.id for n in ast.walk(t) if isinstance(n, ast.Name)}
            return [s.drop_names(names) for s in states]
        if is_self_attr(t):
            if t.attr == self.m.cache_field:
                none = isinstance(value, ast.Constant) and value.value is None
                return [
                    replace(s, cache="NONE" if none else "MAYBE", content="CLEAN") for s in states
                ]
            if t.attr in self.m.tracked:
                return [s.write(f"self.{t.attr} = ..") for s in states]
            return states
        if isinstance(t, ast.Subscript):
            c = self.self_container(t.value)
            if c is not None:
                k = self.key(t.slice)
                for s in states:
                    if c != IDS and not (s.entails_present(k, c) or s.entails_present(k, IDS)):
                        self.m.i3(self, s, t, f"store:{c}",
                                  f"self.{c}[{k}] is stored although `{k}` is not known to be registered in "
                                  f"the shared name space (no dominating _insert_id / membership test)")
                    s = s.write(f"self.{c}[{k}] = ..").dirty(k)
                    s = s.with_fact(k, c, True)
                    if c == IDS:
                        s = s.with_fact(k, f"inserted:{IDS}", True)
                    else:
                        s = s.with_fact(k, "inserted:content", True)
                    out.append(s)
                return out
            for s in states:
                b = self.content_base(t.value, s)
                out.append(s.write(f"{norm(t)} = .. [reaches self.{b}]") if b is not None else s)
            return out
        if isinstance(t, ast.Attribute):
            for s in states:
                b = self.content_base(t.value, s)
                if b is not None:
                    s = s.write(f"{norm(t)} = .. [reaches self.{b}]")
                    if t.attr == "outputs":
                        s = replace(s, outputs_dirty=True)
                out.append(s)
            return out
        return states

    # ---- conditions
    def cond(self, test: ast.expr, st: St):
        raises: list = []
        states = self.eval(test, [st], raises)
        self._cond_raises = raises
        for r in raises:
            self.m.pending_raises.append(r)
        tt, ff = [], []
        for s in states:
            t, f = self.refine(test, s)
            tt.extend(t)
            ff.extend(f)
        return tt, ff

    def refine(self, test: ast.expr, s: St):
        if isinstance(test, ast.UnaryOp) and isinstance(test.op, ast.Not):
            t, f = self.refine(test.operand, s)
            return f, t
        if isinstance(test, ast.Compare) and len(test.ops) == 1:
            op, right, left = test.ops[0], test.comparators[0], test.left
            c = self.self_container(right)
            if isinstance(op, (ast.In, ast.NotIn)) and c is not None:
                k = self.key(left)
                pres = [] if s.entails_absent(k, c) else [s.with_fact(k, c, True)]
                absn = [] if s.entails_present(k, c) else [s.with_fact(k, c, False)]
                return (pres, absn) if isinstance(op, ast.In) else (absn, pres)
            if isinstance(op, (ast.Eq, ast.NotEq)) and isinstance(right, ast.Constant) and right.value == "time":
                k = self.key(left)
                eq = [] if s.has(k, "is:time", False) else [s.with_fact(k, "is:time", True)]
                ne = [s] if s.has(k, "is:time", False) else [s.with_fact(k, "is:time", False)]
                return (eq, ne) if isinstance(op, ast.Eq) else (ne, eq)
        return [s], [s]

    # ---- loops
    def enter_loop(self, node, st: St):
        return replace(st, loop_base=st.loop_base + (st.wrote_now,))

    def bind_loop(self, node, st: St, i: int):
        if i > 0:
            base = st.loop_base[-1]
            if st.wrote_now and not base:
                st = replace(st, wrote_now=False, wrote_prev=True)
        if isinstance(node, ast.For):
            names = {n.id for n in ast.walk(node.target) if isinstance(n, ast.Name)}
            st = st.drop_names(names)
            it = node.iter
            b = self.content_base(it, st)
            if b is not None:
                for n in names:
                    st = st.with_alias(n, b)
            # invariant: outputs of a registered surrogate are registered names
            if isinstance(it, ast.Attribute) and it.attr == "outputs" and isinstance(node.target, ast.Name):
                k = node.target.id
                st = st.with_fact(k, "is:output", True)
                if b == "_surrogates" and not st.outputs_dirty:
                    st = st.with_fact(k, IDS, True)
        return st

    def stmt(self, s, st):
        # loops: evaluate the iterable once (loads inside it may reject)
        if isinstance(s, ast.For):
            raises: list = []
            sts = self.eval(s.iter, [st], raises)
            out = None
            from ..interp import Outcome

            out = Outcome()
            for r in raises:
                out.raises.append((r[1], s, r[2]))
            for x in sts:
                x = replace(x, loop_base=x.loop_base)  # no-op, clarity
                o = super().stmt(s, x)
                out.absorb(o)
            return out
        self.m.pending_raises = []
        o = super().stmt(s, st)
        if isinstance(s, (ast.If, ast.While)) and self.m.pending_raises:
            for r in self.m.pending_raises:
                o.raises.append((r[1], s, r[2]))
            self.m.pending_raises = []
        return o

    def exit_loop(self, node, st: St):
        if st.loop_base:
            st = replace(
                st,
                loop_base=st.loop_base[:-1],
                wrote_now=st.wrote_now or st.wrote_prev,
                wrote_prev=False,
            )
        return st


class Machine:
    def __init__(self, chk: "C03") -> None:
        self.chk = chk
        mod = chk.prog.module(MOD)
        self.mod = mod
        self.methods = mod.methods(CLS)
        self.cache_field = "_cache"
        self.pending_raises: list = []
        # tracked containers = fields read (transitively) by the cache builder, plus the name space
        self.content_fields = self.fields_read_by("_create_cache")
        self.content_fields.discard(self.cache_field)
        self.tracked = set(self.content_fields) | {IDS}
        CONTENT.clear()
        CONTENT.update(self.content_fields - {IDS})
        # which methods (transitively) write tracked state -> inlined; which may build the cache
        self.writes = self.transitive(self.direct_writer)
        self.builds_cache = self.transitive(self.direct_cache_builder)
        self.inline = set(self.writes) | {"_insert_id", "_remove_id"}
        self.top: str = ""
        self.events: dict[str, list] = {}

    # ---- summaries
    def fields_read_by(self, name: str) -> set[str]:
        seen, todo, out = set(), [name], set()
        while todo:
            n = todo.pop()
            if n in seen or n not in self.methods:
                continue
            seen.add(n)
            for x in ast.walk(self.methods[n]):
                if is_self_attr(x):
                    if x.attr in self.methods:
                        todo.append(x.attr)
                    elif x.attr.startswith("_"):
                        out.add(x.attr)
        return out

    def _reaches(self, e: ast.AST, aliases: set[str]) -> bool:
        """Does expression `e` denote (part of) tracked state, syntactically?"""
        while True:
            if is_self_attr(e) and e.attr in self.tracked:
                return True
            if isinstance(e, ast.Call):
                if dotted(e.func) in ("cast", "typing.cast") and len(e.args) == 2:
                    e = e.args[1]
                    continue
                if isinstance(e.func, ast.Attribute) and e.func.attr in ("get", "values", "items", "keys", "pop", "setdefault"):
                    e = e.func.value
                    continue
                return False
            if isinstance(e, (ast.Attribute, ast.Subscript)):
                e = e.value
                continue
            if isinstance(e, ast.NamedExpr):
                e = e.value
                continue
            break
        return isinstance(e, ast.Name) and e.id in aliases

    def direct_writer(self, fn: ast.FunctionDef) -> bool:
        # flow-insensitive local aliases into tracked state
        aliases: set[str] = set()
        changed = True
        while changed:
            changed = False
            for n in walk_no_nested(fn):
                pairs = []
                if isinstance(n, ast.Assign):
                    pairs = [(t, n.value) for t in n.targets]
                elif isinstance(n, ast.AnnAssign) and n.value is not None:
                    pairs = [(n.target, n.value)]
                elif isinstance(n, ast.NamedExpr):
                    pairs = [(n.target, n.value)]
                elif isinstance(n, (ast.For, ast.comprehension)):
                    pairs = [(n.target, n.iter)]
                for t, v in pairs:
                    if isinstance(t, (ast.Name, ast.Tuple, ast.List)) and self._reaches(v, aliases):
                        for x in ast.walk(t):
                            if isinstance(x, ast.Name) and x.id not in aliases:
                                aliases.add(x.id)
                                changed = True
        for n in walk_no_nested(fn):
            tgt = []
            if isinstance(n, ast.Assign):
                tgt = n.targets
            elif isinstance(n, (ast.AugAssign, ast.AnnAssign)):
                tgt = [n.target]
            elif isinstance(n, ast.Delete):
                tgt = n.targets
            for t in tgt:
                if isinstance(t, (ast.Subscript, ast.Attribute)) and not is_self_attr(t, self.cache_field):
                    if is_self_attr(t):
                        if t.attr in self.tracked:
                            return True
                    elif self._reaches(t.value, aliases):
                        return True
            if isinstance(n, ast.Call) and isinstance(n.func, ast.Attribute) and n.func.attr in MUTATING:
                if self._reaches(n.func.value, aliases):
                    return True
        return False

    def direct_cache_builder(self, fn: ast.FunctionDef) -> bool:
        for n in walk_no_nested(fn):
            if isinstance(n, ast.Assign):
                for t in n.targets:
                    if is_self_attr(t, self.cache_field) and not (
                        isinstance(n.value, ast.Constant) and n.value.value is None
                    ):
                        return True
        return False

    def transitive(self, pred) -> set[str]:
        direct = {n for n, f in self.methods.items() if pred(f)}
        calls = {
            n: {x.attr for x in ast.walk(f) if is_self_attr(x) and x.attr in self.methods}
            for n, f in self.methods.items()
        }
        out = set(direct)
        changed = True
        while changed:
            changed = False
            for n, cs in calls.items():
                if n not in out and cs & out:
                    out.add(n)
                    changed = True
        return out

    # ---- frames
    def run_method(self, fn: ast.FunctionDef, st: St, env: dict, depth: int, public_entry_wrote):
        if depth > 6:
            raise AnalysisError(f"inlining depth exceeded at {fn.name}")
        decos = [d for d in fn.decorator_list]
        if not decos:
            return self.run_plain(fn, st, env, depth, public_entry_wrote)
        if len(decos) > 1:
            raise AnalysisError(f"{fn.name}: stacked decorators not modelled")
        d = decos[0]
        dname = dotted(d)
        if dname in ("property", "staticmethod", "classmethod"):
            return self.run_plain(fn, st, env, depth, public_entry_wrote)
        if dname not in self.mod.functions:
            raise AnalysisError(f"{fn.name}: decorator {norm(d)} not resolvable in {MOD}")
        deco = self.mod.functions[dname]
        inner = [n for n in deco.body if isinstance(n, ast.FunctionDef)]
        rets = [n for n in deco.body if isinstance(n, ast.Return)]
        if len(inner) != 1 or not rets or not (isinstance(rets[-1].value, ast.Name) and rets[-1].value.id == inner[0].name):
            raise AnalysisError(f"decorator {dname}: wrapper shape not recognised")
        wparam = deco.args.args[0].arg
        it = MutatorInterp(self, inner[0], env, depth, public_entry_wrote, wrapped=fn, wrapped_param=wparam)
        return it.run_function(inner[0], st)

    def run_plain(self, fn, st, env, depth, public_entry_wrote):
        it = MutatorInterp(self, fn, env, depth, public_entry_wrote)
        return it.run_function(fn, st)

    # ---- events
    def rejection(self, frame: MutatorInterp, st: St, node: ast.AST, what: str) -> None:
        if not (st.wrote_now or st.wrote_prev):
            self.events.setdefault("clean_reject", []).append((what, node))
            return
        now = st.wrote_now
        if frame.public_entry_wrote is not None:
            # inside an inlined *public* callee: a rejection that follows a write made by that callee
            # itself is the callee's own finding (reported when it is analysed as an entry point);
            # otherwise the write was the caller's.
            n0, now0, prev0 = frame.public_entry_wrote
            if st.nwrites > n0:
                return
            now = now0
        kind = "I2" if now else "I2b"
        self.events.setdefault(kind, []).append((what, node, st.last_write, frame.fn.name))

    def i3(self, frame, st, node, what, why) -> None:
        if frame.depth > 0 and not frame.fn.name.startswith("_") and frame.fn.name != self.top:
            return
        self.events.setdefault("I3", []).append((what, node, why, frame.fn.name))


class C03(Check):
    pid = "C03"
    title = "Edit histories: answers depend only on the model's current content"
    rules = {
        "I1": "invalidate-on-write: at every normal exit of every public Model method that writes a field the "
              "cache builder reads, the cache is None or was rebuilt after the last write; snapshot clause: no method that writes content stores a value "
              "it read from the cache field earlier back into the cache field (unconditionally, or under a flag a loop overwrites per item)",
        "I2": "atomic rejection: on no path of a public mutator may a rejection point that can still fire "
              "(under the membership facts and the class invariant keys(content) <= keys(_ids)) follow a write",
        "I2b": "bulk atomicity: a loop whose body writes must not be able to reject in a later iteration",
        "I3": "one name space: a store under a new key is dominated by _insert_id(key); each container removal is "
              "paired with _remove_id of the same key and vice versa",
        "I5": "no method other than the cache builder writes into the memoised cache's containers: a name bound to a cache field is an "
              "alias (level 0), a shallow copy (.copy(), dict(..), list(..)) still shares the inner containers (level 1); a store or mutating "
              "call that reaches shared storage changes what every later query answers",
        "I6": "every value argument of a mutator (add_*, update_*, remove_*, scale_*, make_*) reaches an effect - a store, a call, an iteration - and "
              "is not merely tested: an argument that is only looked at means that part of the requested edit is silently not made",
        "I4": "no public query hands out the memoised cache's own mutable containers (a caller editing the result would edit the "
              "cache and change later answers); copies, fresh comprehensions and scalars are fine",
    }
    floors = {"I1": 25, "I2": 25, "I3": 25, "I4": 8, "I5": 10, "I6": 25}
    decided = [
        "every public mutator resets / rebuilds the memoised cache on every path that changes content",
        "a rejected single edit has written nothing before the rejection",
        "all component kinds register in and unregister from the one name space together with their container",
    ]
    undecided = [
        "that a query on a fresh cache computes the right numbers (-> C01/C02/C13)",
        "edits made by mutating objects handed out with as_copy=False (outside the public mutator API)",
    ]
    assumptions = [
        "class invariant assumed at method entry: keys of every content container and surrogate outputs are keys of _ids; 'time' is never in _ids",
        "constructors of the component dataclasses and logging calls do not raise",
        "errors of the cache builder itself (sorting / arity) are not edit rejections",
    ]

    def i3_outputs(self, m) -> None:
        """The outputs of a surrogate live in the one name space too: they are registered when the surrogate is stored and released when it
        is removed or replaced (the interpreter assumes this invariant at method entry; here it is established)."""
        def loops(fn, call):
            out = []
            for l in ast.walk(fn):
                if isinstance(l, ast.For) and norm(l.iter).endswith(".outputs") and isinstance(l.target, ast.Name):
                    if any(isinstance(c, ast.Call) and norm(c.func) == f"self.{call}" and any(norm(k.value) == l.target.id for k in c.keywords) | any(norm(a) == l.target.id for a in c.args)
                           for c in ast.walk(l)):
                        out.append(l)
            return out

        want = {"add_surrogate": ("_insert_id",), "remove_surrogate": ("_remove_id",), "update_surrogate": ("_remove_id", "_insert_id")}
        for name, calls in want.items():
            if name not in m.methods:
                raise AnalysisError(f"Model.{name} missing")
            fn = m.methods[name]
            q = f"{CLS}.{name}"
            for call in calls:
                ls = loops(fn, call)
                cons = f"outputs-{'registered' if call == '_insert_id' else 'released'}"
                if ls:
                    self.holds("I3", MOD, q, cons, ls[0], f"every output goes through self.{call}")
                else:
                    self.violated("I3", MOD, q, cons, fn, f"the surrogate's outputs are not passed to self.{call} one by one: " +
                                  ("an output name can be reused by another component, which then shadows the surrogate's value" if call == "_insert_id"
                                   else "the names stay taken after the surrogate is gone (or replaced by one with other outputs)"),
                                  witness="add_surrogate(s with outputs ['y']); add_parameter('y', 1.0) succeeds" if call == "_insert_id"
                                  else "remove_surrogate('s'); add_parameter('y', 1.0) raises although nothing is called y any more")

    def i6_plural(self, m) -> None:
        """add_xs / update_xs / scale_xs apply the singular mutator to every item, on every path of the loop."""
        from ..interp import Sym, SymInterp

        class I1(SymInterp):
            loop_unroll = 1

        for name in sorted(m.methods):
            if name.startswith("_") or not name.endswith("s") or not name.startswith(("add_", "update_", "scale_", "remove_")):
                continue
            single = name[:-1]
            if single not in m.methods:
                continue
            fn = m.methods[name]
            q = f"{CLS}.{name}"
            params = [a.arg for a in fn.args.args[1:]]
            if not params:
                continue
            src = params[0]
            paths = [st for st, _ in I1().run_function(fn, Sym()).returns]
            iterated = applied = 0
            for st in paths:
                texts = [x for e in st.events for x in e[1:] if isinstance(x, str)] + [c for c, _ in st.conds]
                if not any(f"(0, {src}" in t for t in texts):
                    continue
                iterated += 1
                if any(e[0] == "call" and e[1].startswith(f"self.{single}(") and f"(0, {src}" in e[1] for e in st.events):
                    applied += 1
            loop = next((l for l in ast.walk(fn) if isinstance(l, ast.For)), fn)
            if iterated == 0:
                self.violated("I6", MOD, q, "every-item-applied", fn, f"the items of `{src}` are never walked: the plural mutator does nothing")
            elif applied == iterated:
                self.holds("I6", MOD, q, "every-item-applied", loop, f"self.{single}(item..) on all {iterated} paths of an iteration")
            else:
                self.violated("I6", MOD, q, "every-item-applied", loop, f"on {iterated - applied} of {iterated} paths of an iteration no self.{single}(..) is called for the item: that item's edit is dropped",
                              witness=f"m.{name}({{'a': <plain value>}}) leaves a unchanged")

    def i1_restore(self, m) -> None:
        """I1 snapshot clause: the memoised cache is only ever reset or rebuilt.  A method that writes model content and then stores a
        value it read from `self._cache` EARLIER back into `self._cache` resurrects answers computed from the old content.  The only
        sound form is a restore on paths where nothing changed; that needs value reasoning (refused, exit 2), except for two shapes that
        are decided: a restore under no condition, and a restore guarded by a flag that a loop overwrites per iteration instead of
        accumulating (only the last item then decides, the earlier items' writes are forgotten)."""
        scanned = 0
        for name, fn in m.methods.items():
            if name == "_create_cache":
                continue
            scanned += 1
            snaps: set[str] = set()
            for n in walk_no_nested(fn):
                val, tgts = None, []
                if isinstance(n, ast.Assign):
                    val, tgts = n.value, n.targets
                elif isinstance(n, ast.AnnAssign) and n.value is not None:
                    val, tgts = n.value, [n.target]
                elif isinstance(n, ast.NamedExpr):
                    val, tgts = n.value, [n.target]
                if val is None:
                    continue
                reads = any(is_self_attr(x, m.cache_field) and isinstance(x.ctx, ast.Load) for x in ast.walk(val)) or any(
                    isinstance(x, ast.Name) and x.id in snaps for x in ast.walk(val))
                if reads:
                    snaps |= {t.id for t in tgts if isinstance(t, ast.Name)}
            parents: dict[int, ast.AST] = {}
            for n in walk_no_nested(fn):
                for c in ast.iter_child_nodes(n):
                    parents[id(c)] = n
            for n in walk_no_nested(fn):
                if not (isinstance(n, ast.Assign) and any(is_self_attr(t, m.cache_field) for t in n.targets)):
                    continue
                stale = [x for x in ast.walk(n.value) if (isinstance(x, ast.Name) and x.id in snaps) or is_self_attr(x, m.cache_field)]
                if not stale:
                    continue
                q = f"{CLS}.{name}"
                if name not in m.writes:
                    self.holds("I1", MOD, q, "cache-snapshot-restored", n, "the method writes no content field: the snapshot is still current")
                    continue
                flags: set[str] = set()
                cur = n
                while id(cur) in parents:
                    par = parents[id(cur)]
                    if isinstance(par, (ast.If, ast.While)) and cur is not par.test:
                        flags |= {x.id for x in ast.walk(par.test) if isinstance(x, ast.Name)}
                    cur = par
                if not flags:
                    self.violated("I1", MOD, q, "cache-snapshot-restored", n,
                                  "a cache snapshot taken before the method's writes is stored back unconditionally: later queries answer "
                                  "from the content as it was before the edit",
                                  witness=f"query; m.{name}(...); query  -- second answer is the first one")
                    continue
                bad = None
                for loop in (x for x in walk_no_nested(fn) if isinstance(x, (ast.For, ast.While))):
                    for x in ast.walk(loop):
                        if isinstance(x, ast.Assign) and any(isinstance(t, ast.Name) and t.id in flags for t in x.targets):
                            fl = next(t.id for t in x.targets if isinstance(t, ast.Name) and t.id in flags)
                            v = x.value
                            mono = (isinstance(v, ast.Constant) and v.value is True) or (
                                isinstance(v, ast.BoolOp) and isinstance(v.op, ast.Or) and any(isinstance(o, ast.Name) and o.id == fl for o in v.values)) or (
                                isinstance(v, ast.BinOp) and isinstance(v.op, ast.BitOr) and any(isinstance(o, ast.Name) and o.id == fl for o in (v.left, v.right)))
                            if not mono:
                                bad = (fl, x)
                if bad:
                    self.violated("I1", MOD, q, "cache-snapshot-restored", bad[1],
                                  f"the cache snapshot is restored unless `{bad[0]}` is set, and the loop OVERWRITES `{bad[0]}` per item "
                                  f"(`{norm(bad[1])}`) instead of accumulating it: an item that changed the model followed by one that did not "
                                  "leaves the stale cache in place",
                                  witness=f"m.{name}({{changed_item: new, last_item: same_as_before}}); query  -- answers with the old value")
                else:
                    self.undecided_ob("I1", MOD, q, "cache-snapshot-restored", n,
                                      "a cache snapshot taken before the method's writes is restored under a condition; whether the condition "
                                      "implies that no content changed needs value reasoning the rules do not have")
        self.analysed["methods_scanned_for_cache_snapshot_restore"] = scanned

    def i6(self, m, public) -> None:
        """Every argument of a mutator reaches an effect - a store, a call, an iteration - and is not merely tested.  An argument that is
        only looked at (`if unit is not None:` with the assignment gone) means that part of the requested edit is silently not made."""
        for name in sorted(n_ for n_ in m.methods if not n_.startswith("_") and n_.startswith(("add_", "update_", "remove_", "scale_", "make_"))):
            fn = m.methods[name]
            if any(dotted(d) in ("property", "overload") for d in fn.decorator_list):
                continue
            q = f"{CLS}.{name}"
            parents = {}
            for n in ast.walk(fn):
                for c in ast.iter_child_nodes(n):
                    parents[id(c)] = n
            pos = fn.args.args[1:]
            defaults = dict(zip([a.arg for a in pos[len(pos) - len(fn.args.defaults):]], fn.args.defaults))
            defaults.update({a.arg: d for a, d in zip(fn.args.kwonlyargs, fn.args.kw_defaults) if d is not None})
            ignored = []
            n_args = 0
            for a in pos + fn.args.kwonlyargs:
                p = a.arg
                d = defaults.get(p)
                if (isinstance(d, ast.Constant) and isinstance(d.value, bool)) or (a.annotation is not None and norm(a.annotation) == "bool"):
                    continue  # a switch is meant to be tested only
                n_args += 1
                effect = False
                for x in ast.walk(fn):
                    if not (isinstance(x, ast.Name) and x.id == p and isinstance(x.ctx, ast.Load)):
                        continue
                    cur = x
                    tested_only = False
                    while id(cur) in parents:
                        par = parents[id(cur)]
                        if isinstance(par, ast.NamedExpr) and par.value is cur:
                            break
                        if (isinstance(par, (ast.If, ast.IfExp, ast.While)) and par.test is cur) or isinstance(par, ast.Assert):
                            tested_only = True
                            break
                        cur = par
                    if not tested_only:
                        effect = True
                        break
                if not effect:
                    ignored.append(p)
            if ignored:
                self.violated("I6", MOD, q, "arguments-take-effect", fn, f"the argument(s) {ignored} are at most tested, never stored, passed on or iterated: that part of the edit is not made",
                              witness=f"m.{name}(..., {ignored[0]}=<new value>) leaves the model's {ignored[0]} as it was; a freshly built model with the requested content answers differently")
            else:
                self.holds("I6", MOD, q, "arguments-take-effect", fn, f"all {n_args} value arguments reach a store, a call or an iteration")

    def run(self) -> None:
        m = Machine(self)
        self.analysed = {
            "content_fields_computed_from__create_cache": sorted(m.content_fields),
            "methods_of_Model": len(m.methods),
        }
        if not {"_parameters", "_variables", "_reactions", "_derived"} <= m.content_fields:
            raise AnalysisError(f"content fields not recognised: {sorted(m.content_fields)}")
        self.i4(m)
        self.i5(m)
        public = [
            n for n in m.methods
            if not n.startswith("_") and n in m.writes
            and not any(dotted(d) == "property" for d in m.methods[n].decorator_list)
        ]
        self.analysed["public_mutators"] = public
        self.i1_restore(m)
        self.i6(m, public)
        self.i6_plural(m)
        self.i3_outputs(m)
        for name in public:
            fn = m.methods[name]
            m.top = name
            m.events = {}
            it_out = m.run_method(fn, St(), {}, 0, None)
            q = f"{CLS}.{name}"
            # I1
            stale = [(s, n) for s, n in it_out.returns if s.content == "STALE"]
            if stale:
                s, n = stale[0]
                self.violated(
                    "I1", MOD, q, "cache-not-reset", fn,
                    f"a path reaches a normal exit with the memoised cache still populated after the write "
                    f"`{s.last_write}`: later queries answer from the stale cache",
                    witness=f"query; m.{name}(...); query  -- second answer differs from a freshly built model",
                )
            else:
                self.holds("I1", MOD, q, "cache-not-reset", fn,
                           f"{len(it_out.returns)} exit state(s): cache None or rebuilt after the last write on all")
            # I2 / I2b
            for kind in ("I2", "I2b"):
                evs = m.events.get(kind, [])
                seen = set()
                for what, node, last_write, inner in evs:
                    if what in seen:
                        continue
                    seen.add(what)
                    self.violated(
                        kind, MOD, q, what, node,
                        f"`{what}` in {inner} can still reject after the write `{last_write}`"
                        + (" made in an earlier iteration of the same bulk edit" if kind == "I2b" else "")
                        + ": the rejected edit has already changed the model",
                    )
                if not evs and kind == "I2":
                    n_rej = len(m.events.get("clean_reject", []))
                    self.holds("I2", MOD, q, "no-reject-after-write", fn,
                               f"{n_rej} rejection point(s), none reachable after a write")
            # I3
            evs = list(m.events.get("I3", []))
            for s, n in it_out.returns:
                keys = {f[0] for f in s.facts}
                for k in keys:
                    if s.has(k, "is:output", True):
                        continue
                    removed_c = [f[1][8:] for f in s.facts if f[0] == k and f[1].startswith("removed:") and f[1] != f"removed:{IDS}"]
                    removed_id = s.has(k, f"removed:{IDS}", True)
                    ins_id = s.has(k, f"inserted:{IDS}", True)
                    ins_c = s.has(k, "inserted:content", True)
                    if removed_c and not removed_id and not ins_c and s.has(k, IDS, True):
                        evs.append((f"unpaired-remove:{removed_c[0]}", n,
                                    f"`{k}` is removed from self.{removed_c[0]} but its id stays registered", name))
                    if removed_id and not removed_c and not ins_id:
                        evs.append(("unpaired-remove-id", n,
                                    f"the id of `{k}` is unregistered but it is removed from no container", name))
                    if ins_id and not ins_c and not removed_id:
                        evs.append(("unpaired-insert-id", n,
                                    f"`{k}` is registered in the name space but stored in no container", name))
            seen = set()
            for what, node, why, inner in evs:
                if what in seen:
                    continue
                seen.add(what)
                self.violated("I3", MOD, q, what, node, why)
            if not evs:
                self.holds("I3", MOD, q, "ids-paired", fn, "every store/removal is paired with the name-space update")

    def i5(self, m: "Machine") -> None:
        """Alias levels: 0 = the cache's own container, 1 = shallow copy (inner containers shared)."""
        for name, fn in m.methods.items():
            if name == "_create_cache":
                continue
            cache_names = set()

            def is_cache_expr(e: ast.AST) -> bool:
                if norm(e) in ("self._create_cache()", "self._cache"):
                    return True
                if isinstance(e, ast.IfExp):
                    return is_cache_expr(e.body) and is_cache_expr(e.orelse)
                if isinstance(e, ast.NamedExpr):
                    return is_cache_expr(e.value)
                if isinstance(e, ast.BoolOp) and isinstance(e.op, ast.Or):
                    return all(is_cache_expr(v) for v in e.values)
                return False

            for n in walk_no_nested(fn):
                if isinstance(n, ast.NamedExpr) and is_cache_expr(n.value):
                    cache_names.add(n.target.id)
                if isinstance(n, ast.Assign) and isinstance(n.targets[0], ast.Name) and is_cache_expr(n.value):
                    cache_names.add(n.targets[0].id)
            for a in fn.args.args + fn.args.kwonlyargs:
                if a.arg == "cache":
                    cache_names.add("cache")
            if not cache_names:
                continue
            q = f"{CLS}.{name}"
            level: dict[str, int] = {}

            def lvl(e: ast.AST) -> int | None:
                """alias level of expression e, None = fresh / unrelated."""
                if isinstance(e, ast.Attribute) and isinstance(e.value, ast.Name) and e.value.id in cache_names:
                    return 0
                if isinstance(e, ast.Name) and e.id in level:
                    return level[e.id]
                if isinstance(e, ast.Subscript):
                    b = lvl(e.value)
                    return None if b is None else max(b - 1, 0)
                if isinstance(e, ast.Call):
                    f = e.func
                    fn_name = norm(f)
                    if fn_name in ("copy.deepcopy", "deepcopy"):
                        return None
                    if fn_name in ("dict", "list", "copy.copy", "set", "tuple") and e.args:
                        b = lvl(e.args[0])
                        return None if b is None else b + 1
                    if isinstance(f, ast.Attribute) and f.attr == "copy":
                        b = lvl(f.value)
                        return None if b is None else b + 1
                    if isinstance(f, ast.Attribute) and f.attr in ("get", "setdefault", "pop"):
                        b = lvl(f.value)
                        return None if b is None else max(b - 1, 0)
                    if isinstance(f, ast.Attribute) and f.attr in ("items", "values"):
                        b = lvl(f.value)
                        return None if b is None else b  # iterating yields inner containers: handled at the loop
                    if fn_name in ("cast", "typing.cast") and len(e.args) == 2:
                        return lvl(e.args[1])
                    return None
                if isinstance(e, ast.BinOp) and isinstance(e.op, ast.BitOr):
                    ls = [x for x in (lvl(e.left), lvl(e.right)) if x is not None]
                    return (min(ls) + 1) if ls else None  # a | b is a new dict sharing the values
                return None

            changed = True
            rounds = 0
            while changed and rounds < 5:
                changed = False
                rounds += 1
                for n in walk_no_nested(fn):
                    pairs = []
                    if isinstance(n, ast.Assign):
                        pairs = [(t, n.value) for t in n.targets if isinstance(t, ast.Name)]
                    elif isinstance(n, ast.NamedExpr):
                        pairs = [(n.target, n.value)]
                    for t, v in pairs:
                        L = lvl(v)
                        if L is not None and level.get(t.id, 99) > L:
                            level[t.id] = L
                            changed = True
                    if isinstance(n, (ast.For, ast.comprehension)):
                        b = lvl(n.iter)
                        if b is not None:
                            inner = max(b - 1, 0)
                            tg = n.target
                            val_targets = [tg.elts[1]] if isinstance(tg, ast.Tuple) and norm(n.iter).endswith(".items()") and len(tg.elts) == 2 else \
                                ([tg] if norm(n.iter).endswith(".values()") else [])
                            for vt in val_targets:
                                for x in ast.walk(vt):
                                    if isinstance(x, ast.Name) and level.get(x.id, 99) > inner:
                                        level[x.id] = inner
                                        changed = True
            hits = []
            for n in walk_no_nested(fn):
                tgt = []
                if isinstance(n, ast.Assign):
                    tgt = [t for t in n.targets if isinstance(t, ast.Subscript)]
                elif isinstance(n, ast.AugAssign) and isinstance(n.target, ast.Subscript):
                    tgt = [n.target]
                elif isinstance(n, ast.Delete):
                    tgt = [t for t in n.targets if isinstance(t, ast.Subscript)]
                for t in tgt:
                    L = lvl(t.value)
                    if L == 0:
                        hits.append((t, f"`{norm(t)} = ..` stores into a container the cache owns"))
                if isinstance(n, ast.Call) and isinstance(n.func, ast.Attribute) and n.func.attr in MUTATING and n.func.attr not in ("setdefault", "pop", "get"):
                    L = lvl(n.func.value)
                    if L == 0:
                        hits.append((n, f"`{norm(n)[:60]}` mutates a container the cache owns"))
            if hits:
                node, why = hits[0]
                self.violated("I5", MOD, q, "writes-into-cache", node,
                              why + ": the memoised tables are changed by a query, so later queries (and the integrator) answer from polluted data",
                              witness="a model with a state-dependent stoichiometric coefficient: get_stoichiometries(); then model(t, y) counts that flux twice")
            else:
                self.holds("I5", MOD, q, "writes-into-cache", fn, f"reads the cache through {sorted(cache_names)}; no store or mutation reaches cache-owned storage")

    def i4(self, m: "Machine") -> None:
        for name, fn in m.methods.items():
            if name.startswith("_") and name != "__call__":
                continue
            cache_names = {"self._cache"}
            for n in walk_no_nested(fn):
                if isinstance(n, ast.NamedExpr) and norm(n.value) == "self._cache":
                    cache_names.add(n.target.id)
                if isinstance(n, ast.Assign) and isinstance(n.targets[0], ast.Name) and norm(n.value) in ("self._create_cache()", "self._cache"):
                    cache_names.add(n.targets[0].id)
            if len(cache_names) == 1 and "self._cache" not in norm(fn):
                continue
            rets = [r for r in walk_no_nested(fn) if isinstance(r, ast.Return) and r.value is not None]
            leaked = [r for r in rets if isinstance(r.value, ast.Attribute) and norm(r.value.value) in cache_names]
            q = f"{CLS}.{name}"
            if leaked:
                r = leaked[0]
                self.violated("I4", MOD, q, f"returns {norm(r.value).split('.')[-1]}", r,
                              f"`{norm(r)}` hands out the cache's own container: a caller that edits the result edits the memoised state and "
                              "changes what later queries (and every Simulator's default start) answer",
                              witness=f"d = model.{name}(); d.clear(); model.{name}() is now empty although the model's content is unchanged")
            elif rets:
                self.holds("I4", MOD, q, "no-cache-container-escapes", rets[0], "returns a copy / a freshly built object / a scalar")

    # ---- checker validation
    def must_fire(self) -> list[Variant]:
        v = []
        m = self.prog.module(MOD)
        for name, fn in m.methods(CLS).items():
            if name != "make_parameter_dynamic" and any(dotted(d) == "_invalidate_cache" for d in fn.decorator_list):
                v.append(Variant(f"drop-decorator-{name}", MOD, f"{CLS}.{name}", "@_invalidate_cache\n", "",
                                 expect=f"I1|{MOD}|{CLS}.{name}|", quick=name in ("add_parameter", "update_reaction")))
        v += [
            Variant("store-before-insert-id", MOD, f"{CLS}.add_parameter",
                    "self._insert_id(name=name, ctx='parameter')\n    self._parameters[name] = Parameter(value=value, unit=unit, source=source)",
                    "self._parameters[name] = Parameter(value=value, unit=unit, source=source)\n    self._insert_id(name=name, ctx='parameter')",
                    expect="|Model.add_parameter|", quick=True),
            Variant("drop-insert-id-add_derived", MOD, f"{CLS}.add_derived", "    self._insert_id(name=name, ctx='derived')\n", "",
                    expect="I3|model.py|Model.add_derived|", quick=True),
            Variant("drop-remove-id-remove_reaction", MOD, f"{CLS}.remove_reaction", "    self._remove_id(name=name)\n", "",
                    expect="I3|model.py|Model.remove_reaction|unpaired-remove:_reactions"),
            Variant("drop-pop-remove_derived", MOD, f"{CLS}.remove_derived", "    self._derived.pop(name)\n", "",
                    expect="I3|model.py|Model.remove_derived|unpaired-remove-id"),
            Variant("query-then-write", MOD, f"{CLS}.update_derived", "der = self._derived[name]\n",
                    "der = self._derived[name]\n    self.get_parameter_values()\n",
                    expect="I1|model.py|Model.update_derived|"),
            Variant("query-shallow-copies-cache-table", MOD, f"{CLS}.get_stoichiometries", "stoich_by_cpds = copy.deepcopy(cache.stoich_by_cpds)", "stoich_by_cpds = cache.stoich_by_cpds.copy()",
                    expect="I5|model.py|Model.get_stoichiometries|", quick=True),
            Variant("call-accumulates-into-cache", MOD, f"{CLS}.__call__", "dxdt = dict.fromkeys(cache.var_names, 0.0)", "dxdt = cache.initial_conditions", expect="I5|model.py|Model.__call__|"),
            Variant("getter-returns-cache-dict", MOD, f"{CLS}.get_parameter_values", "return dict(cache.base_parameter_values)", "return cache.base_parameter_values",
                    expect="I4|model.py|Model.get_parameter_values|", quick=True),
            Variant("ic-getter-returns-cache-dict", MOD, f"{CLS}.get_initial_conditions", "return dict(cache.initial_conditions)", "return cache.initial_conditions",
                    expect="I4|model.py|Model.get_initial_conditions|"),
            Variant("reintroduce-update_data-create", MOD, f"{CLS}.update_data",
                    "    if name not in self._data:\n        msg = f\"'{name}' not found in data\"\n        raise KeyError(msg)\n", "",
                    expect="I3|model.py|Model.update_data|store:_data"),
            Variant("update_variable-creates", MOD, f"{CLS}.update_variable",
                    "    if name not in self._variables:\n        msg = f\"'{name}' not found in variables\"\n        raise KeyError(msg)\n    variable = self._variables[name]",
                    "    variable = self._variables.setdefault(name, Variable(0.0))",
                    expect="I3|model.py|Model.update_variable|store:_variables"),
            Variant("reintroduce-remove-order", MOD, f"{CLS}.remove_reaction",
                    "    self._reactions.pop(name)\n    self._remove_id(name=name)", "    self._remove_id(name=name)\n    self._reactions.pop(name)",
                    expect="I2|model.py|Model.remove_reaction|pop:_reactions", quick=True),
            Variant("reintroduce-remove_variable-order", MOD, f"{CLS}.remove_variable",
                    "    del self._variables[name]\n    self._remove_id(name=name)\n", "    self._remove_id(name=name)\n    del self._variables[name]\n",
                    expect="I2|model.py|Model.remove_variable|del:_variables"),
        ]
        v.append(Variant("snapshot-restored-unconditionally", MOD, f"{CLS}.update_parameters",
                        "    return self", "    self._cache = self._cache\n    return self",
                        expect="I1|model.py|Model.update_parameters|cache-snapshot-restored", quick=True))
        v.append(Variant("snapshot-restored-under-overwritten-flag", MOD, f"{CLS}.update_parameters",
                         "            self.update_parameter(k, v)\n    return self",
                         "            self.update_parameter(k, v)\n            changed = k != 'x'\n    if not changed:\n        self._cache = self._cache\n    return self",
                         expect="I1|model.py|Model.update_parameters|cache-snapshot-restored"))
        return v

    def must_stay_silent(self) -> list[Variant]:
        return [
            Variant("inline-reset-instead-of-decorator", MOD, f"{CLS}.add_derived",
                    "@_invalidate_cache\ndef add_derived(self, name: str, fn: RateFn, *, args: list[str], unit: sympy.Expr | None=None) -> Self:\n",
                    "def add_derived(self, name: str, fn: RateFn, *, args: list[str], unit: sympy.Expr | None=None) -> Self:\n    self._cache = None\n",
                    quick=True),
            Variant("reset-at-end", MOD, f"{CLS}.update_derived",
                    "@_invalidate_cache\n", "", count=1),  # paired below by the edit of the return
        ][:1] + [
            Variant("rename-local", MOD, f"{CLS}.update_parameter", r"\bparameter\b", "par_obj", count=0, regex=True),
            Variant("drop-decorator-make_parameter_dynamic (callees still reset the cache before the writes)", MOD,
                    f"{CLS}.make_parameter_dynamic", "@_invalidate_cache\n", ""),
            Variant("membership-test-reordered", MOD, f"{CLS}.update_variable",
                    "if name not in self._variables:", "if not name in self._variables:"),
        ]


CHECK = C03
